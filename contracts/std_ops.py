"""Signatures of the registered standard operations (property C06, the operations backed by an
extension definition): DivMod of width w takes and returns two integers of width w - its
definition's scheme `forall N. int<N>, int<N> -> int<N>, int<N>` at N = w."""
from pyvc.dsl import *  # noqa: F401,F403

class_aliases = {"FunctionType": "hugr.tys.FunctionType", "ExtType": "hugr.tys.ExtType", "BoundedNatArg": "hugr.tys.BoundedNatArg", "Type": "hugr.tys.Type"}


@spec
def is_int_of_width(t, w):
    d = get(ghost("std_ext", "Extension", "arithmetic.int.types").types, "int")
    return (cls_is(t, ExtType) and same_obj(as_cls(t, ExtType).type_def, d) and len(as_cls(t, ExtType).args) == 1
            and cls_is(nth(as_cls(t, ExtType).args, 0), BoundedNatArg) and as_cls(nth(as_cls(t, ExtType).args, 0), BoundedNatArg).n == w)


@contract("hugr.std.int._DivModDef.cached_signature", props=["C06"])
class divmod_cached_signature:
    returns = "Opt[FunctionType]"

    def requires(self):
        return has(ghost("std_ext", "Extension", "arithmetic.int.types").types, "int")

    def modifies(self):
        return []

    def raises(self):
        return {}

    def ensures(self, result):
        s = the(result)
        return {"P_two_ints_of_the_given_width_in_and_out": notNone(result) and len(s.input) == 2 and len(s.output) == 2
                and forall(int, lambda k: implies(0 <= k and k < 2, is_int_of_width(nth(s.input, k), self.width) and is_int_of_width(nth(s.output, k), self.width)))}


@contract("hugr.std.int._DivModDef.type_args", props=["C06"])
class divmod_type_args:
    returns = "Seq[hugr.tys.TypeArg]"

    def modifies(self):
        return []

    def raises(self):
        return {}

    def ensures(self, result):
        return {"P_one_argument_the_width": len(result) == 1 and cls_is(nth(result, 0), BoundedNatArg) and as_cls(nth(result, 0), BoundedNatArg).n == self.width}
