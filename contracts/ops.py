"""Contracts for hugr/ops.py (C06: signatures and port kinds follow the specification's typing rules).

The oracle is the table in the statement (cross-read with specification/hugr.md and
hugr-core/src/ops/{dataflow,controlflow}.rs); rows are sequences of type references.
"""
from pyvc.dsl import *  # noqa: F401,F403

value_classes = [
    "hugr.tys.ValueKind", "hugr.tys.ConstKind", "hugr.tys.FunctionKind", "hugr.tys.CFKind", "hugr.tys.OrderKind",
]
class_aliases = {
    "FunctionType": "hugr.tys.FunctionType", "PolyFuncType": "hugr.tys.PolyFuncType", "Sum": "hugr.tys.Sum",
    "Type": "hugr.tys.Type", "Tuple": "hugr.tys.Tuple", "Option": "hugr.tys.Option", "Either": "hugr.tys.Either",
    "ValueKind": "hugr.tys.ValueKind", "ConstKind": "hugr.tys.ConstKind", "FunctionKind": "hugr.tys.FunctionKind",
    "CFKind": "hugr.tys.CFKind", "OrderKind": "hugr.tys.OrderKind",
    "InPort": "hugr.hugr.node_port.InPort", "OutPort": "hugr.hugr.node_port.OutPort", "Node": "hugr.hugr.node_port.Node",
    "IncompleteOp": "hugr.ops.IncompleteOp", "InvalidPort": "hugr.ops.InvalidPort", "NoConcreteFunc": "hugr.ops.NoConcreteFunc",
    "Input": "hugr.ops.Input", "Output": "hugr.ops.Output", "DFG": "hugr.ops.DFG", "CFG": "hugr.ops.CFG",
    "Conditional": "hugr.ops.Conditional", "Case": "hugr.ops.Case", "TailLoop": "hugr.ops.TailLoop",
    "DataflowBlock": "hugr.ops.DataflowBlock", "ExitBlock": "hugr.ops.ExitBlock", "Tag": "hugr.ops.Tag",
    "Call": "hugr.ops.Call", "CallIndirect": "hugr.ops.CallIndirect", "LoadFunc": "hugr.ops.LoadFunc",
    "LoadConst": "hugr.ops.LoadConst", "Const": "hugr.ops.Const", "FuncDefn": "hugr.ops.FuncDefn", "FuncDecl": "hugr.ops.FuncDecl",
    "MakeTuple": "hugr.ops.MakeTuple", "UnpackTuple": "hugr.ops.UnpackTuple", "Value": "hugr.val.Value",
}


@spec
def sig_is(s, inp, out):
    return eq(s.input, inp) and eq(s.output, out)


@spec
def in_range(i, n):
    return 0 <= i and i < n


# ---- Input / Output ----------------------------------------------------------------------------
@contract("hugr.ops.Input.outer_signature", props=["C06"])
class input_outer:
    returns = "FunctionType"

    def modifies(self):
        return []

    def raises(self):
        return {}

    def ensures(self, result):
        return {"P_sig": sig_is(result, empty_seq(Type), self.types)}


@contract("hugr.ops.Input.num_out", props=["C06"])
class input_num_out:
    def modifies(self):
        return []

    def raises(self):
        return {}

    def ensures(self, result):
        return {"P_count": result == len(self.types)}


@contract("hugr.ops.Output.outer_signature", props=["C06"])
class output_outer:
    returns = "FunctionType"

    def modifies(self):
        return []

    def raises(self):
        return {IncompleteOp: isNone(self._types)}

    def ensures(self, result):
        return {"P_sig": sig_is(result, the(self._types), empty_seq(Type))}


# ---- DFG / CFG -----------------------------------------------------------------------------------
@contract("hugr.ops.DFG.outer_signature", props=["C06"])
class dfg_outer:
    returns = "FunctionType"

    def modifies(self):
        return []

    def raises(self):
        return {IncompleteOp: isNone(self._outputs)}

    def ensures(self, result):
        return {"P_sig": sig_is(result, self.inputs, the(self._outputs))}


@contract("hugr.ops.DFG.inner_signature", props=["C06"])
class dfg_inner:
    returns = "FunctionType"

    def modifies(self):
        return []

    def raises(self):
        return {IncompleteOp: isNone(self._outputs)}

    def ensures(self, result):
        # a DFG's outer signature equals its body's
        return {"P_sig": sig_is(result, self.inputs, the(self._outputs))}


@contract("hugr.ops.DFG.num_out", props=["C06"])
class dfg_num_out:
    def modifies(self):
        return []

    def raises(self):
        return {IncompleteOp: isNone(self._outputs)}

    def ensures(self, result):
        return {"P_count": result == len(the(self._outputs))}


@contract("hugr.ops.CFG.outer_signature", props=["C06"])
class cfg_outer:
    returns = "FunctionType"

    def modifies(self):
        return []

    def raises(self):
        return {IncompleteOp: isNone(self._outputs)}

    def ensures(self, result):
        return {"P_sig": sig_is(result, self.inputs, the(self._outputs))}


@contract("hugr.ops.CFG.num_out", props=["C06"])
class cfg_num_out:
    def modifies(self):
        return []

    def raises(self):
        return {IncompleteOp: isNone(self._outputs)}

    def ensures(self, result):
        return {"P_count": result == len(the(self._outputs))}


# ---- Conditional / Case ----------------------------------------------------------------------------
@contract("hugr.ops.Conditional.outer_signature", props=["C06"])
class conditional_outer:
    returns = "FunctionType"

    def modifies(self):
        return []

    def raises(self):
        return {IncompleteOp: isNone(self._outputs)}

    def ensures(self, result):
        # takes the sum followed by the other inputs
        return {"P_sig": sig_is(result, concat(Seq(Type, self.sum_ty), self.other_inputs), the(self._outputs))}


@contract("hugr.ops.Conditional.nth_inputs", props=["C06"])
class conditional_nth_inputs:
    returns = "Seq[Type]"

    def modifies(self, n):
        return []

    def raises(self, n):
        return {IndexError: not (-len(self.sum_ty.variant_rows) <= n and n < len(self.sum_ty.variant_rows))}

    def ensures(self, n, result):
        # case i receives variant i followed by the other inputs
        return {"P_rows": implies(n >= 0, eq(result, concat(nth(self.sum_ty.variant_rows, n), self.other_inputs)))}


@contract("hugr.ops.Conditional.num_out", props=["C06"])
class conditional_num_out:
    def modifies(self):
        return []

    def raises(self):
        return {IncompleteOp: isNone(self._outputs)}

    def ensures(self, result):
        return {"P_count": result == len(the(self._outputs))}


@contract("hugr.ops.Case.inner_signature", props=["C06"])
class case_inner:
    returns = "FunctionType"

    def modifies(self):
        return []

    def raises(self):
        return {IncompleteOp: isNone(self._outputs)}

    def ensures(self, result):
        return {"P_sig": sig_is(result, self.inputs, the(self._outputs))}


# ---- TailLoop -----------------------------------------------------------------------------------
@contract("hugr.ops.TailLoop.outer_signature", props=["C06"])
class tailloop_outer:
    returns = "FunctionType"

    def modifies(self):
        return []

    def raises(self):
        return {IncompleteOp: isNone(self._just_outputs)}

    def ensures(self, result):
        # takes just-inputs plus rest, returns just-outputs plus rest
        return {"P_sig": sig_is(result, concat(self.just_inputs, self.rest), concat(the(self._just_outputs), self.rest))}


@contract("hugr.ops.TailLoop.inner_signature", props=["C06"])
class tailloop_inner:
    returns = "FunctionType"

    def modifies(self):
        return []

    def raises(self):
        return {IncompleteOp: isNone(self._just_outputs)}

    def ensures(self, result):
        s = nth(result.output, 0)
        # the body returns Sum(just-inputs, just-outputs) plus rest
        return {"P_inputs": eq(result.input, concat(self.just_inputs, self.rest)),
                "P_out_len": len(result.output) == 1 + len(self.rest),
                "P_continue_break_sum": cls_is(s, Sum) and len(as_cls(s, Sum).variant_rows) == 2
                and eq(nth(as_cls(s, Sum).variant_rows, 0), self.just_inputs) and eq(nth(as_cls(s, Sum).variant_rows, 1), the(self._just_outputs)),
                "P_rest": eq(sub(result.output, 1, len(self.rest)), self.rest)}


@contract("hugr.ops.TailLoop.num_out", props=["C06"])
class tailloop_num_out:
    def modifies(self):
        return []

    def raises(self):
        return {IncompleteOp: isNone(self._just_outputs)}

    def ensures(self, result):
        return {"P_count": result == len(the(self._just_outputs)) + len(self.rest)}


# ---- DataflowBlock ----------------------------------------------------------------------------------
@contract("hugr.ops.DataflowBlock.inner_signature", props=["C06"])
class block_inner:
    returns = "FunctionType"

    def modifies(self):
        return []

    def raises(self):
        return {IncompleteOp: isNone(self._sum) or isNone(self._other_outputs)}

    def ensures(self, result):
        return {"P_sig": sig_is(result, self.inputs, concat(Seq(Type, the(self._sum)), the(self._other_outputs)))}


@contract("hugr.ops.DataflowBlock.nth_outputs", props=["C06"])
class block_nth_outputs:
    returns = "Seq[Type]"

    def modifies(self, n):
        return []

    def raises(self, n):
        rows = the(self._sum).variant_rows
        ok = -len(rows) <= n and n < len(rows)
        return {IncompleteOp: isNone(self._sum) or (ok and isNone(self._other_outputs)),
                IndexError: notNone(self._sum) and not ok}

    def ensures(self, n, result):
        # block successor i receives variant i plus the other outputs
        return {"P_rows": implies(n >= 0, eq(result, concat(nth(the(self._sum).variant_rows, n), the(self._other_outputs))))}


@contract("hugr.ops.DataflowBlock.num_out", props=["C06"])
class block_num_out:
    def modifies(self):
        return []

    def raises(self):
        return {IncompleteOp: isNone(self._sum)}

    def ensures(self, result):
        return {"P_count": result == len(the(self._sum).variant_rows)}


@contract("hugr.ops.DataflowBlock.port_kind", props=["C06"])
class block_port_kind:
    types = {"port": "Union[InPort, OutPort]"}

    def modifies(self, port):
        return []

    def raises(self, port):
        return {}

    def ensures(self, port, result):
        return {"P_control_flow": cls_is(result, CFKind)}


# ---- Tag ----------------------------------------------------------------------------------------------
@contract("hugr.ops.Tag.outer_signature", props=["C06"])
class tag_outer:
    returns = "FunctionType"
    exact_self = False   # Some / Left / Right / Continue / Break share the body

    def modifies(self):
        return []

    def raises(self):
        return {IndexError: not (-len(self.sum_ty.variant_rows) <= self.tag and self.tag < len(self.sum_ty.variant_rows))}

    def ensures(self, result):
        # Tag maps the variant row to the sum
        return {"P_sig": implies(self.tag >= 0, sig_is(result, nth(self.sum_ty.variant_rows, self.tag), Seq(Type, self.sum_ty)))}


# ---- CallIndirect ---------------------------------------------------------------------------------------
@contract("hugr.ops.CallIndirect.outer_signature", props=["C06"])
class callindirect_outer:
    returns = "FunctionType"

    def modifies(self):
        return []

    def raises(self):
        return {IncompleteOp: isNone(self._signature)}

    def ensures(self, result):
        f = the(self._signature)
        # CallIndirect prepends the function type to its inputs
        return {"P_sig": sig_is(result, concat(Seq(Type, f), f.input), f.output)}


@contract("hugr.ops.CallIndirect.num_out", props=["C06"])
class callindirect_num_out:
    def modifies(self):
        return []

    def raises(self):
        return {IncompleteOp: isNone(self._signature)}

    def ensures(self, result):
        return {"P_count": result == len(the(self._signature).output)}


# ---- generic dataflow port typing -------------------------------------------------------------------------
@contract("hugr.ops._sig_port_type", props=["C06"])
class sig_port_type:
    types = {"port": "Union[InPort, OutPort]"}
    returns = "Type"

    def modifies(sig, port):
        return []

    def raises(sig, port):
        off = ite(cls_is(port, InPort), as_cls(port, InPort).offset, as_cls(port, OutPort).offset)
        n = ite(cls_is(port, InPort), len(sig.input), len(sig.output))
        return {ValueError: off == -1, IndexError: off != -1 and not (-n <= off and off < n)}

    def ensures(sig, port, result):
        return {"P_in": implies(cls_is(port, InPort) and as_cls(port, InPort).offset >= 0, same_obj(result, nth(sig.input, as_cls(port, InPort).offset))),
                "P_out": implies(cls_is(port, OutPort) and as_cls(port, OutPort).offset >= 0, same_obj(result, nth(sig.output, as_cls(port, OutPort).offset)))}


# ---- static edges: Call / LoadFunc / LoadConst / Const / FuncDefn / FuncDecl -----------------------------
@spec
def port_off(port):
    return ite(cls_is(port, InPort), as_cls(port, InPort).offset, as_cls(port, OutPort).offset)


@contract("hugr.ops.Call.num_out", props=["C06"])
class call_num_out:
    def modifies(self):
        return []

    def raises(self):
        return {}

    def ensures(self, result):
        # Call exposes the *instantiated* signature
        return {"P_instantiated_outputs": result == len(self.instantiation.output)}


@contract("hugr.ops.Call._function_port_offset", props=["C06"])
class call_function_port_offset:
    def modifies(self):
        return []

    def raises(self):
        return {}

    def ensures(self, result):
        # the function port sits immediately after the value inputs
        return {"P_after_value_inputs": result == len(self.instantiation.input)}


@contract("hugr.ops.Call.port_kind", props=["C06"])
class call_port_kind:
    types = {"port": "Union[InPort, OutPort]"}

    def requires(self, port):
        off = port_off(port)
        n_in = len(self.instantiation.input)
        n_out = len(self.instantiation.output)
        # ports the operation has: value ports, the function port, the order port
        return off == -1 or (cls_is(port, InPort) and 0 <= off and off <= n_in) or (cls_is(port, OutPort) and 0 <= off and off < n_out)

    def modifies(self, port):
        return []

    def raises(self, port):
        return {}

    def ensures(self, port, result):
        off = port_off(port)
        inst = self.instantiation
        return {
            "P_order_port": implies(off == -1, cls_is(result, OrderKind)),
            "P_function_port": implies(cls_is(port, InPort) and off == len(inst.input), cls_is(result, FunctionKind) and same_obj(as_cls(result, FunctionKind).ty, self.signature)),
            "P_value_in": implies(cls_is(port, InPort) and 0 <= off and off < len(inst.input), cls_is(result, ValueKind) and same_obj(as_cls(result, ValueKind).ty, nth(inst.input, off))),
            "P_value_out": implies(cls_is(port, OutPort) and 0 <= off, cls_is(result, ValueKind) and same_obj(as_cls(result, ValueKind).ty, nth(inst.output, off))),
        }


@contract("hugr.ops.LoadFunc.outer_signature", props=["C06"])
class loadfunc_outer:
    returns = "FunctionType"

    def modifies(self):
        return []

    def raises(self):
        return {}

    def ensures(self, result):
        return {"P_sig": sig_is(result, empty_seq(Type), Seq(Type, self.instantiation))}


@contract("hugr.ops.LoadFunc.port_kind", props=["C06"])
class loadfunc_port_kind:
    types = {"port": "Union[InPort, OutPort]"}

    def modifies(self, port):
        return []

    def raises(self, port):
        off = port_off(port)
        return {InvalidPort: off != -1 and off != 0}

    def ensures(self, port, result):
        off = port_off(port)
        return {
            "P_order_port": implies(off == -1, cls_is(result, OrderKind)),
            "P_function_in": implies(cls_is(port, InPort) and off == 0, cls_is(result, FunctionKind) and same_obj(as_cls(result, FunctionKind).ty, self.signature)),
            "P_value_out": implies(cls_is(port, OutPort) and off == 0, cls_is(result, ValueKind) and same_obj(as_cls(result, ValueKind).ty, self.instantiation)),
        }


@contract("hugr.ops.LoadConst.outer_signature", props=["C06"])
class loadconst_outer:
    returns = "FunctionType"

    def modifies(self):
        return []

    def raises(self):
        return {IncompleteOp: isNone(self._typ)}

    def ensures(self, result):
        return {"P_sig": sig_is(result, empty_seq(Type), Seq(Type, the(self._typ)))}


@contract("hugr.ops.LoadConst.port_kind", props=["C06"])
class loadconst_port_kind:
    types = {"port": "Union[InPort, OutPort]"}

    def modifies(self, port):
        return []

    def raises(self, port):
        off = port_off(port)
        return {InvalidPort: off != -1 and off != 0, IncompleteOp: off == 0 and isNone(self._typ)}

    def ensures(self, port, result):
        off = port_off(port)
        return {
            "P_order_port": implies(off == -1, cls_is(result, OrderKind)),
            "P_const_in": implies(cls_is(port, InPort) and off == 0, cls_is(result, ConstKind) and same_obj(as_cls(result, ConstKind).ty, the(self._typ))),
            "P_value_out": implies(cls_is(port, OutPort) and off == 0, cls_is(result, ValueKind) and same_obj(as_cls(result, ValueKind).ty, the(self._typ))),
        }


@contract("hugr.val.Value.type_", props=["C14"])
class value_type_interface:
    """Interface contract: the reported type is a function of the value (C14 refines it per class)."""
    interface = True
    trusted = True
    returns = "Type"

    def modifies(self):
        return []

    def raises(self):
        return {}

    def ensures(self, result):
        return {"reported": same_obj(result, ghost("vtype", "Type", self))}


@contract("hugr.ops.Const.port_kind", props=["C06"])
class const_port_kind:
    types = {"port": "Union[InPort, OutPort]"}

    def modifies(self, port):
        return []

    def raises(self, port):
        return {InvalidPort: not (cls_is(port, OutPort) and port_off(port) == 0)}

    def ensures(self, port, result):
        # LoadConstant and Const agree on the constant's type: Const offers val.type_() on its static port
        return {"P_const_out": cls_is(result, ConstKind) and same_obj(as_cls(result, ConstKind).ty, ghost("vtype", "Type", self.val))}


@contract("hugr.ops.FuncDefn.inner_signature", props=["C06"])
class funcdefn_inner:
    returns = "FunctionType"

    def modifies(self):
        return []

    def raises(self):
        return {IncompleteOp: isNone(self._outputs)}

    def ensures(self, result):
        return {"P_sig": sig_is(result, self.inputs, the(self._outputs))}


@contract("hugr.ops.FuncDefn.port_kind", props=["C06"])
class funcdefn_port_kind:
    types = {"port": "Union[InPort, OutPort]"}

    def modifies(self, port):
        return []

    def raises(self, port):
        ok = cls_is(port, OutPort) and port_off(port) == 0
        return {InvalidPort: not ok, IncompleteOp: ok and isNone(self._outputs)}

    def ensures(self, port, result):
        f = as_cls(result, FunctionKind).ty
        return {"P_function_out": cls_is(result, FunctionKind) and eq(f.params, self.params) and sig_is(f.body, self.inputs, the(self._outputs))}


@contract("hugr.ops.FuncDecl.port_kind", props=["C06"])
class funcdecl_port_kind:
    types = {"port": "Union[InPort, OutPort]"}

    def modifies(self, port):
        return []

    def raises(self, port):
        return {InvalidPort: not (cls_is(port, OutPort) and port_off(port) == 0)}

    def ensures(self, port, result):
        return {"P_function_out": cls_is(result, FunctionKind) and same_obj(as_cls(result, FunctionKind).ty, self.signature)}


# ---- every dataflow operation: order port in both directions, value ports typed by the outer signature ----
@contract("hugr.ops.DataflowOp.outer_signature", props=[])
class dataflow_outer_interface:
    interface = True
    trusted = True
    ghost_def = True   # sig_in / sig_out are *defined* as the rows this method reports
    returns = "FunctionType"

    def modifies(self):
        return []

    def raises(self):
        return {}

    def ensures(self, result):
        return {"rows": eq(result.input, ghost("sig_in", "Seq[Type]", self)) and eq(result.output, ghost("sig_out", "Seq[Type]", self))}


@contract("hugr.ops.DataflowOp.port_kind", props=["C06"])
class dataflow_port_kind:
    types = {"port": "Union[InPort, OutPort]"}
    exact_self = False

    def requires(self, port):
        off = port_off(port)
        n = ite(cls_is(port, InPort), len(ghost("sig_in", "Seq[Type]", self)), len(ghost("sig_out", "Seq[Type]", self)))
        return off == -1 or (0 <= off and off < n)

    def modifies(self, port):
        return []

    def raises(self, port):
        return {}

    def ensures(self, port, result):
        off = port_off(port)
        return {
            "P_order_port_both_directions": implies(off == -1, cls_is(result, OrderKind)),
            "P_value_in": implies(cls_is(port, InPort) and off >= 0, cls_is(result, ValueKind) and same_obj(as_cls(result, ValueKind).ty, nth(ghost("sig_in", "Seq[Type]", self), off))),
            "P_value_out": implies(cls_is(port, OutPort) and off >= 0, cls_is(result, ValueKind) and same_obj(as_cls(result, ValueKind).ty, nth(ghost("sig_out", "Seq[Type]", self), off))),
        }


@contract("hugr.ops.DataflowOp.port_type", props=["C06"])
class dataflow_port_type:
    types = {"port": "Union[InPort, OutPort]"}
    exact_self = False
    returns = "Type"

    def requires(self, port):
        off = port_off(port)
        n = ite(cls_is(port, InPort), len(ghost("sig_in", "Seq[Type]", self)), len(ghost("sig_out", "Seq[Type]", self)))
        return 0 <= off and off < n

    def modifies(self, port):
        return []

    def raises(self, port):
        return {}

    def ensures(self, port, result):
        off = port_off(port)
        # the type reported for a value port equals the payload of that port's kind
        return {"P_in": implies(cls_is(port, InPort), same_obj(result, nth(ghost("sig_in", "Seq[Type]", self), off))),
                "P_out": implies(cls_is(port, OutPort), same_obj(result, nth(ghost("sig_out", "Seq[Type]", self), off)))}


# ---- MakeTuple / UnpackTuple are inverse ------------------------------------------------------------------
@contract("hugr.tys.FunctionType.flip", props=["C06"])
class functiontype_flip:
    returns = "FunctionType"

    def modifies(self):
        return []

    def raises(self):
        return {}

    def ensures(self, result):
        return {"P_swapped": sig_is(result, self.output, self.input)}


@contract("hugr.tys.FunctionType.with_runtime_reqs", props=[])
class functiontype_with_runtime_reqs:
    returns = "FunctionType"

    def modifies(self, runtime_reqs):
        return []

    def raises(self, runtime_reqs):
        return {}

    def ensures(self, runtime_reqs, result):
        return {"same_rows": sig_is(result, self.input, self.output),
                "reqs_kept": forall(int, lambda j: implies(0 <= j and j < len(old(self.runtime_reqs)),
                                                           exists(int, lambda k: 0 <= k and k < len(result.runtime_reqs) and nth(result.runtime_reqs, k) == nth(old(self.runtime_reqs), j)))),
                "reqs_added": forall(int, lambda j: implies(0 <= j and j < len(runtime_reqs),
                                                            exists(int, lambda k: 0 <= k and k < len(result.runtime_reqs) and nth(result.runtime_reqs, k) == nth(runtime_reqs, j)))),
                "no_duplicates": forall((int, int), lambda k, k2: implies(0 <= k and k < k2 and k2 < len(result.runtime_reqs), nth(result.runtime_reqs, k) != nth(result.runtime_reqs, k2)))}


@spec
def tuple_of(t, row):
    return cls_is(t, Tuple) and len(as_cls(t, Tuple).variant_rows) == 1 and eq(nth(as_cls(t, Tuple).variant_rows, 0), row)


@contract("hugr.ops.MakeTuple.cached_signature", props=["C06"])
class maketuple_cached_signature:
    returns = "FunctionType"

    def modifies(self):
        return []

    def raises(self):
        return {IncompleteOp: isNone(self._types)}

    def ensures(self, result):
        return {"P_rows": eq(result.input, the(self._types)) and len(result.output) == 1 and tuple_of(nth(result.output, 0), the(self._types))}


@contract("hugr.ops.UnpackTuple.cached_signature", props=["C06"])
class unpacktuple_cached_signature:
    returns = "FunctionType"

    def modifies(self):
        return []

    def raises(self):
        return {IncompleteOp: isNone(self._types)}

    def ensures(self, result):
        return {"P_rows": eq(result.output, the(self._types)) and len(result.input) == 1 and tuple_of(nth(result.input, 0), the(self._types))}


@contract("hugr.ext.ExtensionObject.get_extension", props=[])
class extobj_get_extension:
    exact_self = False
    returns = "Extension"

    def modifies(self):
        return []

    def raises(self):
        return {hugr.ext.NoParentExtension: isNone(self._extension)}

    def ensures(self, result):
        return {"owner": same_obj(result, the(self._extension))}


@contract("hugr.ext.OpDef.instantiate", props=[])
class opdef_instantiate:
    types = {"args": "Opt[Seq[TypeArg]]"}
    returns = "hugr.ops.ExtOp"

    def modifies(self, args, concrete_signature):
        return []

    def raises(self, args, concrete_signature):
        return {hugr.ext.NoParentExtension: notNone(concrete_signature) and isNone(self._extension)}

    def ensures(self, args, concrete_signature, result):
        return {"op_def": same_obj(result._op_def, self),
                "sig_rows": iff(isNone(concrete_signature), isNone(result.signature))
                and implies(notNone(concrete_signature), sig_is(the(result.signature), the(concrete_signature).input, the(concrete_signature).output)),
                "args": implies(notNone(args) and len(the(args)) > 0, eq(result.args, the(args)))
                and implies(isNone(args) or len(the(args)) == 0, len(result.args) == 0)}


@contract("hugr.ops.ExtOp.outer_signature", props=["C06"])
class extop_outer:
    returns = "FunctionType"

    def modifies(self):
        return []

    def raises(self):
        return {ValueError: isNone(self.signature) and isNone(self._op_def.signature.poly_func)}

    def ensures(self, result):
        # Custom / ExtOp: the cached signature, else the definition's
        return {"P_cached": implies(notNone(self.signature), same_obj(result, the(self.signature))),
                "P_definition": implies(isNone(self.signature), same_obj(result, the(self._op_def.signature.poly_func).body))}


@contract("hugr.ops.Custom.outer_signature", props=["C06"])
class custom_outer:
    returns = "FunctionType"

    def modifies(self):
        return []

    def raises(self):
        return {}

    def ensures(self, result):
        return {"P_cached": same_obj(result, self.signature)}


@contract("hugr.ops.MakeTuple.outer_signature", props=["C06"])
class maketuple_outer:
    """AsExtOp.outer_signature, executed for a MakeTuple receiver (ext_op -> instantiate -> cached signature)."""
    returns = "FunctionType"

    def requires(self):
        p = ghost("std_ext", "Extension", "prelude")
        return has(p.operations, "MakeTuple") and notNone(get(p.operations, "MakeTuple")._extension)

    def modifies(self):
        return []

    def raises(self):
        return {IncompleteOp: isNone(self._types)}

    def ensures(self, result):
        return {"P_in": eq(result.input, the(self._types)), "P_out_len": len(result.output) == 1,
                "P_out_tuple": tuple_of(nth(result.output, 0), the(self._types))}


@contract("hugr.ops.UnpackTuple.outer_signature", props=["C06"])
class unpacktuple_outer:
    returns = "FunctionType"

    def requires(self):
        p = ghost("std_ext", "Extension", "prelude")
        return has(p.operations, "MakeTuple") and notNone(get(p.operations, "MakeTuple")._extension)

    def modifies(self):
        return []

    def raises(self):
        return {IncompleteOp: isNone(self._types)}

    def ensures(self, result):
        # input and output rows of one are the output and input rows of the other
        return {"P_inverse_rows": eq(result.output, the(self._types)) and len(result.input) == 1 and tuple_of(nth(result.input, 0), the(self._types))}


@contract("hugr.ops.UnpackTuple.num_out", props=["C06"])
class unpacktuple_num_out:
    def modifies(self):
        return []

    def raises(self):
        return {IncompleteOp: isNone(self._types)}

    def ensures(self, result):
        return {"P_count": result == len(the(self._types))}
