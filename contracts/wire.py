"""Contracts for the wiring step of the dataflow builders (property C01, rule "a state-order edge
accompanies every value edge that enters a nested region"): _ancestral_sibling finds the ancestor of
the target that is a sibling of the source; _wire_up_port adds the value link and - exactly when that
ancestor is not the target itself - the state-order edge from the source's node to that ancestor.

Graph-store mutators are TRUSTED call recorders here (ghost traces); what they do to the store is
proved in C04.
"""
from pyvc.dsl import *  # noqa: F401,F403

class_aliases = {
    "Node": "hugr.hugr.node_port.Node", "OutPort": "hugr.hugr.node_port.OutPort", "InPort": "hugr.hugr.node_port.InPort", "Hugr": "hugr.hugr.base.Hugr",
    "Type": "hugr.tys.Type", "NodeData": "hugr.hugr.base.NodeData",
}
extra_fields = {
    "hugr.hugr.base.Hugr._tl_src": "Seq[OutPort]", "hugr.hugr.base.Hugr._tl_dst": "Seq[InPort]",
    "hugr.build.dfg.DfBase._to_src": "Seq[Node]", "hugr.build.dfg.DfBase._to_dst": "Seq[Node]",
}


@spec
def par(h, n):
    """parent of a live node"""
    return the(nth(h._nodes, n.idx)).parent


@spec
def live(h, n):
    return 0 <= n.idx and n.idx < len(h._nodes) and notNone(nth(h._nodes, n.idx))


@spec
def anc_or_self(h, a, b):
    """a is b or an ancestor of b (ghost relation: reflexive, closed under taking the parent)"""
    return ghost("anc_or_self", "bool", h._nodes, a.idx, b.idx)


@spec
def parents_live(h):
    return forall(int, lambda i: implies(0 <= i and i < len(h._nodes) and notNone(nth(h._nodes, i)) and notNone(the(nth(h._nodes, i)).parent),
                                         live(h, the(the(nth(h._nodes, i)).parent))))


@contract("hugr.build.dfg._ancestral_sibling", props=["C01"])
class ancestral_sibling:
    types = {"src": "Node", "tgt": "Node"}
    returns = "Opt[Node]"

    def requires(h, src, tgt):
        return live(h, src) and live(h, tgt) and parents_live(h)

    def modifies(h, src, tgt):
        return []

    def raises(h, src, tgt):
        return {}

    def loop_1(h, src, tgt, src_parent):
        t0 = old(tgt)
        return {"A_reflexive": anc_or_self(h, t0, t0),
                "A_parent_step": implies(notNone(par(h, tgt)) and anc_or_self(h, tgt, t0), anc_or_self(h, the(par(h, tgt)), t0)),
                "cursor_is_an_ancestor": live(h, tgt) and anc_or_self(h, tgt, t0),
                "src_parent": eq(src_parent, par(h, src))}

    def ensures(h, src, tgt, result):
        return {
            "P_sibling_of_the_source": implies(notNone(result), live(h, the(result)) and notNone(par(h, the(result))) and notNone(par(h, src))
                                               and the(par(h, the(result))).idx == the(par(h, src)).idx),
            "P_ancestor_or_self_of_the_target": implies(notNone(result), anc_or_self(h, the(result), tgt)),
            # ghost definition: the result is named anc_sib(nodes, source index, target) (the function is deterministic)
            "A_names_result": eq(result, ghost("anc_sib", "Opt[Node]", h._nodes, src.idx, tgt)),
        }


# ---- trusted recorders -------------------------------------------------------------------------------
@contract("hugr.hugr.base.Hugr.add_link", props=[])
class add_link_rec:
    trusted = True

    def modifies(self, src, dst):
        return [self._tl_src, self._tl_dst, self._links.fwd, self._links.bck, "hugr.hugr.base.NodeData._num_outs", "hugr.hugr.base.NodeData._num_inps"]

    def raises(self, src, dst):
        return {}

    def ensures(self, src, dst, result):
        return {"src": eq(self._tl_src, concat(old(self._tl_src), Seq(OutPort, src))), "dst": eq(self._tl_dst, concat(old(self._tl_dst), Seq(InPort, dst)))}


@contract("hugr.build.dfg.DfBase.add_state_order", props=[])
class add_state_order_rec:
    trusted = True
    exact_self = False
    types = {"src": "Node", "dst": "Node"}

    def modifies(self, src, dst):
        return [self._to_src, self._to_dst, self.hugr._links.fwd, self.hugr._links.bck]

    def raises(self, src, dst):
        return {}

    def ensures(self, src, dst, result):
        return {"src": eq(self._to_src, concat(old(self._to_src), Seq(Node, src))), "dst": eq(self._to_dst, concat(old(self._to_dst), Seq(Node, dst)))}


@contract("hugr.build.dfg.DfBase._get_dataflow_type", props=[])
class get_dataflow_type:
    trusted = True
    exact_self = False
    types = {"wire": "Union[Node, OutPort]"}
    returns = "Type"
    may_raise = ["ValueError"]

    def modifies(self, wire):
        return []

    def raises(self, wire):
        return {}

    def ensures(self, wire, result):
        return {}


@contract("hugr.build.dfg.DfBase._wire_up_port", props=["C01"])
class wire_up_port:
    types = {"node": "Node", "p": "Union[Node, OutPort]"}
    exact_self = True
    self_class = "hugr.build.dfg.Dfg"
    returns = "Type"
    may_raise = ["ValueError"]

    def requires(self, node, offset, p):
        src = ite(cls_is(p, OutPort), as_cls(p, OutPort), OutPort(as_cls(p, Node), 0))
        return live(self.hugr, src.node) and live(self.hugr, node) and parents_live(self.hugr) and len(self.hugr._tl_src) == len(self.hugr._tl_dst) and len(self._to_src) == len(self._to_dst)

    def modifies(self, node, offset, p):
        return [self.hugr._tl_src, self.hugr._tl_dst, self._to_src, self._to_dst, self.hugr._links.fwd, self.hugr._links.bck, "hugr.hugr.base.NodeData._num_outs", "hugr.hugr.base.NodeData._num_inps"]

    def raises(self, node, offset, p):
        src = ite(cls_is(p, OutPort), as_cls(p, OutPort), OutPort(as_cls(p, Node), 0))
        return {hugr.exceptions.NoSiblingAncestor: isNone(ghost("anc_sib", "Opt[Node]", self.hugr._nodes, src.node.idx, node))}

    def ensures(self, node, offset, p, result):
        src = ite(cls_is(p, OutPort), as_cls(p, OutPort), OutPort(as_cls(p, Node), 0))
        a = the(ghost("anc_sib", "Opt[Node]", old(self.hugr._nodes), src.node.idx, node))
        n_l = len(self.hugr._tl_src)
        n_o = len(self._to_src)
        return {
            "P_value_link_added": n_l == len(old(self.hugr._tl_src)) + 1 and eq(nth(self.hugr._tl_src, n_l - 1), src) and eq(nth(self.hugr._tl_dst, n_l - 1), InPort(node, offset)),
            # entering a nested region: the order edge goes from the source's node to the target's ancestor that is the source's sibling
            "P_order_edge_when_entering_a_nested_region": implies(a.idx != node.idx, n_o == len(old(self._to_src)) + 1 and eq(nth(self._to_src, n_o - 1), src.node) and eq(nth(self._to_dst, n_o - 1), a)),
            "P_no_order_edge_for_a_local_wire": implies(a.idx == node.idx, n_o == len(old(self._to_src))),
        }
