"""Contracts for hugr/ext.py (property C10): definitions held by an extension report it as their
owner and name it among their signature's runtime requirements; adding a definition keeps every
other definition; bounds and type definitions survive encoding and decoding.
"""
from pyvc.dsl import *  # noqa: F401,F403

class_aliases = {
    "Extension": "hugr.ext.Extension", "OpDef": "hugr.ext.OpDef", "TypeDef": "hugr.ext.TypeDef", "ExtensionValue": "hugr.ext.ExtensionValue",
    "OpDefSig": "hugr.ext.OpDefSig", "PolyFuncType": "hugr.tys.PolyFuncType", "FunctionType": "hugr.tys.FunctionType",
    "ExplicitBound": "hugr.ext.ExplicitBound", "FromParamsBound": "hugr.ext.FromParamsBound",
}


@spec
def names(reqs, name):
    return exists(int, lambda k: 0 <= k and k < len(reqs) and nth(reqs, k) == name)


@contract("hugr.tys.PolyFuncType.with_runtime_reqs", props=["C10"])
class poly_with_runtime_reqs:
    returns = "PolyFuncType"

    def modifies(self, runtime_reqs):
        return []

    def raises(self, runtime_reqs):
        return {}

    def ensures(self, runtime_reqs, result):
        return {"params_kept": eq(result.params, self.params),
                "rows_kept": eq(result.body.input, self.body.input) and eq(result.body.output, self.body.output),
                "P_reqs_added": forall(int, lambda j: implies(0 <= j and j < len(runtime_reqs), names(result.body.runtime_reqs, nth(runtime_reqs, j)))),
                "P_reqs_kept": forall(int, lambda j: implies(0 <= j and j < len(self.body.runtime_reqs), names(result.body.runtime_reqs, nth(self.body.runtime_reqs, j))))}


@contract("hugr.ext.Extension.add_op_def", props=["C10"])
class add_op_def:
    def modifies(self, op_def):
        return [op_def._extension, op_def.signature.poly_func, self.operations]

    def raises(self, op_def):
        return {}

    def ensures(self, op_def, result):
        p0 = old(op_def.signature.poly_func)
        p1 = op_def.signature.poly_func
        return {
            "P_reports_owner": notNone(op_def._extension) and same_obj(the(op_def._extension), self),
            "P_held_under_its_name": has(self.operations, op_def.name) and same_obj(get(self.operations, op_def.name), op_def) and same_obj(result, op_def),
            "P_names_the_extension": implies(notNone(p0), notNone(p1) and names(the(p1).body.runtime_reqs, self.name)),
            "P_signature_kept": iff(isNone(p0), isNone(p1)) and implies(notNone(p0), eq(the(p1).params, the(p0).params) and eq(the(p1).body.input, the(p0).body.input)
                                                                              and eq(the(p1).body.output, the(p0).body.output)),
            "P_other_definitions_kept": forall(str, lambda n: implies(n != op_def.name, has(self.operations, n) == old(has(self.operations, n))
                                                                       and implies(has(self.operations, n), same_obj(get(self.operations, n), old(get(self.operations, n)))))),
        }


@contract("hugr.ext.Extension.add_type_def", props=["C10"])
class add_type_def:
    def modifies(self, type_def):
        return [type_def._extension, self.types]

    def raises(self, type_def):
        return {}

    def ensures(self, type_def, result):
        return {
            "P_reports_owner": notNone(type_def._extension) and same_obj(the(type_def._extension), self),
            "P_held_under_its_name": has(self.types, type_def.name) and same_obj(get(self.types, type_def.name), type_def) and same_obj(result, type_def),
            "P_other_definitions_kept": forall(str, lambda n: implies(n != type_def.name, has(self.types, n) == old(has(self.types, n))
                                                                       and implies(has(self.types, n), same_obj(get(self.types, n), old(get(self.types, n)))))),
        }


@contract("hugr.ext.Extension.add_extension_value", props=["C10"])
class add_extension_value:
    def modifies(self, extension_value):
        return [extension_value._extension, self.values]

    def raises(self, extension_value):
        return {}

    def ensures(self, extension_value, result):
        return {
            "P_reports_owner": notNone(extension_value._extension) and same_obj(the(extension_value._extension), self),
            "P_held_under_its_name": has(self.values, extension_value.name) and same_obj(get(self.values, extension_value.name), extension_value) and same_obj(result, extension_value),
            "P_other_definitions_kept": forall(str, lambda n: implies(n != extension_value.name, has(self.values, n) == old(has(self.values, n))
                                                                       and implies(has(self.values, n), same_obj(get(self.values, n), old(get(self.values, n)))))),
        }


# ---- encode / decode of the small definition classes (same style as contracts/codec.py) ----------
@code_lemma
def rt_ExplicitBound(x: "Exact[hugr.ext.ExplicitBound]"):
    y = x._to_serial().deserialize()
    return {"P_class": cls_is(y, ExplicitBound), "P_bound": as_cls(y, ExplicitBound).bound == x.bound}


@code_lemma
def rt_FromParamsBound(x: "Exact[hugr.ext.FromParamsBound]"):
    y = x._to_serial().deserialize()
    return {"P_class": cls_is(y, FromParamsBound), "P_indices": eq(as_cls(y, FromParamsBound).indices, x.indices)}
