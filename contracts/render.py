"""Contracts for hugr/hugr/render.py (property C20): the number of port cells of a node is the number
of ports its operation has (at least the connected ones), and edge endpoints name the node index and
the port offset."""
from pyvc.dsl import *  # noqa: F401,F403

class_aliases = {
    "Call": "hugr.ops.Call", "LoadConst": "hugr.ops.LoadConst", "LoadFunc": "hugr.ops.LoadFunc", "DataflowOp": "hugr.ops.DataflowOp", "Op": "hugr.ops.Op",
    "Const": "hugr.ops.Const", "FuncDefn": "hugr.ops.FuncDefn", "FuncDecl": "hugr.ops.FuncDecl", "DataflowBlock": "hugr.ops.DataflowBlock", "ExitBlock": "hugr.ops.ExitBlock",
    "Direction": "hugr.hugr.node_port.Direction", "Hugr": "hugr.hugr.base.Hugr", "Node": "hugr.hugr.node_port.Node",
    "InPort": "hugr.hugr.node_port.InPort", "OutPort": "hugr.hugr.node_port.OutPort",
}


@spec
def ports_of(op, incoming):
    """ports the operation has in one direction (value ports + static input; one function / constant
    output for FuncDefn / FuncDecl / Const; control ports of basic blocks)"""
    return ite(has_order_port(op), ite(incoming, n_value(op, True) + n_static_in(op), n_value(op, False)),
               ite(cls_is(op, Const) or cls_is(op, FuncDefn) or cls_is(op, FuncDecl), ite(incoming, 0, 1),
                   ite(cls_is(op, ExitBlock), ite(incoming, 1, 0),
                       ite(cls_is(op, DataflowBlock), ite(incoming, 1, ghost("n_successors", "int", op)), 0))))


@contract("hugr.hugr.render.DotRenderer._num_cells", props=["C20"])
class num_cells:
    types = {"op": "Op", "node": "Node"}

    def requires(hugr, node, op, direction):
        return node.idx >= 0 and 0 <= node.idx and node.idx < len(hugr._nodes) and notNone(nth(hugr._nodes, node.idx)) and not cls_is(op, DataflowBlock)

    def modifies(hugr, node, op, direction):
        return []

    def raises(hugr, node, op, direction):
        return {}

    def ensures(hugr, node, op, direction, result):
        inc = direction == Direction.INCOMING
        connected = ite(inc, the(nth(hugr._nodes, node.idx))._num_inps, the(nth(hugr._nodes, node.idx))._num_outs)
        return {"P_one_cell_per_port_of_the_operation": result >= ports_of(op, inc),
                "P_and_per_connected_port": result >= connected,
                "P_no_more": result == ports_of(op, inc) or result == connected}


@contract("hugr.hugr.base._order_port_offset", props=[])
class order_port_offset_complete_ops:
    """ASSUMED form for C20's domain ("HUGRs with complete operations"): the contract proved in C03
    (contracts/serial.py) minus its may-raise clause for incomplete operations."""
    trusted = True
    types = {"op": "Op"}

    def modifies(op, direction):
        return []

    def raises(op, direction):
        return {}

    def ensures(op, direction, result):
        inc = direction == Direction.INCOMING
        return {
            "after_value_and_static_inputs": implies(has_order_port(op) and inc, notNone(result) and the(result) == n_value(op, True) + n_static_in(op)),
            "after_value_outputs": implies(has_order_port(op) and not inc, notNone(result) and the(result) == n_value(op, False)),
            "no_order_port_otherwise": implies(not has_order_port(op), isNone(result)),
        }


@contract("hugr.hugr.render.DotRenderer._out_port_name", props=["C20"])
class out_port_name:
    def modifies(self, p):
        return []

    def raises(self, p):
        return {}

    def ensures(self, p, result):
        return {"P_names_node_index_and_offset": result == str(p.node.idx) + ":out." + str(p.offset)}


@contract("hugr.hugr.render.DotRenderer._in_port_name", props=["C20"])
class in_port_name:
    def modifies(self, p):
        return []

    def raises(self, p):
        return {}

    def ensures(self, p, result):
        return {"P_names_node_index_and_offset": result == str(p.node.idx) + ":in." + str(p.offset)}
