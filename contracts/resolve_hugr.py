"""Contract for Hugr.resolve_extensions (property C11, HUGR level): every node holding an opaque
(Custom) operation gets exactly the result of resolving that operation, every other node keeps its
operation object, and nothing else in the graph changes.  Loaded together with contracts/base.py
(graph-store view, iteration contract) and contracts/resolve.py."""
from pyvc.dsl import *  # noqa: F401,F403

class_aliases = {"Custom": "hugr.ops.Custom", "Hugr": "hugr.hugr.base.Hugr", "Op": "hugr.ops.Op", "Registry": "hugr.ext.ExtensionRegistry"}


@spec
def res_op(op, r):
    """the result of Custom.resolve on op against r (ghost definition attached to Custom.resolve's contract)"""
    return ghost("res_op", "Op", op, r)


@spec
def resolved_op(op, r):
    return ite(cls_is(op, Custom), res_op(op, r), op)


@contract("hugr.hugr.base.Hugr.resolve_extensions", props=["C11"])
class resolve_extensions:
    def requires(self, registry):
        return nodes_wf(self)

    def modifies(self, registry):
        return ["hugr.hugr.base.NodeData.op"]

    def raises(self, registry):
        return {}

    def loop_1(self, registry, _i1, _seq1):
        return {
            "same_nodes": eq(self._nodes, old(self._nodes)),
            "processed": forall(int, lambda j: implies(0 <= j and j < _i1, same_obj(data(self, nth(_seq1, j).idx).op, resolved_op(old(data(self, nth(_seq1, j).idx).op), registry)))),
            "pending": forall(int, lambda j: implies(_i1 <= j and j < len(_seq1), same_obj(data(self, nth(_seq1, j).idx).op, old(data(self, nth(_seq1, j).idx).op)))),
        }

    def ensures(self, registry, result):
        return {
            "P_returns_the_graph": same_obj(result, self),
            "P_every_node_resolved_or_untouched": forall(int, lambda i: implies(live(self, i), same_obj(data(self, i).op, resolved_op(old(data(self, i).op), registry)))),
            "P_same_nodes": eq(self._nodes, old(self._nodes)),
        }
