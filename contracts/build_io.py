"""Contracts for the creation of a dataflow container by the builders (property C01, the clause "Input / Output
children in the mandated positions with rows equal to their container's signature"): DfBase._init_io_nodes and
DfBase.new_nested.

Hugr.add_node is a TRUSTED recorder here (ghost call trace: operation, parent, output count and the handle
returned, one entry per call); that add_node appends the new node to its parent's children in call order, and
what the store then reports, is proved in C04 (contracts/base.py).  The composition of the two layers is an
argument on paper, as for C08 / C15.
"""
from pyvc.dsl import *  # noqa: F401,F403

class_aliases = {
    "Node": "hugr.hugr.node_port.Node", "Hugr": "hugr.hugr.base.Hugr", "Op": "hugr.ops.Op", "Input": "hugr.ops.Input", "Output": "hugr.ops.Output",
    "DfParentOp": "hugr.ops.DfParentOp", "Type": "hugr.tys.Type", "OutPort": "hugr.hugr.node_port.OutPort", "DfBase": "hugr.build.dfg.DfBase",
    "DataflowBlock": "hugr.ops.DataflowBlock", "ExitBlock": "hugr.ops.ExitBlock", "CFG_": "hugr.ops.CFG", "Conditional_": "hugr.ops.Conditional",
}
extra_fields = {
    "hugr.hugr.base.Hugr._tn_op": "Seq[Op]",
    "hugr.hugr.base.Hugr._tn_parent": "Seq[Opt[Node]]",
    "hugr.hugr.base.Hugr._tn_outs": "Seq[Opt[int]]",
    "hugr.hugr.base.Hugr._tn_node": "Seq[Node]",
    # ghost call trace of DfBase._wire_up
    "hugr.build.dfg.DfBase._tw_node": "Seq[Node]",
    "hugr.build.dfg.DfBase._tw_wires": "Seq[Seq[Union[Node, OutPort]]]",
    # ghost: the output row a container operation was last given through _set_out_types
    "hugr.ops.DfParentOp._g_out_row": "Opt[Seq[Type]]",
    # ghost: changes whenever an operation may have been (re-)typed - _wire_up types partial operations - so that
    # "the count the operation reports" is the one it reports *after* the wiring
    "hugr.ops.DataflowOp._g_epoch": "int",
}


@spec
def inputs_of(op):
    """ghost: the input row of a dataflow container operation (DfParentOp._inputs; its value per class is C06)"""
    return ghost("container_inputs", "Seq[Type]", op)


@contract("hugr.ops.DfParentOp._inputs", props=[])
class df_parent_inputs:
    interface = True
    ghost_def = True
    returns = "Seq[Type]"

    def modifies(self):
        return []

    def raises(self):
        return {}

    def ensures(self, result):
        return {"A_named": eq(result, inputs_of(self))}


@contract("hugr.hugr.base.Hugr.add_node", props=[])
class add_node_recorder:
    """TRUSTED recorder of the call."""
    trusted = True
    types = {"op": "Op", "parent": "Opt[Node]", "num_outs": "Opt[int]", "metadata": "Opt[Dict[str, Any]]"}
    returns = "Node"

    def modifies(self, op, parent, num_outs, metadata):
        return [self._tn_op, self._tn_parent, self._tn_outs, self._tn_node, self._nodes, self._free_nodes]

    def raises(self, op, parent, num_outs, metadata):
        return {}

    def ensures(self, op, parent, num_outs, metadata, result):
        return {"t_op": eq(self._tn_op, concat(old(self._tn_op), Seq(Op, op))),
                "t_parent": eq(self._tn_parent, concat(old(self._tn_parent), Seq("Opt[Node]", parent))),
                "t_outs": eq(self._tn_outs, concat(old(self._tn_outs), Seq("Opt[int]", num_outs))),
                "t_node": eq(self._tn_node, concat(old(self._tn_node), Seq(Node, result)))}


@spec
def aligned(h):
    return len(h._tn_op) == len(h._tn_parent) and len(h._tn_op) == len(h._tn_outs) and len(h._tn_op) == len(h._tn_node)


@spec
def io_pair(self, h, k, container_op, under):
    """calls k and k+1 of the trace create the Input (row = the container's input row, with its count) and the Output
    of a container, in this order, both under node `under`; the builder's handles are the ones returned"""
    return (cls_is(nth(h._tn_op, k), Input) and eq(as_cls(nth(h._tn_op, k), Input).types, inputs_of(container_op))
            and notNone(nth(h._tn_parent, k)) and the(nth(h._tn_parent, k)).idx == under.idx
            and notNone(nth(h._tn_outs, k)) and the(nth(h._tn_outs, k)) == len(inputs_of(container_op))
            and cls_is(nth(h._tn_op, k + 1), Output)
            and notNone(nth(h._tn_parent, k + 1)) and the(nth(h._tn_parent, k + 1)).idx == under.idx
            and isNone(nth(h._tn_outs, k + 1))
            and eq(self.input_node, nth(h._tn_node, k)) and eq(self.output_node, nth(h._tn_node, k + 1)))


@contract("hugr.build.dfg.DfBase._init_io_nodes", props=["C01"])
class init_io_nodes:
    types = {"parent_op": "DfParentOp"}
    exact_self = False

    def requires(self, parent_op):
        return aligned(self.hugr)

    def modifies(self, parent_op):
        return [self.input_node, self.output_node, self.hugr._tn_op, self.hugr._tn_parent, self.hugr._tn_outs, self.hugr._tn_node, self.hugr._nodes, self.hugr._free_nodes]

    def raises(self, parent_op):
        return {}

    def ensures(self, parent_op, result):
        h = self.hugr
        n0 = len(old(self.hugr._tn_op))
        return {"P_exactly_two_children_created": len(h._tn_op) == n0 + 2 and aligned(h),
                "P_input_then_output_under_the_container": io_pair(self, h, n0, parent_op, self.parent_node),
                "P_earlier_calls_kept": forall(int, lambda j: implies(0 <= j and j < n0, same_obj(nth(h._tn_op, j), nth(old(self.hugr._tn_op), j))
                                                                      and eq(nth(h._tn_node, j), nth(old(self.hugr._tn_node), j))
                                                                      and eq(nth(h._tn_parent, j), nth(old(self.hugr._tn_parent), j))
                                                                      and eq(nth(h._tn_outs, j), nth(old(self.hugr._tn_outs), j))))}


# ---- DfBase.set_outputs: the container's output row is the row of its Output node ----------------------


@contract("hugr.build.dfg.DfBase._wire_up", props=[])
class wire_up_recorder:
    """TRUSTED recorder: which node was wired to which wires, in which order (what wiring does: _wire_up_port, C01 / C04)."""
    trusted = True
    exact_self = False
    types = {"node": "Node", "ports": "Seq[Union[Node, OutPort]]"}
    returns = "Seq[Type]"

    def modifies(self, node, ports):
        return [self._tw_node, self._tw_wires, self.hugr._nodes, self.hugr._links.fwd, self.hugr._links.bck, "hugr.ops.Output._types", "hugr.ops.DataflowOp._g_epoch"]

    def raises(self, node, ports):
        return {}

    def ensures(self, node, ports, result):
        return {"trace_node": eq(self._tw_node, concat(old(self._tw_node), Seq(Node, node))),
                "trace_wires": eq(self._tw_wires, concat(old(self._tw_wires), Seq("Seq[Union[Node, OutPort]]", ports)))}


@contract("hugr.build.dfg.DfBase._output_op", props=[])
class output_op_accessor:
    """TRUSTED accessor (read through the graph store): the operation object of the Output node."""
    trusted = True
    exact_self = False
    returns = "Output"

    def modifies(self):
        return []

    def raises(self):
        return {}

    def ensures(self, result):
        return {"named": same_obj(result, ghost("output_op_of", "Output", self.hugr, self.output_node.idx))}


@contract("hugr.build.dfg.DfBase.parent_op", props=[])
class parent_op_accessor:
    """TRUSTED accessor: the operation object of the container node (assumed stable, see contracts/refuse.py)."""
    trusted = True
    exact_self = False
    returns = "DfParentOp"

    def modifies(self):
        return []

    def raises(self):
        return {}

    def ensures(self, result):
        return {"named": same_obj(result, ghost("container_op_of", "DfParentOp", self.hugr, self.parent_node.idx))}


@contract("hugr.ops.DfParentOp._set_out_types", props=[])
class set_out_types:
    """Interface: records the row in the ghost field (each implementation stores it in its own output-row field: C06)."""
    interface = True
    trusted = True
    types = {"types": "Seq[Type]"}

    def modifies(self, types):
        return [self._g_out_row]

    def raises(self, types):
        return {}

    def ensures(self, types, result):
        return {"recorded": notNone(self._g_out_row) and eq(the(self._g_out_row), types)}


@contract("hugr.ops.Output.types", props=[])
class output_types:
    """TRUSTED property: the row of an Output operation (raises IncompleteOp while unset: C13), named by a ghost of the object."""
    trusted = True
    returns = "Seq[Type]"
    may_raise = ["hugr.ops.IncompleteOp"]

    def modifies(self):
        return []

    def raises(self):
        return {}

    def ensures(self, result):
        return {"A_named": eq(result, ghost("row_of_output", "Seq[Type]", self, self._types))}


@contract("hugr.build.dfg.DfBase.set_outputs", props=["C01"])
class set_outputs:
    types = {"args": "Seq[Union[Node, OutPort]]"}
    exact_self = False
    may_raise = ["hugr.ops.IncompleteOp"]

    def requires(self, args):
        return len(self._tw_node) == len(self._tw_wires)

    def modifies(self, args):
        return [self._tw_node, self._tw_wires, self.hugr._nodes, self.hugr._links.fwd, self.hugr._links.bck, "hugr.ops.Output._types", "hugr.ops.DfParentOp._g_out_row", "hugr.ops.DataflowOp._g_epoch"]

    def raises(self, args):
        return {}

    def ensures(self, args, result):
        n = len(self._tw_node)
        oo = ghost("output_op_of", "Output", self.hugr, self.output_node.idx)
        po = ghost("container_op_of", "DfParentOp", self.hugr, self.parent_node.idx)
        return {"P_the_wires_go_to_the_output_node_in_order": n == len(old(self._tw_node)) + 1 and len(self._tw_wires) == n
                and eq(nth(self._tw_node, n - 1), self.output_node) and eq(nth(self._tw_wires, n - 1), args),
                "P_container_row_is_the_output_nodes_row": notNone(po._g_out_row) and eq(the(po._g_out_row), ghost("row_of_output", "Seq[Type]", oo, oo._types))}


# ---- DfBase.add_op: one node, wired to the given wires, and a handle that knows the operation's output count ----
@spec
def outs_of(op):
    """ghost: the number of outputs an operation reports (DataflowOp.num_out; its value per class is C06)"""
    return ghost("num_out_of", "int", op, op._g_epoch)


@contract("hugr.ops.DataflowOp.num_out", props=[])
class dataflow_num_out:
    interface = True
    ghost_def = True
    returns = "int"

    def modifies(self):
        return []

    def raises(self):
        return {}

    def ensures(self, result):
        return {"A_named": result == outs_of(self)}


@contract("hugr.build.dfg.DfBase.add_op", props=["C01", "C16"])
class add_op:
    types = {"op": "hugr.ops.DataflowOp", "args": "Seq[Union[Node, OutPort]]", "metadata": "Opt[Dict[str, Any]]"}
    exact_self = False
    returns = "Node"

    def requires(self, op, args, metadata):
        return aligned(self.hugr) and len(self._tw_node) == len(self._tw_wires)

    def modifies(self, op, args, metadata):
        return [self.hugr._tn_op, self.hugr._tn_parent, self.hugr._tn_outs, self.hugr._tn_node, self.hugr._nodes, self.hugr._free_nodes,
                self._tw_node, self._tw_wires, self.hugr._links.fwd, self.hugr._links.bck, "hugr.ops.Output._types", "hugr.ops.DataflowOp._g_epoch"]

    def raises(self, op, args, metadata):
        return {}

    def ensures(self, op, args, metadata, result):
        h = self.hugr
        n = len(h._tn_op)
        w = len(self._tw_node)
        return {"P_one_node_with_that_operation_under_the_container": n == len(old(self.hugr._tn_op)) + 1 and aligned(h) and same_obj(nth(h._tn_op, n - 1), op)
                and notNone(nth(h._tn_parent, n - 1)) and the(nth(h._tn_parent, n - 1)).idx == self.parent_node.idx,
                "P_wired_to_the_given_wires_in_order": w == len(old(self._tw_node)) + 1 and len(self._tw_wires) == w
                and nth(self._tw_node, w - 1).idx == nth(h._tn_node, n - 1).idx and eq(nth(self._tw_wires, w - 1), args),
                "P_handle_is_the_new_node": result.idx == nth(h._tn_node, n - 1).idx,
                "P_handle_knows_the_output_count": notNone(result._num_out_ports) and the(result._num_out_ports) == outs_of(op)}


@contract("hugr.build.dfg.DfBase.new_nested", props=["C01"])
class new_nested:
    types = {"parent_op": "DfParentOp", "hugr": "Hugr", "parent": "Opt[Node]"}
    returns = "DfBase"
    fresh_result = True          # the builder returned is a new object (obligation here, allocation at call sites)

    def requires(cls, parent_op, hugr, parent):
        return aligned(hugr)

    def modifies(cls, parent_op, hugr, parent):
        return [hugr._tn_op, hugr._tn_parent, hugr._tn_outs, hugr._tn_node, hugr._nodes, hugr._free_nodes]

    def raises(cls, parent_op, hugr, parent):
        return {}

    def ensures(cls, parent_op, hugr, parent, result):
        n0 = len(old(hugr._tn_op))
        return {"P_three_nodes": len(hugr._tn_op) == n0 + 3 and aligned(hugr),
                "P_container_first": same_obj(nth(hugr._tn_op, n0), parent_op) and result.parent_node.idx == nth(hugr._tn_node, n0).idx and same_obj(result.hugr, hugr),
                "P_under_the_given_parent_or_the_root": notNone(nth(hugr._tn_parent, n0)) and the(nth(hugr._tn_parent, n0)).idx == ite(isNone(parent), hugr.root, the(parent)).idx,
                "P_then_input_and_output_under_it": io_pair(result, hugr, n0 + 1, parent_op, result.parent_node)}


@spec
def wire_row(b, ws):
    """ghost: the row of types of a list of wires (DfBase._wire_types)"""
    return ghost("row_of_wires", "Seq[Type]", b.hugr, ws)


@contract("hugr.build.dfg.DfBase._wire_types", props=[])
class wire_types_named:
    """TRUSTED: names its result; may refuse a port without a dataflow type."""
    trusted = True
    exact_self = False
    types = {"args": "Seq[Union[Node, OutPort]]"}
    returns = "Seq[Type]"
    may_raise = ["ValueError"]

    def modifies(self, args):
        return []

    def raises(self, args):
        return {}

    def ensures(self, args, result):
        return {"A_named": eq(result, wire_row(self, args))}


@contract("hugr.build.dfg.DfBase.add_nested", props=["C01"])
class add_nested:
    types = {"args": "Seq[Union[Node, OutPort]]"}
    exact_self = False
    returns = "hugr.build.dfg.Dfg"
    may_raise = ["ValueError"]

    def requires(self, args):
        return aligned(self.hugr) and len(self._tw_node) == len(self._tw_wires)

    def modifies(self, args):
        h = self.hugr
        return [h._tn_op, h._tn_parent, h._tn_outs, h._tn_node, h._nodes, h._free_nodes, self._tw_node, self._tw_wires, h._links.fwd, h._links.bck,
                "hugr.ops.Output._types", "hugr.ops.DataflowOp._g_epoch"]

    def raises(self, args):
        return {}

    def ensures(self, args, result):
        h = self.hugr
        n0 = len(old(self.hugr._tn_op))
        w = len(self._tw_node)
        op = nth(h._tn_op, n0)
        return {"P_a_DFG_whose_inputs_are_the_types_of_the_wires": len(h._tn_op) == n0 + 3 and cls_is(op, hugr.ops.DFG) and eq(as_cls(op, hugr.ops.DFG).inputs, wire_row(self, args)),
                "P_under_this_container": notNone(nth(h._tn_parent, n0)) and the(nth(h._tn_parent, n0)).idx == self.parent_node.idx and same_obj(result.hugr, h)
                and result.parent_node.idx == nth(h._tn_node, n0).idx,
                "P_with_its_input_and_output_nodes": io_pair(result, h, n0 + 1, op, result.parent_node),
                "P_the_wires_go_to_the_nested_container_in_order": w == len(old(self._tw_node)) + 1 and len(self._tw_wires) == w
                and nth(self._tw_node, w - 1).idx == result.parent_node.idx and eq(nth(self._tw_wires, w - 1), args)}


@contract("hugr.build.dfg.DfBase.add_tail_loop", props=["C01"])
class add_tail_loop:
    types = {"just_inputs": "Seq[Union[Node, OutPort]]", "rest": "Seq[Union[Node, OutPort]]"}
    exact_self = False
    returns = "hugr.build.cond_loop.TailLoop"
    may_raise = ["ValueError"]

    def requires(self, just_inputs, rest):
        return aligned(self.hugr) and len(self._tw_node) == len(self._tw_wires)

    def modifies(self, just_inputs, rest):
        h = self.hugr
        return [h._tn_op, h._tn_parent, h._tn_outs, h._tn_node, h._nodes, h._free_nodes, self._tw_node, self._tw_wires, h._links.fwd, h._links.bck,
                "hugr.ops.Output._types", "hugr.ops.DataflowOp._g_epoch"]

    def raises(self, just_inputs, rest):
        return {}

    def ensures(self, just_inputs, rest, result):
        h = self.hugr
        n0 = len(old(self.hugr._tn_op))
        w = len(self._tw_node)
        op = nth(h._tn_op, n0)
        return {"P_a_TailLoop_typed_by_the_wires": len(h._tn_op) == n0 + 3 and cls_is(op, hugr.ops.TailLoop)
                and eq(as_cls(op, hugr.ops.TailLoop).just_inputs, wire_row(self, just_inputs)) and eq(as_cls(op, hugr.ops.TailLoop).rest, wire_row(self, rest)),
                "P_under_this_container": notNone(nth(h._tn_parent, n0)) and the(nth(h._tn_parent, n0)).idx == self.parent_node.idx and same_obj(result.hugr, h)
                and result.parent_node.idx == nth(h._tn_node, n0).idx,
                "P_with_its_input_and_output_nodes": io_pair(result, h, n0 + 1, op, result.parent_node),
                "P_just_inputs_then_rest_go_to_the_loop_in_order": w == len(old(self._tw_node)) + 1 and len(self._tw_wires) == w
                and nth(self._tw_node, w - 1).idx == result.parent_node.idx and eq(nth(self._tw_wires, w - 1), concat(just_inputs, rest))}


@contract("hugr.build.cfg.Cfg._init_impl", props=["C01"])
class cfg_init_impl:
    types = {"hugr": "Hugr", "root": "Node", "input_types": "Seq[Type]"}

    def requires(self, hugr, root, input_types):
        return aligned(hugr)

    def modifies(self, hugr, root, input_types):
        return [self.hugr, self.parent_node, self._entry_block, self.exit, hugr._tn_op, hugr._tn_parent, hugr._tn_outs, hugr._tn_node, hugr._nodes, hugr._free_nodes]

    def raises(self, hugr, root, input_types):
        return {}

    def ensures(self, hugr, root, input_types, result):
        n0 = len(old(hugr._tn_op))
        entry = nth(hugr._tn_op, n0)
        return {"P_four_nodes": len(hugr._tn_op) == n0 + 4 and aligned(hugr) and same_obj(self.hugr, hugr) and self.parent_node.idx == root.idx,
                # the entry block is the first child created under the CFG node, with the CFG's input row ...
                "P_entry_block_first": cls_is(entry, DataflowBlock) and eq(as_cls(entry, DataflowBlock).inputs, input_types)
                and notNone(nth(hugr._tn_parent, n0)) and the(nth(hugr._tn_parent, n0)).idx == root.idx
                and self._entry_block.parent_node.idx == nth(hugr._tn_node, n0).idx,
                # ... followed by its own Input and Output ...
                "P_entry_block_has_input_and_output": io_pair(self._entry_block, hugr, n0 + 1, entry, self._entry_block.parent_node),
                # ... and the exit block is created next, under the CFG node
                "P_exit_block_second": cls_is(nth(hugr._tn_op, n0 + 3), ExitBlock) and notNone(nth(hugr._tn_parent, n0 + 3)) and the(nth(hugr._tn_parent, n0 + 3)).idx == root.idx
                and eq(self.exit, nth(hugr._tn_node, n0 + 3)),
                "P_earlier_calls_kept": forall(int, lambda j: implies(0 <= j and j < n0, same_obj(nth(hugr._tn_op, j), nth(old(hugr._tn_op), j))
                                                                      and eq(nth(hugr._tn_node, j), nth(old(hugr._tn_node), j))
                                                                      and eq(nth(hugr._tn_parent, j), nth(old(hugr._tn_parent), j))
                                                                      and eq(nth(hugr._tn_outs, j), nth(old(hugr._tn_outs), j))))}


# ---- Conditional._init_impl: one Case per variant, in order, each with the variant's row followed by the other inputs ----
@spec
def case_row(op, k):
    """ghost: the input row of case k of a Conditional operation (Conditional.nth_inputs: variant k, then the other inputs - C06)"""
    return ghost("case_inputs_of", "Seq[Type]", op, k)


@contract("hugr.ops.Conditional.nth_inputs", props=[])
class conditional_nth_inputs:
    """TRUSTED here (proved in C06): names its result."""
    trusted = True
    types = {"n": "int"}
    returns = "Seq[Type]"

    def modifies(self, n):
        return []

    def raises(self, n):
        return {}

    def ensures(self, n, result):
        return {"A_named": eq(result, case_row(self, n))}


@contract("hugr.build.cond_loop.Conditional.parent_op", props=[])
class conditional_parent_op:
    """TRUSTED accessor: the operation object of the conditional's node (assumed stable)."""
    trusted = True
    returns = "hugr.ops.Conditional"

    def modifies(self):
        return []

    def raises(self):
        return {}

    def ensures(self, result):
        return {"named": same_obj(result, ghost("conditional_op_of", "hugr.ops.Conditional", self.hugr, self.parent_node.idx))}


@contract("hugr.build.cond_loop.Case.new_nested", props=[])
class case_new_nested:
    """DfBase.new_nested (proved above) as inherited by Case: restated with the result typed as a Case builder."""
    trusted = True
    fresh_result = True
    types = {"parent_op": "DfParentOp", "hugr": "Hugr", "parent": "Opt[Node]"}
    returns = "hugr.build.cond_loop.Case"

    def requires(cls, parent_op, hugr, parent):
        return aligned(hugr)

    def modifies(cls, parent_op, hugr, parent):
        return [hugr._tn_op, hugr._tn_parent, hugr._tn_outs, hugr._tn_node, hugr._nodes, hugr._free_nodes]

    def raises(cls, parent_op, hugr, parent):
        return {}

    def ensures(cls, parent_op, hugr, parent, result):
        n0 = len(old(hugr._tn_op))
        return {"three_nodes": len(hugr._tn_op) == n0 + 3 and aligned(hugr),
                "container_first": same_obj(nth(hugr._tn_op, n0), parent_op) and result.parent_node.idx == nth(hugr._tn_node, n0).idx and same_obj(result.hugr, hugr),
                "under_parent": notNone(nth(hugr._tn_parent, n0)) and the(nth(hugr._tn_parent, n0)).idx == ite(isNone(parent), hugr.root, the(parent)).idx,
                "io": io_pair(result, hugr, n0 + 1, parent_op, result.parent_node),
                "earlier_kept": forall(int, lambda j: implies(0 <= j and j < n0, same_obj(nth(hugr._tn_op, j), nth(old(hugr._tn_op), j))
                                                              and eq(nth(hugr._tn_node, j), nth(old(hugr._tn_node), j))
                                                              and eq(nth(hugr._tn_parent, j), nth(old(hugr._tn_parent), j))
                                                              and eq(nth(hugr._tn_outs, j), nth(old(hugr._tn_outs), j)))),
                }


@contract("hugr.build.cfg.Block.new_nested", props=[])
class block_new_nested:
    """DfBase.new_nested (proved above) as inherited by Block: restated with the result typed as a Block builder."""
    trusted = True
    fresh_result = True
    types = {"parent_op": "DfParentOp", "hugr": "Hugr", "parent": "Opt[Node]"}
    returns = "hugr.build.cfg.Block"

    def requires(cls, parent_op, hugr, parent):
        return aligned(hugr)

    def modifies(cls, parent_op, hugr, parent):
        return [hugr._tn_op, hugr._tn_parent, hugr._tn_outs, hugr._tn_node, hugr._nodes, hugr._free_nodes]

    def raises(cls, parent_op, hugr, parent):
        return {}

    def ensures(cls, parent_op, hugr, parent, result):
        n0 = len(old(hugr._tn_op))
        return {"three_nodes": len(hugr._tn_op) == n0 + 3 and aligned(hugr),
                "container_first": same_obj(nth(hugr._tn_op, n0), parent_op) and result.parent_node.idx == nth(hugr._tn_node, n0).idx and same_obj(result.hugr, hugr),
                "under_parent": notNone(nth(hugr._tn_parent, n0)) and the(nth(hugr._tn_parent, n0)).idx == ite(isNone(parent), hugr.root, the(parent)).idx,
                "io": io_pair(result, hugr, n0 + 1, parent_op, result.parent_node),
                "earlier_kept": forall(int, lambda j: implies(0 <= j and j < n0, same_obj(nth(hugr._tn_op, j), nth(old(hugr._tn_op), j))
                                                              and eq(nth(hugr._tn_node, j), nth(old(hugr._tn_node), j))
                                                              and eq(nth(hugr._tn_parent, j), nth(old(hugr._tn_parent), j))
                                                              and eq(nth(hugr._tn_outs, j), nth(old(hugr._tn_outs), j)))),
                }


@spec
def prefix_kept(hg, ops0, nodes0, parents0, outs0, n0):
    """the first n0 entries of the call trace are what they were"""
    return forall(int, lambda j: implies(0 <= j and j < n0, same_obj(nth(hg._tn_op, j), nth(ops0, j)) and eq(nth(hg._tn_node, j), nth(nodes0, j))
                                         and eq(nth(hg._tn_parent, j), nth(parents0, j)) and eq(nth(hg._tn_outs, j), nth(outs0, j))))


@spec
def case_at(self, hg, n0, j, cop, root):
    """calls n0+3j .. n0+3j+2 of the trace create case j: a Case operation with the j-th case row under the conditional's node,
    then its Input and Output; builder j of the table is the one for that node, is marked unbuilt and points back to this conditional"""
    k = n0 + 3 * j
    op = nth(hg._tn_op, k)
    b = nth(self._case_builders, j)[0]
    return (allocated(op) and cls_is(op, hugr.ops.Case) and eq(as_cls(op, hugr.ops.Case).inputs, case_row(cop, j))
            and notNone(nth(hg._tn_parent, k)) and the(nth(hg._tn_parent, k)).idx == root.idx
            and allocated(b) and b.parent_node.idx == nth(hg._tn_node, k).idx and not nth(self._case_builders, j)[1]
            and notNone(b._parent_cond) and same_obj(the(b._parent_cond), self)
            and cls_is(nth(hg._tn_op, k + 1), Input) and cls_is(nth(hg._tn_op, k + 2), Output)
            and notNone(nth(hg._tn_parent, k + 1)) and the(nth(hg._tn_parent, k + 1)).idx == nth(hg._tn_node, k).idx
            and notNone(nth(hg._tn_parent, k + 2)) and the(nth(hg._tn_parent, k + 2)).idx == nth(hg._tn_node, k).idx)


@contract("hugr.build.cond_loop.Conditional._init_impl", props=["C01"])
class conditional_init_impl:
    types = {"hugr": "Hugr", "root": "Node", "n_cases": "int"}

    def requires(self, hugr, root, n_cases):
        return aligned(hugr) and n_cases >= 0

    def modifies(self, hugr, root, n_cases):
        # (the loop head forgets the listed graph fields by name, for every graph: they are named that way here too)
        return [self.hugr, self.parent_node, self._case_builders, "hugr.hugr.base.Hugr._tn_op", "hugr.hugr.base.Hugr._tn_parent", "hugr.hugr.base.Hugr._tn_outs",
                "hugr.hugr.base.Hugr._tn_node", "hugr.hugr.base.Hugr._nodes", "hugr.hugr.base.Hugr._free_nodes", "hugr.build.cond_loop.Case._parent_cond"]

    def raises(self, hugr, root, n_cases):
        return {}

    def loop_1(self, hugr, root, n_cases, _i1):
        n0 = len(old(hugr._tn_op))
        cop = ghost("conditional_op_of", "hugr.ops.Conditional", hugr, root.idx)
        return {"builder": same_obj(self.hugr, hugr) and self.parent_node.idx == root.idx,
                "trace": len(hugr._tn_op) == n0 + 3 * _i1 and aligned(hugr),
                "table": len(self._case_builders) == _i1,
                "cases_so_far": forall(int, lambda j: implies(0 <= j and j < _i1, case_at(self, hugr, n0, j, cop, root))),
                "prefix_kept": prefix_kept(hugr, old(hugr._tn_op), old(hugr._tn_node), old(hugr._tn_parent), old(hugr._tn_outs), n0)}

    def ensures(self, hugr, root, n_cases, result):
        n0 = len(old(hugr._tn_op))
        cop = ghost("conditional_op_of", "hugr.ops.Conditional", hugr, root.idx)
        return {"P_three_nodes_per_case": len(hugr._tn_op) == n0 + 3 * n_cases and len(self._case_builders) == n_cases and aligned(hugr)
                and same_obj(self.hugr, hugr) and self.parent_node.idx == root.idx,
                "P_earlier_calls_kept": prefix_kept(hugr, old(hugr._tn_op), old(hugr._tn_node), old(hugr._tn_parent), old(hugr._tn_outs), n0),
                "P_case_j_is_the_j_th_child_with_its_row": forall(int, lambda j: implies(0 <= j and j < n_cases, case_at(self, hugr, n0, j, cop, root)))}


# ---- Cfg.new_nested / DfBase.add_cfg ------------------------------------------------------------------------
@contract("hugr.build.cfg.Cfg.new_nested", props=["C01"])
class cfg_new_nested:
    types = {"input_types": "Seq[Type]", "hugr": "Hugr", "parent": "Opt[Node]"}
    returns = "hugr.build.cfg.Cfg"
    fresh_result = True

    def requires(cls, input_types, hugr, parent):
        return aligned(hugr)

    def modifies(cls, input_types, hugr, parent):
        return [hugr._tn_op, hugr._tn_parent, hugr._tn_outs, hugr._tn_node, hugr._nodes, hugr._free_nodes]

    def raises(cls, input_types, hugr, parent):
        return {}

    def ensures(cls, input_types, hugr, parent, result):
        n0 = len(old(hugr._tn_op))
        op = nth(hugr._tn_op, n0)
        entry = nth(hugr._tn_op, n0 + 1)
        return {"P_five_nodes": len(hugr._tn_op) == n0 + 5 and aligned(hugr) and same_obj(result.hugr, hugr),
                "P_a_CFG_node_with_the_input_row_under_the_given_parent_or_the_root": cls_is(op, CFG_) and eq(as_cls(op, CFG_).inputs, input_types)
                and notNone(nth(hugr._tn_parent, n0)) and the(nth(hugr._tn_parent, n0)).idx == ite(isNone(parent), hugr.root, the(parent)).idx
                and result.parent_node.idx == nth(hugr._tn_node, n0).idx,
                "P_entry_block_first_then_exit_block": cls_is(entry, DataflowBlock) and eq(as_cls(entry, DataflowBlock).inputs, input_types)
                and notNone(nth(hugr._tn_parent, n0 + 1)) and the(nth(hugr._tn_parent, n0 + 1)).idx == result.parent_node.idx
                and cls_is(nth(hugr._tn_op, n0 + 4), ExitBlock) and notNone(nth(hugr._tn_parent, n0 + 4)) and the(nth(hugr._tn_parent, n0 + 4)).idx == result.parent_node.idx
                and eq(result.exit, nth(hugr._tn_node, n0 + 4))}


@contract("hugr.build.dfg.DfBase.add_cfg", props=["C01"])
class add_cfg:
    types = {"args": "Seq[Union[Node, OutPort]]"}
    exact_self = False
    returns = "hugr.build.cfg.Cfg"
    may_raise = ["ValueError"]

    def requires(self, args):
        return aligned(self.hugr) and len(self._tw_node) == len(self._tw_wires)

    def modifies(self, args):
        h = self.hugr
        return [h._tn_op, h._tn_parent, h._tn_outs, h._tn_node, h._nodes, h._free_nodes, self._tw_node, self._tw_wires, h._links.fwd, h._links.bck,
                "hugr.ops.Output._types", "hugr.ops.DataflowOp._g_epoch"]

    def raises(self, args):
        return {}

    def ensures(self, args, result):
        h = self.hugr
        n0 = len(old(self.hugr._tn_op))
        w = len(self._tw_node)
        op = nth(h._tn_op, n0)
        return {"P_a_CFG_whose_inputs_are_the_types_of_the_wires": len(h._tn_op) == n0 + 5 and cls_is(op, CFG_) and eq(as_cls(op, CFG_).inputs, wire_row(self, args)),
                "P_under_this_container": notNone(nth(h._tn_parent, n0)) and the(nth(h._tn_parent, n0)).idx == self.parent_node.idx and same_obj(result.hugr, h)
                and result.parent_node.idx == nth(h._tn_node, n0).idx,
                "P_the_wires_go_to_the_CFG_node_in_order": w == len(old(self._tw_node)) + 1 and len(self._tw_wires) == w
                and nth(self._tw_node, w - 1).idx == result.parent_node.idx and eq(nth(self._tw_wires, w - 1), args)}


# ---- Conditional.new_nested -----------------------------------------------------------------------------------
@contract("hugr.build.cond_loop.Conditional.new_nested", props=["C01"])
class conditional_new_nested:
    types = {"sum_ty": "hugr.tys.Sum", "other_inputs": "Seq[Type]", "hugr": "Hugr", "parent": "Opt[Node]"}
    returns = "hugr.build.cond_loop.Conditional"
    fresh_result = True

    def requires(cls, sum_ty, other_inputs, hugr, parent):
        return aligned(hugr)

    def modifies(cls, sum_ty, other_inputs, hugr, parent):
        return ["hugr.hugr.base.Hugr._tn_op", "hugr.hugr.base.Hugr._tn_parent", "hugr.hugr.base.Hugr._tn_outs", "hugr.hugr.base.Hugr._tn_node",
                "hugr.hugr.base.Hugr._nodes", "hugr.hugr.base.Hugr._free_nodes", "hugr.build.cond_loop.Case._parent_cond"]

    def raises(cls, sum_ty, other_inputs, hugr, parent):
        return {}

    def ensures(cls, sum_ty, other_inputs, hugr, parent, result):
        n0 = len(old(hugr._tn_op))
        op = nth(hugr._tn_op, n0)
        k = len(sum_ty.variant_rows)
        return {"P_one_conditional_node_and_three_nodes_per_variant": len(hugr._tn_op) == n0 + 1 + 3 * k and same_obj(result.hugr, hugr) and len(result._case_builders) == k,
                "P_a_Conditional_over_that_sum_under_the_given_parent_or_the_root": cls_is(op, Conditional_) and same_obj(as_cls(op, Conditional_).sum_ty, sum_ty)
                and eq(as_cls(op, Conditional_).other_inputs, other_inputs)
                and notNone(nth(hugr._tn_parent, n0)) and the(nth(hugr._tn_parent, n0)).idx == ite(isNone(parent), hugr.root, the(parent)).idx
                and result.parent_node.idx == nth(hugr._tn_node, n0).idx,
                "P_case_j_is_the_j_th_child_with_its_row": forall(int, lambda j: implies(0 <= j and j < k, case_at(result, hugr, n0 + 1, j, ghost("conditional_op_of", "hugr.ops.Conditional", hugr, result.parent_node.idx), result.parent_node)))}


# ---- DfBase.add_conditional -------------------------------------------------------------------------------------
@contract("hugr.tys.get_first_sum", props=[])
class get_first_sum_named:
    """TRUSTED: splits a row into its first type (a sum) and the rest; AssertionError when the first type is not a sum."""
    trusted = True
    types = {"types": "Seq[Type]"}
    returns = "Tup[hugr.tys.Sum, Seq[Type]]"
    may_raise = ["AssertionError"]

    def modifies(types):
        return []

    def raises(types):
        return {}

    def ensures(types, result):
        return {"first": len(types) >= 1 and same_obj(result[0], nth(types, 0)), "rest": eq(result[1], sub(types, 1, len(types) - 1))}


@contract("hugr.build.dfg.DfBase.add_conditional", props=["C01"])
class add_conditional:
    types = {"cond_wire": "Union[Node, OutPort]", "args": "Seq[Union[Node, OutPort]]"}
    exact_self = False
    returns = "hugr.build.cond_loop.Conditional"
    may_raise = ["ValueError", "AssertionError"]

    def requires(self, cond_wire, args):
        return aligned(self.hugr) and len(self._tw_node) == len(self._tw_wires)

    def modifies(self, cond_wire, args):
        h = self.hugr
        return ["hugr.hugr.base.Hugr._tn_op", "hugr.hugr.base.Hugr._tn_parent", "hugr.hugr.base.Hugr._tn_outs", "hugr.hugr.base.Hugr._tn_node",
                "hugr.hugr.base.Hugr._nodes", "hugr.hugr.base.Hugr._free_nodes", "hugr.build.cond_loop.Case._parent_cond",
                self._tw_node, self._tw_wires, h._links.fwd, h._links.bck, "hugr.ops.Output._types", "hugr.ops.DataflowOp._g_epoch"]

    def raises(self, cond_wire, args):
        return {}

    def ensures(self, cond_wire, args, result):
        h = self.hugr
        n0 = len(old(self.hugr._tn_op))
        w = len(self._tw_node)
        op = nth(h._tn_op, n0)
        row = wire_row(self, concat(Seq("Union[Node, OutPort]", cond_wire), args))
        return {"P_a_Conditional_over_the_type_of_the_first_wire_with_the_others_as_other_inputs": cls_is(op, Conditional_) and same_obj(as_cls(op, Conditional_).sum_ty, nth(row, 0))
                and eq(as_cls(op, Conditional_).other_inputs, sub(row, 1, len(row) - 1)),
                "P_under_this_container": notNone(nth(h._tn_parent, n0)) and the(nth(h._tn_parent, n0)).idx == self.parent_node.idx and same_obj(result.hugr, h)
                and result.parent_node.idx == nth(h._tn_node, n0).idx,
                "P_the_condition_then_the_other_wires_go_to_the_conditional_in_order": w == len(old(self._tw_node)) + 1 and len(self._tw_wires) == w
                and nth(self._tw_node, w - 1).idx == result.parent_node.idx and eq(nth(self._tw_wires, w - 1), concat(Seq("Union[Node, OutPort]", cond_wire), args))}
