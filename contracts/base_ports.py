"""Hugr.port_kind / Hugr.port_type (hugr/hugr/base.py) delegate to the node's operation (property C06):
the kind / type reported for a port of a node is the one its operation reports for that port.
Interface contracts name what an operation reports (ghost definitions); the per-class tables are
proved in contracts/ops.py."""
from pyvc.dsl import *  # noqa: F401,F403

value_classes = ["hugr.tys.ValueKind", "hugr.tys.ConstKind", "hugr.tys.FunctionKind", "hugr.tys.CFKind", "hugr.tys.OrderKind"]
class_aliases = {"ValueKind": "hugr.tys.ValueKind", "ConstKind": "hugr.tys.ConstKind", "FunctionKind": "hugr.tys.FunctionKind", "CFKind": "hugr.tys.CFKind", "OrderKind": "hugr.tys.OrderKind", "Call": "hugr.ops.Call", "DataflowOp": "hugr.ops.DataflowOp", "Op": "hugr.ops.Op",
                 "InPort": "hugr.hugr.node_port.InPort", "OutPort": "hugr.hugr.node_port.OutPort", "Type": "hugr.tys.Type", "Node": "hugr.hugr.node_port.Node"}


@spec
def pk(op, port):
    return ghost("port_kind_of", "Union[ValueKind, ConstKind, FunctionKind, CFKind, OrderKind]", op, port)


@spec
def pt(op, port):
    return ghost("port_type_of", "Type", op, port)


@spec
def pnode(port):
    return ite(cls_is(port, InPort), as_cls(port, InPort).node, as_cls(port, OutPort).node)


@contract("hugr.ops.Op.port_kind", props=[])
class op_port_kind_interface:
    interface = True
    trusted = True
    ghost_def = True
    types = {"port": "Union[InPort, OutPort]"}
    returns = "Union[ValueKind, ConstKind, FunctionKind, CFKind, OrderKind]"
    may_raise = ["hugr.ops.InvalidPort", "hugr.ops.IncompleteOp", "ValueError", "IndexError"]

    def modifies(self, port):
        return []

    def raises(self, port):
        return {}

    def ensures(self, port, result):
        return {"names_result": same_obj(result, pk(self, port))}


@contract("hugr.hugr.base.Hugr.port_kind", props=["C06"])
class hugr_port_kind:
    types = {"port": "Union[InPort, OutPort]"}
    returns = "Union[ValueKind, ConstKind, FunctionKind, CFKind, OrderKind]"
    may_raise = ["hugr.ops.InvalidPort", "hugr.ops.IncompleteOp", "ValueError", "IndexError"]

    def requires(self, port):
        return pnode(port).idx >= 0

    def modifies(self, port):
        return []

    def raises(self, port):
        return {KeyError: not live(self, pnode(port).idx)}

    def ensures(self, port, result):
        return {"P_kind_is_the_operation_s": same_obj(result, pk(data(self, pnode(port).idx).op, port))}


@contract("hugr.ops.DataflowOp.port_type", props=[])
class dataflow_port_type_named:
    """interface naming of what a dataflow operation reports as the type of a port (its table is proved in contracts/ops.py)"""
    interface = True
    trusted = True
    ghost_def = True
    exact_self = False
    types = {"port": "Union[InPort, OutPort]"}
    returns = "Type"
    may_raise = ["hugr.ops.IncompleteOp", "ValueError", "IndexError"]

    def modifies(self, port):
        return []

    def raises(self, port):
        return {}

    def ensures(self, port, result):
        return {"names_result": same_obj(result, pt(self, port))}


@contract("hugr.hugr.base.Hugr.port_type", props=["C06"])
class hugr_port_type:
    types = {"port": "Union[InPort, OutPort]"}
    returns = "Opt[Type]"
    may_raise = ["hugr.ops.InvalidPort", "hugr.ops.IncompleteOp", "ValueError", "IndexError"]

    def requires(self, port):
        return pnode(port).idx >= 0

    def modifies(self, port):
        return []

    def raises(self, port):
        return {KeyError: not live(self, pnode(port).idx)}

    def ensures(self, port, result):
        op = data(self, pnode(port).idx).op
        k = pk(op, port)
        return {
            "P_dataflow_op_reports_its_port_type": implies(isinstance(op, DataflowOp), notNone(result) and same_obj(the(result), pt(op, port))),
            # Call is a dataflow operation of the specification although its class only derives from Op: value outputs carry the payload of their kind
            "P_call_output_is_the_kind_s_payload": implies(cls_is(op, Call) and cls_is(port, OutPort) and cls_is(k, ValueKind), notNone(result) and same_obj(the(result), as_cls(k, ValueKind).ty)),
            "P_no_type_otherwise": implies(not isinstance(op, DataflowOp) and not (cls_is(op, Call) and cls_is(port, OutPort) and cls_is(k, ValueKind)), isNone(result)),
        }
