"""Contracts for hugr/qsystem/result.py (C19: shot results -> register bitstrings).

The oracle is the statement's replay: entries are applied in order as writes to a register file.
`replay(entries, i)` is a ghost function (register file after the first i entries); its defining
equations are supplied as instances at the loop cursor (clauses named A_*), never as quantified
axioms.  The tag grammar is the documented pattern, axiomatised through the uninterpreted
re_reg_match / re_reg_name / re_reg_digits (see pyvc/externals.py).
"""
from pyvc.dsl import *  # noqa: F401,F403

type_aliases = {
    "DataValue": "hugr.qsystem.result.DataValue",
}
class_aliases = {
    "QsysShot": "hugr.qsystem.result.QsysShot",
    "QsysResult": "hugr.qsystem.result.QsysResult",
}


@spec
def is_bit(v):
    return isinstance(v, int) and (v == 0 or v == 1)


@spec
def bitchar(v):
    return ite(v == 1, "1", "0")


@spec
def indexed(tag):
    return ghost("re_reg_match", "bool", tag)


@spec
def reg_of(tag):
    return ite(indexed(tag), ghost("re_reg_name", "str", tag), tag)


@spec
def idx_of(tag):
    return ghost("int_of_str", "int", ghost("re_reg_digits", "str", tag))


@spec
def all01(bits):
    return forall(int, lambda j: implies(0 <= j and j < len(bits), nth(bits, j) == "0" or nth(bits, j) == "1"))


@spec
def same_seq(a, b):
    """Pointwise equality of two sequences (no appeal to sequence extensionality)."""
    return len(a) == len(b) and forall(int, lambda j: implies(0 <= j and j < len(a), nth(a, j) == nth(b, j)))


@spec
def entry_ok(tag, v):
    """The value of an entry is acceptable: a bit for an indexed write, a bit or a list of bits otherwise."""
    return ite(indexed(tag) or not isinstance(v, list), is_bit(v),
               forall(int, lambda k: implies(0 <= k and k < len(as_list(v)), is_bit(nth(as_list(v), k)))))


@spec
def renders(s, bits):
    """the string s is the concatenation of the 1-character bits"""
    return len(s) == len(bits) and forall(int, lambda j: implies(0 <= j and j < len(bits), s[j] == nth(bits, j)))


@spec
def rendered(s, bits):
    """OPAQUE form of renders(s, bits): an uninterpreted predicate whose definition is renders(s, bits).  The
    definition is unfolded (clauses named D_*) only where a proof needs it - at the return point of
    to_register_bits - and stays folded in the multi-shot functions, whose proofs only pass the fact along."""
    return ghost("rendered", "bool", s, bits)


@spec
def RP(entries, i):
    return ghost("replay", "Dict[str, Seq[str]]", entries, i)


@spec
def step(R0, R1, tag, v):
    """R1 is R0 after the write (tag, v) -- the statement's write rule, pointwise."""
    r = reg_of(tag)
    old = ite(has(R0, r), get(R0, r), empty_seq(str))
    new = get(R1, r)
    n = idx_of(tag)
    return (forall(str, lambda q: has(R1, q) == (has(R0, q) or q == r))
            and forall(str, lambda q: implies(q != r and has(R0, q), same_seq(get(R1, q), get(R0, q))))
            and implies(indexed(tag),
                        len(new) == ite(n + 1 > len(old), n + 1, len(old))
                        and forall(int, lambda j: implies(0 <= j and j < len(new),
                                                          nth(new, j) == ite(j == n, bitchar(v), ite(j < len(old), nth(old, j), "0")))))
            and implies(not indexed(tag) and isinstance(v, list),
                        len(new) == len(as_list(v)) and forall(int, lambda j: implies(0 <= j and j < len(new), nth(new, j) == bitchar(nth(as_list(v), j)))))
            and implies(not indexed(tag) and not isinstance(v, list), len(new) == 1 and nth(new, 0) == bitchar(v)))


# ------------------------------------------------------------------------------------------
@contract("hugr.qsystem.result._cast_primitive_bit", props=["C19"])
class cast_primitive_bit:
    returns = "str"

    def modifies(data):
        return []

    def raises(data):
        return {ValueError: not is_bit(data)}

    def ensures(data, result):
        return {"P_char": result == bitchar(data),
                "P_zero_or_one": result == "0" or result == "1"}


@contract("hugr.qsystem.result.QsysShot.to_register_bits", props=["C19"])
class to_register_bits:
    returns = "Dict[str, str]"

    def modifies(self):
        return []

    def raises(self):
        es = self.entries
        return {ValueError: exists(int, lambda j: 0 <= j and j < len(es) and not entry_ok(nth(es, j)[0], nth(es, j)[1]))}

    def loop_1(self, reg_bits, _i1):
        es = self.entries
        return {
            "A_replay_0": forall(str, lambda q: not has(RP(es, 0), q)),
            "A_replay_step": implies(_i1 < len(es), step(RP(es, _i1), RP(es, _i1 + 1), nth(es, _i1)[0], nth(es, _i1)[1])),
            "accepted_so_far": forall(int, lambda j: implies(0 <= j and j < _i1, entry_ok(nth(es, j)[0], nth(es, j)[1]))),
            "is_replay": forall(str, lambda q: has(reg_bits, q) == has(RP(es, _i1), q) and implies(has(reg_bits, q), same_seq(get(reg_bits, q), get(RP(es, _i1), q)))),
            "P_chars": forall(str, lambda q: implies(has(reg_bits, q), all01(get(reg_bits, q)))),
        }

    def ensures(self, result):
        es = self.entries
        final = RP(es, len(es))
        return {
            "P_registers": forall(str, lambda q: has(result, q) == has(final, q)),
            # the bitstring of a register is the concatenation of its bits: same length, j-th character = j-th bit
            "P_bits": forall(str, lambda q: implies(has(result, q), len(get(result, q)) == len(get(final, q))
                                                    and forall(int, lambda j: implies(0 <= j and j < len(get(final, q)), get(result, q)[j] == nth(get(final, q), j))))),
            "P_chars": forall(str, lambda q: implies(has(result, q), all01(get(final, q)))),
            # the same statement in the form callers use (rendered is opaque for them, see below)
            "P_lengths": forall(str, lambda q: implies(has(result, q), len(get(result, q)) == len(get(final, q)))),
            "D_rendered": forall(str, lambda q: rendered(get(result, q), get(final, q)) == renders(get(result, q), get(final, q))),
            "P_rendered": forall(str, lambda q: implies(has(result, q), rendered(get(result, q), get(final, q)))),
        }


# ------------------------------------------------------------------------------------------
@spec
def CT(entries, i):
    """ghost: the collation of the first i entries (tag -> values in entry order)"""
    return ghost("collate", "Dict[str, Seq[DataValue]]", entries, i)


@spec
def collate_step(C0, C1, tag, v):
    old = ite(has(C0, tag), get(C0, tag), empty_seq(DataValue))
    return (forall(str, lambda q: has(C1, q) == (has(C0, q) or q == tag))
            and forall(str, lambda q: implies(q != tag and has(C0, q), eq(get(C1, q), get(C0, q))))
            and eq(get(C1, tag), concat(old, Seq(DataValue, v))))


@contract("hugr.qsystem.result.QsysShot.collate_tags", props=["C19"])
class collate_tags:
    returns = "Dict[str, Seq[DataValue]]"

    def modifies(self):
        return []

    def raises(self):
        return {}

    def loop_1(self, tags, _i1):
        es = self.entries
        return {
            "A_collate_0": forall(str, lambda q: not has(CT(es, 0), q)),
            "A_collate_step": implies(_i1 < len(es), collate_step(CT(es, _i1), CT(es, _i1 + 1), nth(es, _i1)[0], nth(es, _i1)[1])),
            "is_collation": forall(str, lambda q: has(tags, q) == has(CT(es, _i1), q) and implies(has(tags, q), eq(get(tags, q), get(CT(es, _i1), q)))),
        }

    def ensures(self, result):
        es = self.entries
        final = CT(es, len(es))
        return {"P_collated": forall(str, lambda q: has(result, q) == has(final, q) and implies(has(result, q), eq(get(result, q), get(final, q))))}


# ------------------------------------------------------------------------------------------
# multi-shot functions
@spec
def FIN(shot):
    """register file of a shot after all of its entries (the statement's replay)"""
    return RP(shot.entries, len(shot.entries))


@spec
def shot_ok(shot):
    return forall(int, lambda k: implies(0 <= k and k < len(shot.entries), entry_ok(nth(shot.entries, k)[0], nth(shot.entries, k)[1])))


@spec
def accepted(shot):
    """OPAQUE form of shot_ok(shot) (every entry of the shot is acceptable); unfolded for the shot at the loop
    cursor only (clause D_accepted), which is where to_register_bits is called."""
    return ghost("shot_accepted", "bool", shot.entries)


@spec
def SI(shots, i):
    """ghost: for every register, the indices (< i) of the shots that write it, in shot order"""
    return ghost("shots_with_register", "Dict[str, Seq[int]]", shots, i)


@spec
def si_step(S0, S1, F, i):
    """S1 is S0 after shot number i, whose register file is F: i is appended for every register of the shot
    (the equation, and the same fact element by element)."""
    return (forall(str, lambda q: has(S1, q) == (has(S0, q) or has(F, q)))
            and forall(str, lambda q: implies(has(S0, q) and not has(F, q), eq(get(S1, q), get(S0, q))))
            and forall(str, lambda q: implies(has(F, q), eq(get(S1, q), concat(ite(has(S0, q), get(S0, q), empty_seq(int)), Seq(int, i)))))
            and forall(str, lambda q: implies(has(F, q), len(get(S1, q)) == ite(has(S0, q), len(get(S0, q)), 0) + 1
                                              and nth(get(S1, q), len(get(S1, q)) - 1) == i
                                              and forall(int, lambda k: implies(0 <= k and k < len(get(S1, q)) - 1, nth(get(S1, q), k) == nth(get(S0, q), k)))))
            # where each element of a new list comes from: it is i (the last one, for a register of the shot) or the same element of the old list
            and forall(str, lambda q: implies(has(S1, q), forall(int, lambda k: implies(
                0 <= k and k < len(get(S1, q)),
                (has(F, q) and k == len(get(S1, q)) - 1 and nth(get(S1, q), k) == i)
                or (has(S0, q) and k < len(get(S0, q)) and nth(get(S1, q), k) == nth(get(S0, q), k)))))))


@spec
def si_wf(shots, S, i):
    """every listed index is a shot before i that has the register; lists are non-empty"""
    return forall(str, lambda q: implies(has(S, q), len(get(S, q)) >= 1 and forall(int, lambda k: implies(
        0 <= k and k < len(get(S, q)), 0 <= nth(get(S, q), k) and nth(get(S, q), k) < i and has(FIN(nth(shots, nth(get(S, q), k))), q)))))


@spec
def strings_of(shots, S, D, q, n):
    """the first n strings D holds for register q are those of the shots S lists for it, in that order"""
    return forall(int, lambda k: implies(0 <= k and k < n, rendered(nth(get(D, q), k), get(FIN(nth(shots, nth(get(S, q), k))), q))
                                         and len(nth(get(D, q), k)) == len(get(FIN(nth(shots, nth(get(S, q), k))), q))))


@spec
def listed(idxs, j):
    return exists(int, lambda k: 0 <= k and k < len(idxs) and nth(idxs, k) == j)


@spec
def si_sorted(S):
    return forall(str, lambda q: implies(has(S, q), forall(int, lambda k: implies(0 <= k and k + 1 < len(get(S, q)), nth(get(S, q), k) < nth(get(S, q), k + 1)))))


@spec
def names_differ(shots):
    """some shot after the first has a register set different from the registers of the shots before it
    (equivalent to: not all shots have the same register set)"""
    return exists(int, lambda j: 0 < j and j < len(shots) and exists(str, lambda q: has(FIN(nth(shots, j)), q) != has(SI(shots, j), q)))


@spec
def first_len(shots, j, q):
    """length of register q in the first shot (before shot j) that writes it"""
    return len(get(FIN(nth(shots, nth(get(SI(shots, j), q), 0))), q))


@spec
def uniform(shots, S, j, q):
    """register q has the same length in every shot S lists for it (namely the length in the first of them)"""
    return forall(int, lambda k: implies(0 <= k and k < len(get(S, q)), len(get(FIN(nth(shots, nth(get(S, q), k))), q)) == first_len(shots, j, q)))


@spec
def lengths_differ(shots):
    """some shot writes a register with a length different from the one of the first shot that wrote it
    (equivalent to: the strings of some register do not all have the same length)"""
    return exists(int, lambda j: exists(str, lambda q: 0 <= j and j < len(shots) and has(FIN(nth(shots, j)), q) and has(SI(shots, j), q)
                                        and len(get(FIN(nth(shots, j)), q)) != first_len(shots, j, q)))


@contract("hugr.qsystem.result.QsysResult.register_bitstrings", props=["C19"])
class register_bitstrings:
    types = {"strict_names": "bool", "strict_lengths": "bool"}
    returns = "Dict[str, Seq[str]]"
    callee_clauses = {"hugr.qsystem.result.QsysShot.to_register_bits": ["P_registers", "P_lengths", "P_rendered"]}

    def modifies(self, strict_names, strict_lengths):
        return []

    def raises(self, strict_names, strict_lengths):
        rs = self.results
        return {ValueError: exists(int, lambda j: 0 <= j and j < len(rs) and not accepted(nth(rs, j)))
                or (strict_names and names_differ(rs))
                or (strict_lengths and lengths_differ(rs))}

    def loop_1(self, strict_names, strict_lengths, shot_dct, _i1):
        rs = self.results
        S = SI(rs, _i1)
        return {
            "A_si_0": forall(str, lambda q: not has(SI(rs, 0), q)),
            "A_si_step": implies(_i1 < len(rs), si_step(S, SI(rs, _i1 + 1), FIN(nth(rs, _i1)), _i1)),
            "D_accepted": implies(_i1 < len(rs), accepted(nth(rs, _i1)) == shot_ok(nth(rs, _i1))),
            "accepted_so_far": forall(int, lambda j: implies(0 <= j and j < _i1, accepted(nth(rs, j)))),
            "si_wf": si_wf(rs, S, _i1),
            "registers": forall(str, lambda q: has(shot_dct, q) == has(S, q)),
            "lengths": forall(str, lambda q: implies(has(shot_dct, q), len(get(shot_dct, q)) == len(get(S, q)))),
            "strings": forall(str, lambda q: implies(has(shot_dct, q), strings_of(rs, S, shot_dct, q, len(get(S, q))))),
            "names_so_far": implies(strict_names, forall(int, lambda j: forall(str, lambda q: implies(0 < j and j < _i1, has(FIN(nth(rs, j)), q) == has(SI(rs, j), q))))),
            "lengths_so_far": implies(strict_lengths, forall(int, lambda j: forall(str, lambda q: implies(
                0 <= j and j < _i1 and has(FIN(nth(rs, j)), q) and has(SI(rs, j), q), len(get(FIN(nth(rs, j)), q)) == first_len(rs, j, q))))),
            # hence (makes the proof independent of *which* earlier string the code compares with)
            "uniform_so_far": implies(strict_lengths, forall(str, lambda q: implies(has(S, q), uniform(rs, S, _i1, q)))),
        }

    def loop_2(self, strict_names, strict_lengths, shot_dct, bitstrs, _i1, _done2):
        rs = self.results
        F = FIN(nth(rs, _i1))
        S = SI(rs, _i1)
        S1 = SI(rs, _i1 + 1)
        done = lambda q: has(_done2, q)
        return {
            "A_si_step": si_step(S, S1, F, _i1),
            "in_range": 0 <= _i1 and _i1 < len(rs),
            "shot_result": forall(str, lambda q: has(bitstrs, q) == has(F, q) and implies(has(bitstrs, q), rendered(get(bitstrs, q), get(F, q)) and len(get(bitstrs, q)) == len(get(F, q)))),
            "accepted_so_far": forall(int, lambda j: implies(0 <= j and j <= _i1, accepted(nth(rs, j)))),
            "si_wf": si_wf(rs, S, _i1),
            "registers": forall(str, lambda q: has(shot_dct, q) == (has(S, q) or done(q))),
            "done_keys": forall(str, lambda q: implies(done(q), has(F, q))),
            # registers of this shot already processed: their lists are those of the next ghost state S1
            "strings_done": forall(str, lambda q: implies(done(q), len(get(shot_dct, q)) == len(get(S1, q)) and strings_of(rs, S1, shot_dct, q, len(get(S1, q))))),
            # the others still are as the current ghost state S says
            "strings_rest": forall(str, lambda q: implies(has(S, q) and not done(q), len(get(shot_dct, q)) == len(get(S, q)) and strings_of(rs, S, shot_dct, q, len(get(S, q))))),
            "names_so_far": implies(strict_names, forall(int, lambda j: forall(str, lambda q: implies(0 < j and j < _i1, has(FIN(nth(rs, j)), q) == has(SI(rs, j), q))))
                                    and implies(_i1 > 0, forall(str, lambda q: has(F, q) == has(S, q)))),
            "lengths_so_far": implies(strict_lengths,
                                      forall(int, lambda j: forall(str, lambda q: implies(0 <= j and j < _i1 and has(FIN(nth(rs, j)), q) and has(SI(rs, j), q),
                                                                                          len(get(FIN(nth(rs, j)), q)) == first_len(rs, j, q))))
                                      and forall(str, lambda q: implies(done(q) and has(S, q), len(get(F, q)) == first_len(rs, _i1, q)))),
            "uniform_so_far": implies(strict_lengths, forall(str, lambda q: implies(has(S, q), uniform(rs, S, _i1, q)))
                                      and forall(str, lambda q: implies(done(q), uniform(rs, S1, _i1 + 1, q)))),
        }

    def ensures(self, strict_names, strict_lengths, result):
        rs = self.results
        S = SI(rs, len(rs))
        return {
            "P_registers": forall(str, lambda q: has(result, q) == has(S, q)),
            "P_one_string_per_shot": forall(str, lambda q: implies(has(result, q), len(get(result, q)) == len(get(S, q)))),
            # the k-th string of a register is the rendering of that register in the k-th shot that writes it
            "P_bitstrings": forall(str, lambda q: implies(has(result, q), strings_of(rs, S, result, q, len(get(S, q))))),
            "P_only_shots_with_the_register": si_wf(rs, S, len(rs)),
            # ghost definition: the dictionary returned is named RBS(shots, flags) (used by register_counts to say
            # "the counters of exactly those lists"; consistent because none of these functions writes the heap)
            "A_named": eq(result, RBS(rs, strict_names, strict_lengths)),
        }


@spec
def RBS(shots, strict_names, strict_lengths):
    return ghost("register_bitstrings_of", "Dict[str, Seq[str]]", shots, strict_names, strict_lengths)


@spec
def counter_of(strings):
    """collections.Counter of a list of strings (the library function, uninterpreted)"""
    return ghost("counter_of_String", "Dict[str, int]", strings)


@contract("hugr.qsystem.result.QsysResult.register_counts", props=["C19"])
class register_counts:
    types = {"strict_names": "bool", "strict_lengths": "bool"}
    returns = "Dict[str, Dict[str, int]]"
    callee_clauses = {"hugr.qsystem.result.QsysResult.register_bitstrings": ["P_registers", "A_named"]}

    def modifies(self, strict_names, strict_lengths):
        return []

    def raises(self, strict_names, strict_lengths):
        rs = self.results
        return {ValueError: exists(int, lambda j: 0 <= j and j < len(rs) and not accepted(nth(rs, j)))
                or (strict_names and names_differ(rs))
                or (strict_lengths and lengths_differ(rs))}

    def ensures(self, strict_names, strict_lengths, result):
        rs = self.results
        B = RBS(rs, strict_names, strict_lengths)
        return {
            # one counter per register of register_bitstrings(same flags), counting exactly that register's list
            "P_registers": forall(str, lambda q: has(result, q) == has(B, q)),
            "P_counts": forall(str, lambda q: implies(has(result, q), eq(get(result, q), counter_of(get(B, q))))),
        }
