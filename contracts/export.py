"""Contracts for hugr/model/export.py (property C12): ports listed for a node = value ports of its
signature (control ports of basic blocks), function symbols are a function of the *function's* node,
order keys."""
from pyvc.dsl import *  # noqa: F401,F403

class_aliases = {
    "Call": "hugr.ops.Call", "LoadConst": "hugr.ops.LoadConst", "LoadFunc": "hugr.ops.LoadFunc", "DataflowOp": "hugr.ops.DataflowOp", "Op": "hugr.ops.Op",
    "DataflowBlock": "hugr.ops.DataflowBlock", "NodeData": "hugr.hugr.base.NodeData", "Node": "hugr.hugr.node_port.Node", "Hugr": "hugr.hugr.base.Hugr",
    "Input": "hugr.ops.Input", "Output": "hugr.ops.Output", "SubPort": "hugr.hugr.node_port._SubPort", "InPort": "hugr.hugr.node_port.InPort", "OutPort": "hugr.hugr.node_port.OutPort",
}


@spec
def is_load(op):
    return cls_is(op, LoadConst) or cls_is(op, LoadFunc)


@contract("hugr.model.export._num_model_ports", props=["C12"])
class num_model_ports:
    returns = "Tup[int, int]"
    may_raise = ["IncompleteOp", "ValueError"]

    def requires(node_data):
        return not cls_is(node_data.op, DataflowBlock)

    def modifies(node_data):
        return []

    def raises(node_data):
        return {}

    def ensures(node_data, result):
        op = node_data.op
        return {
            # exactly the value ports of the signature: no static function / constant input, and independent of what is connected
            "P_value_inputs": implies(has_order_port(op) and not is_load(op), result[0] == n_value(op, True)),
            "P_value_outputs": implies(has_order_port(op) and not is_load(op), result[1] == n_value(op, False)),
            # LoadConst / LoadFunc: signature [] -> [T] (proved in C06): no value input, one value output
            "P_loads": implies(is_load(op), result[0] == 0 and result[1] == 1),
        }


@contract("hugr.model.export._mangle_name", props=["C12"])
class mangle_name:
    def modifies(node, name):
        return []

    def raises(node, name):
        return {}

    def ensures(node, name, result):
        # a function of the node index and the name only: the same node always gets the same symbol
        return {"P_symbol_of_node": result == "_" + name + "_" + str(node.idx)}


@spec
def order_succ(h, node, j):
    """j-th order successor of node (sequence view of the graph store, C04)"""
    return get(h._links.fwd, SubPort(OutPort(node, -1), j)).port.node


@spec
def order_pred(h, node, j):
    return get(h._links.bck, SubPort(InPort(node, -1), j)).port.node


@spec
def op_of(h, n):
    return the(nth(h._nodes, n.idx)).op


@contract("hugr.model.export._needs_order_key", props=["C12"])
class needs_order_key:
    types = {"node": "Node"}

    def requires(hugr, node):
        f = hugr._links.fwd
        b = hugr._links.bck
        live_ends = (forall(int, lambda j: implies(j >= 0 and has(f, SubPort(OutPort(node, -1), j)), order_succ(hugr, node, j).idx >= 0 and order_succ(hugr, node, j).idx < len(hugr._nodes)
                                                  and notNone(nth(hugr._nodes, order_succ(hugr, node, j).idx))))
                     and forall(int, lambda j: implies(j >= 0 and has(b, SubPort(InPort(node, -1), j)), order_pred(hugr, node, j).idx >= 0 and order_pred(hugr, node, j).idx < len(hugr._nodes)
                                                      and notNone(nth(hugr._nodes, order_pred(hugr, node, j).idx)))))
        return live_ends

    def modifies(hugr, node):
        return []

    def raises(hugr, node):
        return {}

    def loop_1(hugr, node, _i1, _seq1):
        return {"none_so_far": forall(int, lambda j: implies(0 <= j and j < _i1, cls_is(op_of(hugr, nth(_seq1, j)), Output)))}

    def loop_2(hugr, node, _i2, _seq2):
        return {"none_so_far": forall(int, lambda j: implies(0 <= j and j < _i2, cls_is(op_of(hugr, nth(_seq2, j)), Input)))}

    def ensures(hugr, node, result):
        f = hugr._links.fwd
        b = hugr._links.bck
        n_s = ghost("n_order_succ", "int", hugr, node)
        n_p = ghost("n_order_pred", "int", hugr, node)
        return {
            # a key exactly when some order edge joins the node to a sibling that is not the region's boundary
            "P_key_iff_inner_order_edge": implies(
                n_s >= 0 and n_p >= 0 and not has(f, SubPort(OutPort(node, -1), n_s)) and forall(int, lambda j: implies(0 <= j and j < n_s, has(f, SubPort(OutPort(node, -1), j))))
                and not has(b, SubPort(InPort(node, -1), n_p)) and forall(int, lambda j: implies(0 <= j and j < n_p, has(b, SubPort(InPort(node, -1), j)))),
                result == (exists(int, lambda j: 0 <= j and j < n_s and not cls_is(op_of(hugr, order_succ(hugr, node, j)), Output))
                           or exists(int, lambda j: 0 <= j and j < n_p and not cls_is(op_of(hugr, order_pred(hugr, node, j)), Input)))),
        }
