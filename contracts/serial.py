"""Contracts for the port addressing used when a HUGR is serialized (property C03, second half):
value ports are addressed by their position in the operation's signature, the static (function /
constant) input sits immediately after the value inputs, and a state-order edge is addressed at
the first port after those - whatever number of the node's ports happen to be connected.

Uses the operation contracts of contracts/ops.py (C06): sig_in / sig_out are the rows of the
operation's outer signature (interface contract of DataflowOp.outer_signature).
"""
from pyvc.dsl import *  # noqa: F401,F403

class_aliases = {
    "Call": "hugr.ops.Call", "LoadConst": "hugr.ops.LoadConst", "LoadFunc": "hugr.ops.LoadFunc", "DataflowOp": "hugr.ops.DataflowOp",
    "Op": "hugr.ops.Op", "Direction": "hugr.hugr.node_port.Direction", "Hugr": "hugr.hugr.base.Hugr",
    "InPort": "hugr.hugr.node_port.InPort", "OutPort": "hugr.hugr.node_port.OutPort",
}


@spec
def n_value(op, incoming):
    """number of value ports of a dataflow operation in one direction = length of that row of its
    signature (the instantiated one for Call); sig_in / sig_out are the rows the operation's own
    outer_signature reports (ghost definition) - their correctness per class is C06"""
    return ite(cls_is(op, Call),
               ite(incoming, len(as_cls(op, Call).instantiation.input), len(as_cls(op, Call).instantiation.output)),
               ite(incoming, len(ghost("sig_in", "Seq[Type]", op)), len(ghost("sig_out", "Seq[Type]", op))))


@spec
def n_static_in(op):
    """Call, LoadConst and LoadFunc have one static input (function / constant) after their value inputs"""
    return ite(cls_is(op, Call) or cls_is(op, LoadConst) or cls_is(op, LoadFunc), 1, 0)


@spec
def has_order_port(op):
    """dataflow operations (Call is one in the specification although the Python class only derives from Op)"""
    return isinstance(op, DataflowOp) or cls_is(op, Call)


@contract("hugr.hugr.base._order_port_offset", props=["C03"])
class order_port_offset:
    types = {"op": "Op"}
    # C03 speaks about complete operations; an incomplete one makes outer_signature raise (C13)
    may_raise = ["IncompleteOp", "ValueError"]

    def modifies(op, direction):
        return []

    def raises(op, direction):
        return {}

    def ensures(op, direction, result):
        inc = direction == Direction.INCOMING
        return {
            "P_after_value_and_static_inputs": implies(has_order_port(op) and inc, notNone(result) and the(result) == n_value(op, True) + n_static_in(op)),
            "P_after_value_outputs": implies(has_order_port(op) and not inc, notNone(result) and the(result) == n_value(op, False)),
            "P_no_order_port_otherwise": implies(not has_order_port(op), isNone(result)),
        }


@contract("hugr.ops.AsExtOp.outer_signature", props=[])
class asextop_outer:
    """TRUSTED for C03: operations backed by an extension definition report the signature of the
    extension operation they denote; only the ghost definition of sig_in / sig_out is used here."""
    trusted = True
    exact_self = False
    returns = "FunctionType"
    may_raise = ["IncompleteOp", "ValueError"]

    def modifies(self):
        return []

    def raises(self):
        return {}

    def ensures(self, result):
        return {"rows": eq(result.input, ghost("sig_in", "Seq[Type]", self)) and eq(result.output, ghost("sig_out", "Seq[Type]", self))}


@spec
def p_node(p):
    return ite(cls_is(p, InPort), as_cls(p, InPort).node, as_cls(p, OutPort).node)


@spec
def p_off(p):
    return ite(cls_is(p, InPort), as_cls(p, InPort).offset, as_cls(p, OutPort).offset)


@contract("hugr.hugr.base.Hugr._constrain_offset", props=["C03"])
class constrain_offset:
    types = {"p": "Union[InPort, OutPort]"}
    may_raise = ["IncompleteOp", "ValueError"]

    def requires(self, p):
        return p_node(p).idx >= 0 and p_off(p) >= -1

    def modifies(self, p):
        return []

    def raises(self, p):
        return {KeyError: p_off(p) == -1 and not (0 <= p_node(p).idx and p_node(p).idx < len(self._nodes) and notNone(nth(self._nodes, p_node(p).idx)))}

    def ensures(self, p, result):
        op = the(nth(self._nodes, p_node(p).idx)).op
        inc = cls_is(p, InPort)
        return {
            # a value port is addressed by its position in the operation's signature
            "P_value_port_by_position": implies(p_off(p) >= 0, result == p_off(p)),
            # the order edge: first port after the value ports (and the static input), however many ports are connected
            "P_order_port_in": implies(p_off(p) == -1 and has_order_port(op) and inc, result == n_value(op, True) + n_static_in(op)),
            "P_order_port_out": implies(p_off(p) == -1 and has_order_port(op) and not inc, result == n_value(op, False)),
        }
