"""Contracts for hugr/build/tracked_dfg.py (property C15: index-based wiring == explicit wiring).

The tracked table is the abstract view `tracked : Seq[Opt[Wire]]` with Wire = Node | OutPort (builder
objects satisfy the protocol too; the table never looks inside a wire, so this only narrows the
element type - stated as an assumption in the evidence).  A command argument is a Wire or an int.

"Equivalent to explicit wiring" is stated through a ghost call trace on the builder: the plain
builder entry points (DfBase.add_op, Dfg.set_outputs) append the arguments they were called with
to `_tr_*` ghost fields (trusted contracts - their own behaviour is the subject of C01/C04/C08);
TrackedDfg.add / set_indexed_outputs / set_tracked_outputs must make exactly the call that the
statement says the explicit program would make: same operation, the wires currently tracked at
the integer arguments (other wires as given, in argument order), the same metadata.
"""
from pyvc.dsl import *  # noqa: F401,F403

class_aliases = {
    "Node": "hugr.hugr.node_port.Node", "OutPort": "hugr.hugr.node_port.OutPort",
    "TrackedDfg": "hugr.build.tracked_dfg.TrackedDfg", "Command": "hugr.ops.Command", "DataflowOp": "hugr.ops.DataflowOp",
}
value_classes = ["hugr.ops.Command"]
field_types = {
    "hugr.build.tracked_dfg.TrackedDfg.tracked": "Seq[Opt[Union[Node, OutPort]]]",
    "hugr.ops.Command.incoming": "Seq[Union[Node, OutPort, int]]",
}
extra_fields = {
    # ghost call trace of the plain builder
    "hugr.build.dfg.DfBase._tr_op": "Seq[DataflowOp]",
    "hugr.build.dfg.DfBase._tr_wires": "Seq[Seq[Union[Node, OutPort]]]",
    "hugr.build.dfg.DfBase._tr_meta": "Seq[Opt[Dict[str, Any]]]",
    "hugr.build.dfg.DfBase._tr_node": "Seq[Node]",
    "hugr.build.dfg.DfBase._tr_outs": "Seq[Seq[Union[Node, OutPort]]]",
}


@spec
def norm(n, i):
    return ite(i >= 0, i, n + i)


@spec
def is_tracked(tr, i):
    """i denotes a tracked wire of table tr (Python index meaning, negative from the end)"""
    return -len(tr) <= i and i < len(tr) and notNone(nth(tr, norm(len(tr), i)))


@spec
def is_idx(c):
    return cls_is(c, int)


@spec
def resolved(tr, c):
    """the wire a command argument denotes under table tr"""
    return ite(is_idx(c), the(nth(tr, norm(len(tr), as_cls(c, int)))), as_cls(c, "Union[Node, OutPort]"))


@spec
def all_valid(tr, cs):
    return forall(int, lambda p: implies(0 <= p and p < len(cs) and is_idx(nth(cs, p)), is_tracked(tr, as_cls(nth(cs, p), int))))


@spec
def last_naming(tr, cs, j, k):
    return ghost("last_naming", "int", len(tr), cs, j, k)


@spec
def denotes(tr, cs, p, j):
    """argument p is an integer that names slot j"""
    return is_idx(nth(cs, p)) and norm(len(tr), as_cls(nth(cs, p), int)) == j


# ------------------------------------------------------------------------------------------
@contract("hugr.build.tracked_dfg.TrackedDfg.track_wire", props=["C15"])
class track_wire:
    types = {"wire": "Union[Node, OutPort]"}

    def modifies(self, wire):
        return [self.tracked]

    def raises(self, wire):
        return {}

    def ensures(self, wire, result):
        t0 = old(self.tracked)
        return {
            "P_index_is_new": result == len(t0),
            "P_appended": len(self.tracked) == len(t0) + 1 and notNone(nth(self.tracked, len(t0))) and eq(the(nth(self.tracked, len(t0))), wire),
            # frees an index for good: no existing slot (tracked or freed) is touched
            "P_old_slots_kept": forall(int, lambda i: implies(0 <= i and i < len(t0), eq(nth(self.tracked, i), nth(t0, i)))),
        }


@contract("hugr.build.tracked_dfg.TrackedDfg.tracked_wire", props=["C15", "C13"])
class tracked_wire:
    returns = "Union[Node, OutPort]"

    def modifies(self, index):
        return []

    def raises(self, index):
        return {IndexError: not is_tracked(self.tracked, index)}

    def ensures(self, index, result):
        return {"P_most_recent": eq(result, the(nth(self.tracked, norm(len(self.tracked), index))))}


@contract("hugr.build.tracked_dfg.TrackedDfg.untrack_wire", props=["C15", "C13"])
class untrack_wire:
    returns = "Union[Node, OutPort]"

    def modifies(self, index):
        return [self.tracked]

    def raises(self, index):
        return {IndexError: not is_tracked(self.tracked, index)}

    def raises_ensures(self, index):
        return {"P_unchanged_on_error": eq(self.tracked, old(self.tracked))}

    def ensures(self, index, result):
        t0 = old(self.tracked)
        k = norm(len(t0), index)
        return {
            "P_returns_wire": eq(result, the(nth(t0, k))),
            "P_freed": len(self.tracked) == len(t0) and isNone(nth(self.tracked, k)),
            "P_others_kept": forall(int, lambda i: implies(0 <= i and i < len(t0) and i != k, eq(nth(self.tracked, i), nth(t0, i)))),
        }


# ---- the plain builder: trusted, records what it was asked to do --------------------------
@contract("hugr.build.dfg.DfBase.add_op", props=[])
class add_op:
    """TRUSTED (C15 only looks at what the tracked builder asks the plain builder to do)."""
    trusted = True
    types = {"args": "Seq[Union[Node, OutPort]]", "metadata": "Opt[Dict[str, Any]]"}
    returns = "Node"

    def modifies(self, op, args, metadata):
        return [self._tr_op, self._tr_wires, self._tr_meta, self._tr_node, self.hugr._nodes, self.hugr._links.fwd, self.hugr._links.bck, self.hugr._free_nodes]

    def raises(self, op, args, metadata):
        return {}

    def ensures(self, op, args, metadata, result):
        return {
            "trace_op": eq(self._tr_op, concat(old(self._tr_op), Seq(DataflowOp, op))),
            "trace_wires": eq(self._tr_wires, concat(old(self._tr_wires), Seq("Seq[Union[Node, OutPort]]", args))),
            "trace_meta": eq(self._tr_meta, concat(old(self._tr_meta), Seq("Opt[Dict[str, Any]]", metadata))),
            "trace_node": eq(self._tr_node, concat(old(self._tr_node), Seq(Node, result))),
        }


@contract("hugr.build.dfg.Dfg.set_outputs", props=[])
class set_outputs:
    """TRUSTED: records the wires it was given."""
    trusted = True
    types = {"outputs": "Seq[Union[Node, OutPort]]"}

    def modifies(self, outputs):
        return [self._tr_outs, self.hugr._nodes, self.hugr._links.fwd, self.hugr._links.bck]

    def raises(self, outputs):
        return {}

    def ensures(self, outputs, result):
        return {"trace_outs": eq(self._tr_outs, concat(old(self._tr_outs), Seq("Seq[Union[Node, OutPort]]", outputs)))}


# ---- the tracked builder ---------------------------------------------------------------------
@contract("hugr.build.tracked_dfg.TrackedDfg.add", props=["C15"])
class add:
    types = {"metadata": "Opt[Dict[str, Any]]"}

    def requires(self, com, metadata):
        # the error case (some integer argument is not tracked) is tracked_wire's IndexError: C13
        return all_valid(self.tracked, com.incoming)

    def modifies(self, com, metadata):
        return [self.tracked, self._tr_op, self._tr_wires, self._tr_meta, self._tr_node, self.hugr._nodes, self.hugr._links.fwd, self.hugr._links.bck, self.hugr._free_nodes]

    def raises(self, com, metadata):
        return {}

    def loop_1(self, com, metadata, n, _i1):
        t0 = old(self.tracked)
        cs = com.incoming
        k = _i1
        return {
            # ghost: last_naming(j, k) = position of the last of the first k arguments that is an integer
            # naming slot j, or -1 (primitive recursion on k; the two defining equations are assumed)
            "A_last_0": forall(int, lambda j: last_naming(t0, cs, j, 0) == -1),
            "A_last_step": implies(k < len(cs), forall(int, lambda j: last_naming(t0, cs, j, k + 1) == ite(denotes(t0, cs, k, j), k, last_naming(t0, cs, j, k)))),
            "last_none": forall((int, int), lambda j, p: implies(last_naming(t0, cs, j, k) == -1 and 0 <= p and p < k, not denotes(t0, cs, p, j))),
            "last_some": forall(int, lambda j: last_naming(t0, cs, j, k) == -1 or (0 <= last_naming(t0, cs, j, k) and last_naming(t0, cs, j, k) < k and denotes(t0, cs, last_naming(t0, cs, j, k), j))),
            "last_is_last": forall((int, int), lambda j, q: implies(last_naming(t0, cs, j, k) < q and q < k, not denotes(t0, cs, q, j))),
            "len": len(self.tracked) == len(t0),
            "slots": forall(int, lambda j: implies(0 <= j and j < len(t0),
                                                  ite(last_naming(t0, cs, j, k) == -1, eq(nth(self.tracked, j), nth(t0, j)),
                                                      notNone(nth(self.tracked, j)) and eq(the(nth(self.tracked, j)), OutPort(n, last_naming(t0, cs, j, k)))))),
        }

    def ensures(self, com, metadata, result):
        t0 = old(self.tracked)
        cs = com.incoming
        m = len(cs)
        last_w = nth(self._tr_wires, len(self._tr_wires) - 1)
        return {
            # the explicit program's call: same op, the wires tracked at the integer arguments, same metadata
            "P_one_call": len(self._tr_op) == len(old(self._tr_op)) + 1,
            "P_same_op": eq(nth(self._tr_op, len(self._tr_op) - 1), com.op),
            "P_same_metadata": eq(nth(self._tr_meta, len(self._tr_meta) - 1), metadata),
            "P_wires_resolved": len(last_w) == m and forall(int, lambda p: implies(0 <= p and p < m, eq(nth(last_w, p), resolved(t0, nth(cs, p))))),
            "P_returns_new_node": eq(result, nth(self._tr_node, len(self._tr_node) - 1)),
            # rebinding: a slot named by an integer argument now holds the new node's output at the
            # position of the (last) argument naming it; every other slot is untouched
            "P_len": len(self.tracked) == len(t0),
            "P_untouched": forall(int, lambda j: implies(0 <= j and j < len(t0) and forall(int, lambda p: implies(0 <= p and p < m, not denotes(t0, cs, p, j))),
                                                         eq(nth(self.tracked, j), nth(t0, j)))),
            "P_rebound": forall((int, int), lambda j, p: implies(0 <= j and j < len(t0) and 0 <= p and p < m and denotes(t0, cs, p, j)
                                                                and forall(int, lambda q: implies(p < q and q < m, not denotes(t0, cs, q, j))),
                                                                notNone(nth(self.tracked, j)) and eq(the(nth(self.tracked, j)), OutPort(result, p)))),
        }


@contract("hugr.build.tracked_dfg.TrackedDfg.set_indexed_outputs", props=["C15"])
class set_indexed_outputs:
    types = {"in_wires": "Seq[Union[Node, OutPort, int]]"}

    def requires(self, in_wires):
        return all_valid(self.tracked, in_wires)

    def modifies(self, in_wires):
        return [self._tr_outs, self.hugr._nodes, self.hugr._links.fwd, self.hugr._links.bck]

    def raises(self, in_wires):
        return {}

    def ensures(self, in_wires, result):
        last = nth(self._tr_outs, len(self._tr_outs) - 1)
        return {
            "P_one_call": len(self._tr_outs) == len(old(self._tr_outs)) + 1,
            "P_outputs_resolved": len(last) == len(in_wires) and forall(int, lambda p: implies(0 <= p and p < len(in_wires), eq(nth(last, p), resolved(self.tracked, nth(in_wires, p))))),
        }
