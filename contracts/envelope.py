"""Contracts for hugr/envelope.py and the envelope entry points of hugr/package.py (C09).

Library functions are assumed (each listed in the evidence):
  utf8_encode / utf8_decode   str.encode / bytes.decode: decode(encode(s)) == s
  zcompress / zdecompress     pyzstd: decompress(compress(b, level)) == b
  json_dump / json_validate   pydantic model_dump_json / model_validate_json: validate(encode(dump(m))) ~ m
"""
from pyvc.dsl import *  # noqa: F401,F403

value_classes = [
    "hugr.envelope.EnvelopeHeader",
    "hugr.envelope.EnvelopeConfig",
]
class_aliases = {
    "EnvelopeHeader": "hugr.envelope.EnvelopeHeader",
    "EnvelopeConfig": "hugr.envelope.EnvelopeConfig",
    "EnvelopeFormat": "hugr.envelope.EnvelopeFormat",
    "Package": "hugr.package.Package",
    "SPackage": "hugr._serialization.extension.Package",
}


@spec
def magic():
    # b"HUGRiHJv" -- the documented magic number; the obligation `P_magic` ties the literal in the
    # source to it
    return Seq(int, 72, 85, 71, 82, 105, 72, 74, 118)


@spec
def fmt_value(f):
    return ite(f == EnvelopeFormat.MODULE, 1, ite(f == EnvelopeFormat.MODULE_WITH_EXTS, 2, 63))


@spec
def header_ok(data):
    return len(data) >= 10 and eq(sub(data, 0, 8), magic()) and (nth(data, 8) == 1 or nth(data, 8) == 2 or nth(data, 8) == 63)


@spec
def header_bytes(fmt, zstd):
    """The documented 10 byte header: magic, format byte, flags (bit 0 = zstd, bits 7,6 = 0,1)."""
    return concat(magic(), Seq(int, fmt_value(fmt), ite(zstd, 65, 64)))


# ------------------------------------------------------------------------------------------
@contract("hugr.envelope.EnvelopeFormat.ascii_printable", props=["C09"])
class ascii_printable:
    def modifies(self):
        return []

    def raises(self):
        return {}

    def ensures(self, result):
        return {"P_only_json": result == (self == EnvelopeFormat.JSON)}


@contract("hugr.envelope.EnvelopeHeader.to_bytes", props=["C09"])
class to_bytes:
    returns = "Bytes"

    def modifies(self):
        return []

    def raises(self):
        return {}

    def ensures(self, result):
        return {
            "P_len": len(result) == 10,
            "P_magic": eq(sub(result, 0, 8), magic()),
            "P_format": nth(result, 8) == fmt_value(self.format),
            "P_flags": nth(result, 9) == ite(self.zstd, 65, 64),
            "whole": eq(result, header_bytes(self.format, self.zstd)),
        }


@contract("hugr.envelope.EnvelopeHeader.from_bytes", props=["C09"])
class from_bytes:
    returns = "EnvelopeHeader"

    def modifies(data):
        return []

    def raises(data):
        return {ValueError: not header_ok(data)}

    def ensures(data, result):
        return {
            "P_format": fmt_value(result.format) == nth(data, 8),
            "P_zstd": result.zstd == (nth(data, 9) % 2 == 1),
        }


@contract("hugr.envelope.EnvelopeConfig._make_header", props=["C09"])
class make_header:
    returns = "EnvelopeHeader"

    def modifies(self):
        return []

    def raises(self):
        return {}

    def ensures(self, result):
        return {"P_format": result.format == self.format,
                "P_zstd": result.zstd == notNone(self.zstd)}   # level 0 counts as compressed


@spec
def payload_of(package, config):
    raw = ghost("utf8_encode", "Bytes", ghost("json_dump", "str", ghost("pkg_serial", "Any", package)))
    return ite(notNone(config.zstd), ghost("zcompress", "Bytes", raw, the(config.zstd)), raw)


@contract("hugr.package.Package._to_serial", props=[])
class package_to_serial:
    """Assumed here (the package/extension/HUGR codecs are C02 / C10): an opaque serial value."""
    trusted = True
    returns = "Any"

    def modifies(self):
        return []

    def raises(self):
        return {}

    def ensures(self, result):
        return {"serial": eq(result, ghost("pkg_serial", "Any", self))}


@contract("hugr.envelope.make_envelope", props=["C09"])
class make_envelope:
    returns = "Bytes"

    def requires(package, config):
        # configurations that can be encoded offline: JSON (MODULE formats need the native module)
        return config.format == EnvelopeFormat.JSON and (isNone(config.zstd) or the(config.zstd) >= 0)

    def modifies(package, config):
        return []

    def raises(package, config):
        return {}

    def ensures(package, config, result):
        return {
            "P_header": eq(sub(result, 0, 10), header_bytes(config.format, notNone(config.zstd))),
            "P_payload": eq(result, concat(header_bytes(config.format, notNone(config.zstd)), payload_of(package, config))),
        }


@contract("hugr.envelope.make_envelope_str", props=["C09"])
class make_envelope_str:
    def requires(package, config):
        return isNone(config.zstd) or the(config.zstd) >= 0

    def modifies(package, config):
        return []

    def raises(package, config):
        env = concat(header_bytes(config.format, notNone(config.zstd)), payload_of(package, config))
        return {
            # text encoding is offered only for ASCII-printable formats -- decided before anything is encoded
            ValueError: config.format != EnvelopeFormat.JSON,
            # a compressed payload need not be valid UTF-8: that configuration cannot be encoded as text
            UnicodeDecodeError: config.format == EnvelopeFormat.JSON and not ghost("utf8_valid", "bool", env),
        }

    def ensures(package, config, result):
        return {"P_text_of_bytes": eq(ghost("utf8_encode", "Bytes", result),
                                      concat(header_bytes(config.format, notNone(config.zstd)), payload_of(package, config)))}


@contract("hugr._serialization.extension.Package.deserialize", props=[])
class spackage_deserialize:
    """Assumed here (C02 / C10 cover the HUGR and extension decoders)."""
    trusted = True
    returns = "Package"

    def modifies(self):
        return []

    def raises(self):
        return {}

    def ensures(self, result):
        return {"deser": eq(result, ghost("pkg_deserialize", "Package", self))}


@contract("hugr.envelope.read_envelope", props=["C09"])
class read_envelope:
    returns = "Package"

    def modifies(envelope):
        return []

    def raises(envelope):
        return {ValueError: not header_ok(envelope) or nth(envelope, 8) != 63}

    def ensures(envelope, result):
        body = sub(envelope, 10, len(envelope) - 10)
        payload = ite(nth(envelope, 9) % 2 == 1, ghost("zdecompress", "Bytes", body), body)
        return {"P_decoded_payload": eq(result, ghost("pkg_deserialize", "Package", ghost("json_validate_Package", "SPackage", payload)))}


@contract("hugr.envelope.read_envelope_str", props=["C09"])
class read_envelope_str:
    returns = "Package"

    def modifies(envelope):
        return []

    def raises(envelope):
        b = ghost("utf8_encode", "Bytes", envelope)
        return {ValueError: not header_ok(b) or nth(b, 8) != 63}

    def ensures(envelope, result):
        b = ghost("utf8_encode", "Bytes", envelope)
        body = sub(b, 10, len(b) - 10)
        payload = ite(nth(b, 9) % 2 == 1, ghost("zdecompress", "Bytes", body), body)
        return {"P_decoded_payload": eq(result, ghost("pkg_deserialize", "Package", ghost("json_validate_Package", "SPackage", payload)))}


# ------------------------------------------------------------------------------------------
@lemma
def header_round_trip(fmt: "EnvelopeFormat", zstd: "bool", payload: "Bytes"):
    """from_bytes(to_bytes(h) ++ payload) == h, and a header is never mistaken for a shorter input."""
    d = concat(header_bytes(fmt, zstd), payload)
    return {
        "P_accepts": header_ok(d),
        "P_format": nth(d, 8) == fmt_value(fmt),
        "P_zstd": (nth(d, 9) % 2 == 1) == zstd,
        "P_bits76": nth(d, 9) // 64 == 1 and (nth(d, 9) % 64) // 2 == 0,
        "P_payload": eq(sub(d, 10, len(d) - 10), payload),
    }


@lemma
def ascii_header(zstd: "bool"):
    """For the ASCII-printable format every header byte is printable ASCII (0x20..0x7E)."""
    d = header_bytes(EnvelopeFormat.JSON, zstd)
    return {"P_printable": forall(int, lambda i: implies(0 <= i and i < 10, 32 <= nth(d, i) and nth(d, i) <= 126))}


@lemma
def envelope_round_trip(package: "Any", fmt: "EnvelopeFormat", level: "Opt[int]"):
    """Composition over the two contracts and the assumed library inverses: decoding what was
    encoded hands exactly the original serial document to the package decoder."""
    raw = ghost("utf8_encode", "Bytes", ghost("json_dump", "str", ghost("pkg_serial", "Any", package)))
    pay = ite(notNone(level), ghost("zcompress", "Bytes", raw, the(level)), raw)
    env = concat(header_bytes(EnvelopeFormat.JSON, notNone(level)), pay)
    body = sub(env, 10, len(env) - 10)
    got = ite(nth(env, 9) % 2 == 1, ghost("zdecompress", "Bytes", body), body)
    inv = forall((Bytes, int), lambda b, l: eq(ghost("zdecompress", "Bytes", ghost("zcompress", "Bytes", b, l)), b))
    return {"P_same_payload": implies(inv, header_ok(env) and nth(env, 8) == 63 and eq(got, raw))}


# ------------------------------------------------------------------------------------------
# hugr/package.py entry points: thin wrappers; the default configuration is JSON, uncompressed
@spec
def cfg_or_default(config):
    return ite(isNone(config), EnvelopeConfig(EnvelopeFormat.JSON, None), the(config))


@contract("hugr.package.Package.to_bytes", props=["C09"])
class package_to_bytes:
    returns = "Bytes"

    def requires(self, config):
        c = cfg_or_default(config)
        return c.format == EnvelopeFormat.JSON and (isNone(c.zstd) or the(c.zstd) >= 0)

    def modifies(self, config):
        return []

    def raises(self, config):
        return {}

    def ensures(self, config, result):
        c = cfg_or_default(config)
        return {"P_envelope": eq(result, concat(header_bytes(c.format, notNone(c.zstd)), payload_of(self, c)))}


@contract("hugr.package.Package.to_str", props=["C09"])
class package_to_str:
    def requires(self, config):
        c = cfg_or_default(config)
        return isNone(c.zstd) or the(c.zstd) >= 0

    def modifies(self, config):
        return []

    def raises(self, config):
        c = cfg_or_default(config)
        env = concat(header_bytes(c.format, notNone(c.zstd)), payload_of(self, c))
        return {ValueError: c.format != EnvelopeFormat.JSON,
                UnicodeDecodeError: c.format == EnvelopeFormat.JSON and not ghost("utf8_valid", "bool", env)}

    def ensures(self, config, result):
        c = cfg_or_default(config)
        return {"P_text_of_bytes": eq(ghost("utf8_encode", "Bytes", result), concat(header_bytes(c.format, notNone(c.zstd)), payload_of(self, c)))}


@contract("hugr.package.Package.from_bytes", props=["C09"])
class package_from_bytes:
    returns = "Package"

    def modifies(envelope):
        return []

    def raises(envelope):
        return {ValueError: not header_ok(envelope) or nth(envelope, 8) != 63}

    def ensures(envelope, result):
        body = sub(envelope, 10, len(envelope) - 10)
        payload = ite(nth(envelope, 9) % 2 == 1, ghost("zdecompress", "Bytes", body), body)
        return {"P_decoded_payload": eq(result, ghost("pkg_deserialize", "Package", ghost("json_validate_Package", "SPackage", payload)))}


@contract("hugr.package.Package.from_str", props=["C09"])
class package_from_str:
    returns = "Package"

    def modifies(envelope):
        return []

    def raises(envelope):
        b = ghost("utf8_encode", "Bytes", envelope)
        return {ValueError: not header_ok(b) or nth(b, 8) != 63}

    def ensures(envelope, result):
        b = ghost("utf8_encode", "Bytes", envelope)
        body = sub(b, 10, len(b) - 10)
        payload = ite(nth(b, 9) % 2 == 1, ghost("zdecompress", "Bytes", body), body)
        return {"P_decoded_payload": eq(result, ghost("pkg_deserialize", "Package", ghost("json_validate_Package", "SPackage", payload)))}
