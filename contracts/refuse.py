"""Contracts for the refusal points of the builders (property C13): each listed inconsistency makes
the responsible function raise the documented error - stated as `raises` clauses with the exact
condition (so neither a silently accepting nor an over-eager variant passes).
"""
from pyvc.dsl import *  # noqa: F401,F403

class_aliases = {
    "PolyFuncType": "hugr.tys.PolyFuncType", "FunctionType": "hugr.tys.FunctionType", "TypeArg": "hugr.tys.TypeArg", "Type": "hugr.tys.Type",
    "Conditional": "hugr.build.cond_loop.Conditional", "Case": "hugr.build.cond_loop.Case", "Node": "hugr.hugr.node_port.Node", "OutPort": "hugr.hugr.node_port.OutPort",
}
field_types = {"hugr.build.cond_loop.Conditional._case_builders": "Seq[Tup[Case, bool]]"}


@contract("hugr.ops._CallOrLoad.__init__", props=["C13"])
class call_or_load_init:
    types = {"type_args": "Opt[Seq[TypeArg]]"}
    exact_self = False

    def modifies(self, signature, instantiation, type_args):
        return [self.signature, self.instantiation, self.type_args]

    def raises(self, signature, instantiation, type_args):
        n = len(signature.params)
        k = ite(isNone(type_args), 0, len(the(type_args)))
        # a polymorphic function needs an instantiation and one type argument per parameter
        return {hugr.ops.NoConcreteFunc: n > 0 and (isNone(instantiation) or n != k)}

    def ensures(self, signature, instantiation, type_args, result):
        n = len(signature.params)
        return {"P_signature": same_obj(self.signature, signature),
                "P_monomorphic_uses_body": implies(n == 0, same_obj(self.instantiation, signature.body) and len(self.type_args) == 0),
                "P_polymorphic_uses_given": implies(n > 0, same_obj(self.instantiation, the(instantiation)) and eq(self.type_args, the(type_args)))}


@contract("hugr.ops._check_complete", props=["C13"])
class check_complete:
    types = {"op": "Any", "v": "Opt[Any]"}
    returns = "Any"

    def modifies(op, v):
        return []

    def raises(op, v):
        return {hugr.ops.IncompleteOp: isNone(v)}

    def ensures(op, v, result):
        return {"P_value": eq(result, the(v))}


@contract("hugr.build.cond_loop.Conditional.add_case", props=["C13"])
class add_case:
    returns = "Case"

    def modifies(self, case_id):
        return [self._case_builders]

    def raises(self, case_id):
        n = len(self._case_builders)
        return {hugr.build.cond_loop.ConditionalError: not (0 <= case_id and case_id < n) or nth(self._case_builders, case_id)[1]}

    def raises_ensures(self, case_id):
        return {"P_unchanged_on_error": eq(self._case_builders, old(self._case_builders))}

    def ensures(self, case_id, result):
        b0 = old(self._case_builders)
        return {"P_marks_built": len(self._case_builders) == len(b0) and nth(self._case_builders, case_id)[1] and same_obj(nth(self._case_builders, case_id)[0], nth(b0, case_id)[0]),
                "P_returns_that_case": same_obj(result, nth(b0, case_id)[0]),
                "P_others_kept": forall(int, lambda i: implies(0 <= i and i < len(b0) and i != case_id, eq(nth(self._case_builders, i), nth(b0, i))))}


@contract("hugr.build.cond_loop.Conditional.__exit__", props=["C13"])
class conditional_exit:
    types = {"args": "Seq[Any]"}

    def modifies(self, args):
        return []

    def raises(self, args):
        return {hugr.build.cond_loop.ConditionalError: exists(int, lambda i: 0 <= i and i < len(self._case_builders) and not nth(self._case_builders, i)[1])}

    def ensures(self, args, result):
        return {}
