"""Contracts for the refusal points of the builders (property C13): each listed inconsistency makes
the responsible function raise the documented error - stated as `raises` clauses with the exact
condition (so neither a silently accepting nor an over-eager variant passes).
"""
from pyvc.dsl import *  # noqa: F401,F403

class_aliases = {
    "PolyFuncType": "hugr.tys.PolyFuncType", "FunctionType": "hugr.tys.FunctionType", "TypeArg": "hugr.tys.TypeArg", "Type": "hugr.tys.Type",
    "Conditional": "hugr.build.cond_loop.Conditional", "Case": "hugr.build.cond_loop.Case", "Node": "hugr.hugr.node_port.Node", "OutPort": "hugr.hugr.node_port.OutPort",
}
field_types = {"hugr.build.cond_loop.Conditional._case_builders": "Seq[Tup[Case, bool]]"}


@contract("hugr.ops._CallOrLoad.__init__", props=["C13"])
class call_or_load_init:
    types = {"type_args": "Opt[Seq[TypeArg]]"}
    exact_self = False

    def modifies(self, signature, instantiation, type_args):
        return [self.signature, self.instantiation, self.type_args]

    def raises(self, signature, instantiation, type_args):
        n = len(signature.params)
        k = ite(isNone(type_args), 0, len(the(type_args)))
        # a polymorphic function needs an instantiation and one type argument per parameter
        return {hugr.ops.NoConcreteFunc: n > 0 and (isNone(instantiation) or n != k)}

    def ensures(self, signature, instantiation, type_args, result):
        n = len(signature.params)
        return {"P_signature": same_obj(self.signature, signature),
                "P_monomorphic_uses_body": implies(n == 0, same_obj(self.instantiation, signature.body) and len(self.type_args) == 0),
                "P_polymorphic_uses_given": implies(n > 0, same_obj(self.instantiation, the(instantiation)) and eq(self.type_args, the(type_args)))}


@contract("hugr.ops._check_complete", props=["C13"])
class check_complete:
    types = {"op": "Any", "v": "Opt[Any]"}
    returns = "Any"

    def modifies(op, v):
        return []

    def raises(op, v):
        return {hugr.ops.IncompleteOp: isNone(v)}

    def ensures(op, v, result):
        return {"P_value": eq(result, the(v))}


@contract("hugr.build.cond_loop.Conditional.add_case", props=["C13"])
class add_case:
    returns = "Case"

    def modifies(self, case_id):
        return [self._case_builders]

    def raises(self, case_id):
        n = len(self._case_builders)
        return {hugr.build.cond_loop.ConditionalError: not (0 <= case_id and case_id < n) or nth(self._case_builders, case_id)[1]}

    def raises_ensures(self, case_id):
        return {"P_unchanged_on_error": eq(self._case_builders, old(self._case_builders))}

    def ensures(self, case_id, result):
        b0 = old(self._case_builders)
        return {"P_marks_built": len(self._case_builders) == len(b0) and nth(self._case_builders, case_id)[1] and same_obj(nth(self._case_builders, case_id)[0], nth(b0, case_id)[0]),
                "P_returns_that_case": same_obj(result, nth(b0, case_id)[0]),
                "P_others_kept": forall(int, lambda i: implies(0 <= i and i < len(b0) and i != case_id, eq(nth(self._case_builders, i), nth(b0, i))))}


@contract("hugr.build.cond_loop.Conditional.__exit__", props=["C13"])
class conditional_exit:
    types = {"args": "Seq[Any]"}

    def modifies(self, args):
        return []

    def raises(self, args):
        return {hugr.build.cond_loop.ConditionalError: exists(int, lambda i: 0 <= i and i < len(self._case_builders) and not nth(self._case_builders, i)[1])}

    def ensures(self, args, result):
        return {}


# ---- conditional cases must agree on their outputs ----------------------------------------------
@contract("hugr.hugr.base.Hugr._update_node_outs", props=[])
class update_node_outs:
    """TRUSTED here (its effect on the store is the subject of C04 / C16): returns a handle for the same node."""
    trusted = True
    types = {"node": "Node", "num_outs": "Opt[int]"}
    returns = "Node"

    def modifies(self, node, num_outs):
        return [self._nodes]

    def raises(self, node, num_outs):
        return {}

    def ensures(self, node, num_outs, result):
        return {"same_node": result.idx == node.idx}


@contract("hugr.build.cond_loop.Conditional.parent_op", props=[])
class conditional_parent_op:
    """TRUSTED (property of ParentBuilder, read through the graph store): the operation object of the builder's root
    node, named by a ghost function of the graph and the node index - assumed stable, i.e. nothing replaces the
    operation object of the root node while the builder is used (its fields may be written)."""
    trusted = True
    returns = "hugr.ops.Conditional"

    def modifies(self):
        return []

    def raises(self):
        return {}

    def ensures(self, result):
        return {"named": same_obj(result, ghost("root_op_of", "hugr.ops.Conditional", self.hugr, self.parent_node.idx))}


@contract("hugr.build.cond_loop.Conditional._update_outputs", props=["C13"])
class update_outputs:
    types = {"outputs": "Seq[Type]"}

    def modifies(self, outputs):
        return [self.parent_op._outputs, self.parent_node, self.hugr._nodes]

    def raises(self, outputs):
        # a row has been established (an *empty* row counts) and this case's row differs from it
        return {hugr.build.cond_loop.ConditionalError: notNone(self.parent_op._outputs) and outputs != the(self.parent_op._outputs)}

    def raises_ensures(self, outputs):
        return {"P_nothing_recorded_on_error": eq(self.parent_op._outputs, old(self.parent_op._outputs))}

    def ensures(self, outputs, result):
        o0 = old(self.parent_op._outputs)
        return {"P_first_row_is_established": implies(isNone(o0), notNone(self.parent_op._outputs) and eq(the(self.parent_op._outputs), outputs)),
                "P_established_row_is_kept": implies(notNone(o0), eq(self.parent_op._outputs, o0)),
                "P_same_conditional_node": self.parent_node.idx == old(self.parent_node).idx}


# ---- a function's outputs must be its declared outputs ------------------------------------------
@contract("hugr.build.dfg.Function.parent_op", props=[])
class function_parent_op:
    """TRUSTED, as Conditional.parent_op above."""
    trusted = True
    returns = "hugr.ops.FuncDefn"

    def modifies(self):
        return []

    def raises(self):
        return {}

    def ensures(self, result):
        return {"named": same_obj(result, ghost("root_op_of_fn", "hugr.ops.FuncDefn", self.hugr, self.parent_node.idx))}


@spec
def dtype(b, w):
    """ghost: the type the graph reports for the wire (the result of _get_dataflow_type)"""
    return ghost("dataflow_type_of", "Type", b.hugr, w)


@contract("hugr.build.dfg.DfBase._get_dataflow_type", props=[])
class get_dataflow_type_named:
    """TRUSTED: names its result; raises ValueError for a port that carries no dataflow type (condition left open here,
    it is the subject of the port-kind contracts of C06)."""
    trusted = True
    exact_self = False
    types = {"wire": "Union[Node, OutPort]"}
    returns = "Type"
    may_raise = ["ValueError"]

    def modifies(self, wire):
        return []

    def raises(self, wire):
        return {}

    def ensures(self, wire, result):
        return {"A_named": same_obj(result, dtype(self, wire))}


@contract("hugr.build.dfg.DfBase.set_outputs", props=[])
class dfbase_set_outputs:
    """TRUSTED: the plain builder's set_outputs (wiring and port counts are the subject of C01 / C04); it may refuse a wire."""
    trusted = True
    exact_self = False
    types = {"args": "Seq[Union[Node, OutPort]]"}
    may_raise = ["ValueError", "hugr.exceptions.NoSiblingAncestor"]

    def modifies(self, args):
        return [self.hugr._nodes, self.hugr._links.fwd, self.hugr._links.bck]

    def raises(self, args):
        return {}

    def ensures(self, args, result):
        return {}


@contract("hugr.build.dfg.Function.set_outputs", props=["C13"])
class function_set_outputs:
    types = {"args": "Seq[Union[Node, OutPort]]"}
    may_raise = ["ValueError", "hugr.exceptions.NoSiblingAncestor"]      # a wire the plain builder refuses / a port without a dataflow type

    def modifies(self, args):
        return [self.hugr._nodes, self.hugr._links.fwd, self.hugr._links.bck]

    def raises(self, args):
        # outputs have been declared and the row of the wires' types is not the declared row
        # (element by element, and in length - a shorter or longer row differs)
        declared = self.parent_op._outputs
        return {ValueError: notNone(declared) and (len(args) != len(the(declared))
                                                  or exists(int, lambda i: 0 <= i and i < len(args) and i < len(the(declared)) and dtype(self, nth(args, i)) != nth(the(declared), i)))}

    def ensures(self, args, result):
        return {"P_declaration_kept": eq(self.parent_op._outputs, old(self.parent_op._outputs))}


# ---- every branch to the exit block agrees with the established exit row --------------------------
@contract("hugr.build.cfg.Cfg._exit_op", props=[])
class cfg_exit_op:
    """TRUSTED accessor (as parent_op): the operation object of the exit block."""
    trusted = True
    returns = "hugr.ops.ExitBlock"

    def modifies(self):
        return []

    def raises(self):
        return {}

    def ensures(self, result):
        return {"named": same_obj(result, ghost("exit_op_of", "hugr.ops.ExitBlock", self.hugr, self.exit.idx))}


@contract("hugr.build.cfg.Cfg.parent_op", props=[])
class cfg_parent_op:
    trusted = True
    returns = "hugr.ops.CFG"

    def modifies(self):
        return []

    def raises(self):
        return {}

    def ensures(self, result):
        return {"named": same_obj(result, ghost("root_op_of_cfg", "hugr.ops.CFG", self.hugr, self.parent_node.idx))}


@spec
def outport_of(w):
    """the port a wire denotes (Wire.out_port): the port itself, or output 0 of a node"""
    return ite(cls_is(w, OutPort), as_cls(w, OutPort), OutPort(as_cls(w, Node), 0))


@spec
def succ_row(b, w):
    """ghost: the row a block hands to the successor reached through wire w (the result of Cfg._nth_outputs)"""
    return ghost("successor_row_of", "Seq[Type]", b.hugr, outport_of(w))


@contract("hugr.build.cfg.Cfg._nth_outputs", props=[])
class cfg_nth_outputs:
    """TRUSTED: names its result (Block successor rows are the subject of C06); may refuse a wire that is not a block's."""
    trusted = True
    types = {"wire": "Union[Node, OutPort]"}
    returns = "Seq[Type]"
    may_raise = ["TypeError", "hugr.ops.IncompleteOp"]

    def modifies(self, wire):
        return []

    def raises(self, wire):
        return {}

    def ensures(self, wire, result):
        return {"A_named": eq(result, succ_row(self, wire))}


@contract("hugr.hugr.base.Hugr.add_link", props=[])
class add_link_trusted:
    """TRUSTED here (C04 proves it): adds the link."""
    trusted = True
    types = {"src": "OutPort", "dst": "hugr.hugr.node_port.InPort"}

    def modifies(self, src, dst):
        return [self._links.fwd, self._links.bck, self._nodes]

    def raises(self, src, dst):
        return {}

    def ensures(self, src, dst, result):
        return {}


@contract("hugr.build.cfg.Cfg.branch_exit", props=["C13"])
class branch_exit:
    types = {"src": "Union[Node, OutPort]"}
    may_raise = ["TypeError", "hugr.ops.IncompleteOp"]

    def modifies(self, src):
        return [self._exit_op._cfg_outputs, self.parent_op._outputs, self.parent_node, self.hugr._nodes, self.hugr._links.fwd, self.hugr._links.bck]

    def raises(self, src):
        return {hugr.exceptions.MismatchedExit: notNone(self._exit_op._cfg_outputs) and the(self._exit_op._cfg_outputs) != succ_row(self, src)}

    def raises_ensures(self, src):
        return {"P_exit_row_unchanged_on_error": eq(self._exit_op._cfg_outputs, old(self._exit_op._cfg_outputs))}

    def ensures(self, src, result):
        w = src
        e0 = old(self._exit_op._cfg_outputs)
        return {"P_first_branch_establishes_the_exit_row": implies(isNone(e0), notNone(self._exit_op._cfg_outputs) and eq(the(self._exit_op._cfg_outputs), succ_row(self, w))
                                                                   and notNone(self.parent_op._outputs) and eq(the(self.parent_op._outputs), succ_row(self, w))),
                "P_established_exit_row_is_kept": implies(notNone(e0), eq(self._exit_op._cfg_outputs, e0))}


# ---- Case.set_outputs hands the row of its wires' types to the conditional ---------------------------------
@spec
def wire_row(b, ws):
    """ghost: the row of types of a list of wires (DfBase._wire_types)"""
    return ghost("row_of_wires", "Seq[Type]", b.hugr, ws)


@contract("hugr.build.dfg.DfBase._wire_types", props=[])
class wire_types_named:
    """TRUSTED: names its result; may refuse a port without a dataflow type."""
    trusted = True
    exact_self = False
    types = {"args": "Seq[Union[Node, OutPort]]"}
    returns = "Seq[Type]"
    may_raise = ["ValueError"]

    def modifies(self, args):
        return []

    def raises(self, args):
        return {}

    def ensures(self, args, result):
        return {"A_named": eq(result, wire_row(self, args))}


@contract("hugr.build.cond_loop.Case.set_outputs", props=["C13"])
class case_set_outputs:
    types = {"outputs": "Seq[Union[Node, OutPort]]"}
    may_raise = ["ValueError", "hugr.exceptions.NoSiblingAncestor"]

    def modifies(self, outputs):
        # (the conditional's graph is this case's graph, but nothing here says so: the node tables are named by field)
        return ["hugr.hugr.base.Hugr._nodes", self.hugr._links.fwd, self.hugr._links.bck, "hugr.ops.Conditional._outputs", "hugr.build.base.ParentBuilder.parent_node"]

    def raises(self, outputs):
        # the conditional this case belongs to has an established row (an empty one counts) and this case's row differs
        c = self._parent_cond
        return {hugr.build.cond_loop.ConditionalError: notNone(c) and notNone(the(c).parent_op._outputs) and wire_row(self, outputs) != the(the(c).parent_op._outputs)}

    def ensures(self, outputs, result):
        return {}
