"""PARKED (not loaded by any check): contract written for DfBase.add.  The body defines a nested function and passes a
generator expression that calls it as star-arguments to add_op; the engine stops with `unsupported: nested def`.
DfBase.add / extend therefore stay with the bounded stand-ins of C01 / C16 (and are trusted recorders in C14/C15).
To be loaded together with contracts/build_io.py (uses aligned, outs_of)."""
from pyvc.dsl import *  # noqa: F401,F403


@contract("hugr.build.dfg.DfBase.add", props=["C01", "C16"])
class add_command:
    """DfBase.add(com) = add_op(com.op, *com.incoming) when the command holds wires only; a command holding an
    integer index is refused with ValueError before anything is added."""
    types = {"com": "hugr.ops.Command", "metadata": "Opt[Dict[str, Any]]"}
    exact_self = False
    returns = "Node"

    def requires(self, com, metadata):
        return aligned(self.hugr) and len(self._tw_node) == len(self._tw_wires)

    def modifies(self, com, metadata):
        return [self.hugr._tn_op, self.hugr._tn_parent, self.hugr._tn_outs, self.hugr._tn_node, self.hugr._nodes, self.hugr._free_nodes,
                self._tw_node, self._tw_wires, self.hugr._links.fwd, self.hugr._links.bck, "hugr.ops.Output._types", "hugr.ops.DataflowOp._g_epoch"]

    def raises(self, com, metadata):
        return {ValueError: exists(int, lambda i: 0 <= i and i < len(com.incoming) and cls_is(nth(com.incoming, i), int))}

    def ensures(self, com, metadata, result):
        h = self.hugr
        n = len(h._tn_op)
        w = len(self._tw_node)
        return {"P_one_node_with_the_command_operation_under_the_container": n == len(old(self.hugr._tn_op)) + 1 and aligned(h) and same_obj(nth(h._tn_op, n - 1), com.op)
                and notNone(nth(h._tn_parent, n - 1)) and the(nth(h._tn_parent, n - 1)).idx == self.parent_node.idx,
                "P_wired_to_the_command_wires_in_order": w == len(old(self._tw_node)) + 1 and len(self._tw_wires) == w
                and nth(self._tw_node, w - 1).idx == nth(h._tn_node, n - 1).idx and len(nth(self._tw_wires, w - 1)) == len(com.incoming),
                "P_handle_is_the_new_node": result.idx == nth(h._tn_node, n - 1).idx,
                "P_handle_knows_the_output_count": notNone(result._num_out_ports) and the(result._num_out_ports) == outs_of(com.op)}
