"""Stated but NOT discharged (solver budget exceeded on the shifting invariants): contract of
Hugr._close_sub_offset_gap.  delete_link / delete_node / _close_sub_offset_gap are covered by the bounded
model-based check of C04 only.  Kept for the record; not loaded by any check."""

@spec
def contig_hole(d, p, g):
    """contiguous except for one missing sub-offset g at port p"""
    return (not has(d, SubPort(p, g)) and g >= 0
            and forall((SubPort, int), lambda k, i: implies(has(d, k), k.sub_offset >= 0 and implies(0 <= i and i <= k.sub_offset, has(d, SubPort(k.port, i)) or (k.port == p and i == g)))))


@spec
def up(x, p, r):
    """sub-port x of the state before the link at (p, r) was removed <- sub-port of the state after"""
    return ite(x.port == p and x.sub_offset >= r, SubPort(x.port, x.sub_offset + 1), x)


@spec
def down(x, p, r):
    return ite(x.port == p and x.sub_offset > r, SubPort(x.port, x.sub_offset - 1), x)


@contract("hugr.hugr.base.Hugr._close_sub_offset_gap", props=["C04"])
class close_sub_offset_gap:
    def requires(self, gap):
        f = self._links.fwd
        b = self._links.bck
        mine = ite(cls_is(gap.port, OutPort), f, b)
        other = ite(cls_is(gap.port, OutPort), b, f)
        return {"bimap": bimap_inv(self._links), "hole": contig_hole(mine, gap.port, gap.sub_offset), "other_contiguous": contiguous(other),
                "ends": forall(SubPort, lambda k: implies(has(f, k), cls_is(k.port, OutPort) and cls_is(get(f, k).port, InPort)))}

    def modifies(self, gap):
        return [self._links.fwd, self._links.bck]

    def raises(self, gap):
        return {}

    def loop_1(self, gap, nxt):
        # out-port case: links at (p, j+1) are moved to (p, j) one after the other
        p = old(gap).port
        r = old(gap).sub_offset
        f0 = old(self._links.fwd)
        b0 = old(self._links.bck)
        f = self._links.fwd
        b = self._links.bck
        g = gap.sub_offset
        return {
            "cursor": eq(gap.port, p) and eq(nxt.port, p) and nxt.sub_offset == g + 1 and g >= r and cls_is(p, OutPort),
            "bimap": bimap_inv(self._links),
            "hole_moves_up": contig_hole(f, p, g),
            "other_contiguous": contiguous(b),
            "ends": forall(SubPort, lambda k: implies(has(f, k), cls_is(k.port, OutPort) and cls_is(get(f, k).port, InPort))),
            "fwd_so_far": forall(SubPort, lambda k: ite(k.port == p and k.sub_offset >= r and k.sub_offset < g,
                                                      has(f, k) and has(f0, SubPort(p, k.sub_offset + 1)) and get(f, k) == get(f0, SubPort(p, k.sub_offset + 1)),
                                                      ite(k.port == p and k.sub_offset == g, not has(f, k),
                                                          has(f, k) == has(f0, k) and implies(has(f, k), get(f, k) == get(f0, k))))),
            "bck_so_far": forall(SubPort, lambda v: has(b, v) == has(b0, v) and implies(has(b, v), get(b, v) == ite(get(b0, v).port == p and get(b0, v).sub_offset > r and get(b0, v).sub_offset <= g,
                                                                                                                  SubPort(p, get(b0, v).sub_offset - 1), get(b0, v)))),
        }

    def loop_2(self, gap, nxt):
        p = old(gap).port
        r = old(gap).sub_offset
        f0 = old(self._links.fwd)
        b0 = old(self._links.bck)
        f = self._links.fwd
        b = self._links.bck
        g = gap.sub_offset
        return {
            "cursor": eq(gap.port, p) and eq(nxt.port, p) and nxt.sub_offset == g + 1 and g >= r and cls_is(p, InPort),
            "bimap": bimap_inv(self._links),
            "hole_moves_up": contig_hole(b, p, g),
            "other_contiguous": contiguous(f),
            "ends": forall(SubPort, lambda k: implies(has(f, k), cls_is(k.port, OutPort) and cls_is(get(f, k).port, InPort))),
            "bck_so_far": forall(SubPort, lambda k: ite(k.port == p and k.sub_offset >= r and k.sub_offset < g,
                                                      has(b, k) and has(b0, SubPort(p, k.sub_offset + 1)) and get(b, k) == get(b0, SubPort(p, k.sub_offset + 1)),
                                                      ite(k.port == p and k.sub_offset == g, not has(b, k),
                                                          has(b, k) == has(b0, k) and implies(has(b, k), get(b, k) == get(b0, k))))),
            "fwd_so_far": forall(SubPort, lambda v: has(f, v) == has(f0, v) and implies(has(f, v), get(f, v) == ite(get(f0, v).port == p and get(f0, v).sub_offset > r and get(f0, v).sub_offset <= g,
                                                                                                                  SubPort(p, get(f0, v).sub_offset - 1), get(f0, v)))),
        }

    def ensures(self, gap, result):
        p = gap.port
        r = gap.sub_offset
        f0 = old(self._links.fwd)
        b0 = old(self._links.bck)
        f = self._links.fwd
        b = self._links.bck
        mine = ite(cls_is(p, OutPort), f, b)
        mine0 = ite(cls_is(p, OutPort), f0, b0)
        other = ite(cls_is(p, OutPort), b, f)
        other0 = ite(cls_is(p, OutPort), b0, f0)
        return {
            "inv_bimap": bimap_inv(self._links), "inv_contiguous_mine": contiguous(mine), "inv_contiguous_other": contiguous(other),
            "inv_ends": forall(SubPort, lambda k: implies(has(f, k), cls_is(k.port, OutPort) and cls_is(get(f, k).port, InPort))),
            # the links behind the gap moved down by one, in order; everything else is where it was
            "shifted": forall(SubPort, lambda k: has(mine, k) == has(mine0, up(k, p, r)) and implies(has(mine, k), get(mine, k) == get(mine0, up(k, p, r)))),
            "other_side_rekeyed": forall(SubPort, lambda v: has(other, v) == has(other0, v) and implies(has(other, v), get(other, v) == down(get(other0, v), p, r))),
        }
