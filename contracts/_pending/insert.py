"""NOT DISCHARGED (parked): the symbolic executor handles the real body (56 obligations are generated, 38-43 discharge), but the
preservation of the worklist / mapping invariants and the final node clauses exceed the solver budgets (25 min wall).
Not loaded by any check; insert_hugr stays bounded-only in C08.

Contract of Hugr.insert_hugr (property C08, the isomorphism at the level of calls): the graph-store
mutators are TRUSTED recorders here (ghost traces of add_node / add_link together with the facts
about them that are *proved* in contracts/base.py for C04: the new index was free, live nodes stay
live); BiMap.items is trusted to list the forward map.

  nodes   every node of B reached from its root gets exactly one add_node call with B's operation
          object, output count and metadata, under the image of its parent (the requested parent for
          B's root); the mapping is injective and its values are new nodes of A;
  links   one add_link call per entry of B's link map, in order, between the images of the two
          ports' nodes at the same offsets (multiplicity and order links included);
  frame   B is not written to.
"""
from pyvc.dsl import *  # noqa: F401,F403

value_classes = ["hugr.hugr.node_port._SubPort"]
field_types = {"hugr.hugr.node_port._SubPort.port": "Union[InPort, OutPort]"}
typevar_bindings = {"L": "SubPort", "R": "SubPort", "P": "Union[InPort, OutPort]", "K": "Union[InPort, OutPort]"}
class_aliases = {
    "SubPort": "hugr.hugr.node_port._SubPort", "InPort": "hugr.hugr.node_port.InPort", "OutPort": "hugr.hugr.node_port.OutPort",
    "Node": "hugr.hugr.node_port.Node", "Hugr": "hugr.hugr.base.Hugr", "NodeData": "hugr.hugr.base.NodeData", "BiMap": "hugr.utils.BiMap", "Op": "hugr.ops.Op",
}
extra_fields = {
    # what add_node was asked to create, keyed by the index of the node it returned
    "hugr.hugr.base.Hugr._tn_op": "Dict[int, Op]", "hugr.hugr.base.Hugr._tn_parent": "Dict[int, Opt[Node]]", "hugr.hugr.base.Hugr._tn_outs": "Dict[int, Opt[int]]",
    "hugr.hugr.base.Hugr._tn_meta": "Dict[int, Opt[Dict[str, Any]]]",
    "hugr.hugr.base.Hugr._tl_src": "Seq[OutPort]", "hugr.hugr.base.Hugr._tl_dst": "Seq[InPort]",
}


@spec
def live(h, i):
    return 0 <= i and i < len(h._nodes) and notNone(nth(h._nodes, i))


@spec
def data(h, i):
    return the(nth(h._nodes, i))


@spec
def traces_aligned(h):
    return len(h._tl_src) == len(h._tl_dst)


@contract("hugr.hugr.base.Hugr.add_node", props=[])
class add_node_rec:
    trusted = True
    types = {"parent": "Opt[Node]", "metadata": "Opt[Dict[str, Any]]"}
    returns = "Node"

    def modifies(self, op, parent, num_outs, metadata):
        return [self._nodes, self._free_nodes, self._tn_op, self._tn_parent, self._tn_outs, self._tn_meta,
                "hugr.hugr.base.NodeData.children", "hugr.hugr.base.NodeData._num_outs", "hugr.hugr.base.NodeData._num_inps"]

    def raises(self, op, parent, num_outs, metadata):
        return {}

    def ensures(self, op, parent, num_outs, metadata, result):
        i = result.idx
        return {
            "recorded": has(self._tn_op, i) and same_obj(get(self._tn_op, i), op) and has(self._tn_parent, i) and eq(get(self._tn_parent, i), parent)
            and has(self._tn_outs, i) and eq(get(self._tn_outs, i), num_outs) and has(self._tn_meta, i) and eq(get(self._tn_meta, i), metadata),
            "other_records_kept": forall(int, lambda j: implies(j != i, has(self._tn_op, j) == old(has(self._tn_op, j)) and has(self._tn_parent, j) == old(has(self._tn_parent, j))
                                                               and has(self._tn_outs, j) == old(has(self._tn_outs, j)) and has(self._tn_meta, j) == old(has(self._tn_meta, j))
                                                               and implies(old(has(self._tn_op, j)), same_obj(get(self._tn_op, j), old(get(self._tn_op, j))))
                                                               and implies(old(has(self._tn_parent, j)), eq(get(self._tn_parent, j), old(get(self._tn_parent, j))))
                                                               and implies(old(has(self._tn_outs, j)), eq(get(self._tn_outs, j), old(get(self._tn_outs, j))))
                                                               and implies(old(has(self._tn_meta, j)), eq(get(self._tn_meta, j), old(get(self._tn_meta, j)))))),
            # proved for C04 (contracts/base.py::add_node): the index was free, every live node stays live
            "index_was_free": i >= 0 and not old(live(self, i)) and live(self, i),
            "others_stay_live": forall(int, lambda j: implies(old(live(self, j)), live(self, j))),
        }


@contract("hugr.hugr.base.Hugr.add_link", props=[])
class add_link_rec:
    trusted = True

    def modifies(self, src, dst):
        return [self._tl_src, self._tl_dst, self._links.fwd, self._links.bck, "hugr.hugr.base.NodeData._num_outs", "hugr.hugr.base.NodeData._num_inps"]

    def raises(self, src, dst):
        return {}

    def ensures(self, src, dst, result):
        return {"src": eq(self._tl_src, concat(old(self._tl_src), Seq(OutPort, src))), "dst": eq(self._tl_dst, concat(old(self._tl_dst), Seq(InPort, dst)))}


@contract("hugr.hugr.base.Hugr.__getitem__", props=[])
class getitem:
    """proved in contracts/base.py (C04)"""
    trusted = True
    types = {"key": "Node"}
    returns = "NodeData"

    def modifies(self, key):
        return []

    def raises(self, key):
        return {KeyError: not live(self, key.idx)}

    def ensures(self, key, result):
        return {"lookup": same_obj(result, data(self, key.idx))}


@contract("hugr.utils.BiMap.items", props=[])
class bimap_items:
    """TRUSTED: the items view of the forward dictionary, in its insertion order."""
    trusted = True
    returns = "Seq[Tup[SubPort, SubPort]]"

    def modifies(self):
        return []

    def raises(self):
        return {}

    def ensures(self, result):
        return {"lists_fwd": forall(int, lambda j: implies(0 <= j and j < len(result), has(self.fwd, nth(result, j)[0]) and eq(get(self.fwd, nth(result, j)[0]), nth(result, j)[1]))),
                "all_of_fwd": len(result) == card(self.fwd)}


@spec
def par_image(h, b, parent, mapping, n):
    """where the copy of B's node n must hang: under the image of n's parent, the requested parent for B's root"""
    p = data(b, n.idx).parent
    return ite(isNone(p), parent, get(mapping, the(p)))


@spec
def copied(h, b, parent, mapping, n):
    """the add_node call that returned mapping[n] was asked for B's operation object, output count and metadata,
    under the image of n's parent (the requested parent for B's root)"""
    d = data(b, n.idx)
    i = get(mapping, n).idx
    return (has(h._tn_op, i) and same_obj(get(h._tn_op, i), d.op) and has(h._tn_outs, i) and eq(get(h._tn_outs, i), d._num_outs)
            and has(h._tn_meta, i) and notNone(get(h._tn_meta, i)) and same_obj(the(get(h._tn_meta, i)), d.metadata) and has(h._tn_parent, i)
            and implies(isNone(d.parent), eq(get(h._tn_parent, i), parent))
            and implies(notNone(d.parent), has(mapping, the(d.parent)) and notNone(get(h._tn_parent, i)) and eq(the(get(h._tn_parent, i)), get(mapping, the(d.parent)))))


@contract("hugr.hugr.base.Hugr.insert_hugr", props=["C08"])
class insert_hugr:
    types = {"parent": "Opt[Node]"}
    returns = "Dict[Node, Node]"
    may_raise = ["KeyError", "hugr.exceptions.ParentBeforeChild"]

    def requires(self, hugr, parent):
        return (not same_obj(hugr, self) and traces_aligned(self) and hugr.root.idx >= 0
                # B's hierarchy is well formed where it is visited: children are live and point back to their parent
                and forall(int, lambda i: implies(live(hugr, i), forall(int, lambda c: implies(0 <= c and c < len(data(hugr, i).children),
                           nth(data(hugr, i).children, c).idx >= 0 and live(hugr, nth(data(hugr, i).children, c).idx)
                           and notNone(data(hugr, nth(data(hugr, i).children, c).idx).parent) and the(data(hugr, nth(data(hugr, i).children, c).idx).parent).idx == i)))))

    def modifies(self, hugr, parent):
        return [self._nodes, self._free_nodes, self._tn_op, self._tn_parent, self._tn_outs, self._tn_meta, self._tl_src, self._tl_dst,
                self._links.fwd, self._links.bck, "hugr.hugr.base.NodeData.children", "hugr.hugr.base.NodeData._num_outs", "hugr.hugr.base.NodeData._num_inps"]

    def raises(self, hugr, parent):
        return {}

    def loop_1(self, hugr, parent, mapping, pending):
        return {
            "aligned": traces_aligned(self),
            "root_progress": has(mapping, hugr.root) or (len(pending) == 1 and nth(pending, 0).idx == hugr.root.idx),
            "pending_ok": forall(int, lambda j: implies(0 <= j and j < len(pending), nth(pending, j).idx >= 0 and live(hugr, nth(pending, j).idx)
                                                        and implies(notNone(data(hugr, nth(pending, j).idx).parent), has(mapping, the(data(hugr, nth(pending, j).idx).parent))))),
            "mapped_are_copies": forall(Node, lambda n: implies(has(mapping, n), n.idx >= 0 and live(hugr, n.idx) and copied(self, hugr, parent, mapping, n))),
            "images_are_new_and_live": forall(Node, lambda n: implies(has(mapping, n), live(self, get(mapping, n).idx) and not old(live(self, get(mapping, n).idx)))),
            "injective": forall((Node, Node), lambda a, b: implies(has(mapping, a) and has(mapping, b) and get(mapping, a).idx == get(mapping, b).idx, a.idx == b.idx)),
            "old_nodes_stay": forall(int, lambda j: implies(old(live(self, j)), live(self, j))),
            "links_untouched": eq(self._tl_src, old(self._tl_src)) and eq(self._tl_dst, old(self._tl_dst)),
        }

    def loop_2(self, hugr, parent, mapping, _i2, _seq2):
        lo = len(old(self._tl_src))
        return {
            "aligned": traces_aligned(self) and len(self._tl_src) == lo + _i2,
            "links_so_far": forall(int, lambda j: implies(0 <= j and j < _i2, link_copied(self, mapping, nth(_seq2, j)[0], nth(_seq2, j)[1], lo + j))),
        }

    def ensures(self, hugr, parent, result):
        return {
            "P_mapping_defined_on_the_root": has(result, hugr.root),
            "P_nodes_copied_with_op_count_metadata_under_mapped_parent": forall(Node, lambda n: implies(has(result, n), n.idx >= 0 and live(hugr, n.idx) and copied(self, hugr, parent, result, n))),
            "P_images_are_new_nodes_of_A": forall(Node, lambda n: implies(has(result, n), live(self, get(result, n).idx) and not old(live(self, get(result, n).idx)))),
            "P_mapping_injective": forall((Node, Node), lambda a, b: implies(has(result, a) and has(result, b) and get(result, a).idx == get(result, b).idx, a.idx == b.idx)),
            "P_old_nodes_of_A_stay": forall(int, lambda j: implies(old(live(self, j)), live(self, j))),
        }


@spec
def link_copied(h, mapping, s, d, k):
    """the k-th recorded add_link call joins the images of the two sub-ports' nodes at the same offsets"""
    sp = as_cls(s.port, OutPort)
    dp = as_cls(d.port, InPort)
    return (has(mapping, sp.node) and has(mapping, dp.node)
            and eq(nth(h._tl_src, k).node, get(mapping, sp.node)) and nth(h._tl_src, k).offset == sp.offset
            and eq(nth(h._tl_dst, k).node, get(mapping, dp.node)) and nth(h._tl_dst, k).offset == dp.offset)
