"""Contracts for the builders' function-call entry points (properties C01 and C16): DfBase.call and
DfBase.load_function create one node holding the Call / LoadFunc operation built from the callee's type
scheme, attach the *static function edge* from the callee's output 0 to the operation's function port, wire
the value arguments in order, and (call) return a handle that knows the operation's output count.

The graph-store mutators and the wiring are TRUSTED call recorders (ghost traces); _fn_sig names the callee's
type scheme; the constructors of Call / LoadFunc are used through the contract of _CallOrLoad.__init__ (proved
in C13) ; where the function port sits and how many outputs the operation has are the ghosts fpo / outs_of
(their values per class are proved in C06).
"""
from pyvc.dsl import *  # noqa: F401,F403

class_aliases = {
    "Node": "hugr.hugr.node_port.Node", "OutPort": "hugr.hugr.node_port.OutPort", "InPort": "hugr.hugr.node_port.InPort", "Hugr": "hugr.hugr.base.Hugr", "Op": "hugr.ops.Op",
    "PolyFuncType": "hugr.tys.PolyFuncType", "FunctionType": "hugr.tys.FunctionType", "TypeArg": "hugr.tys.TypeArg", "Type": "hugr.tys.Type",
    "Call": "hugr.ops.Call", "LoadFunc": "hugr.ops.LoadFunc",
}
extra_fields = {
    "hugr.hugr.base.Hugr._tn_op": "Seq[Op]",
    "hugr.hugr.base.Hugr._tn_parent": "Seq[Opt[Node]]",
    "hugr.hugr.base.Hugr._tn_outs": "Seq[Opt[int]]",
    "hugr.hugr.base.Hugr._tn_node": "Seq[Node]",
    "hugr.hugr.base.Hugr._tl_src": "Seq[OutPort]",
    "hugr.hugr.base.Hugr._tl_dst": "Seq[InPort]",
    "hugr.build.dfg.DfBase._tw_node": "Seq[Node]",
    "hugr.build.dfg.DfBase._tw_wires": "Seq[Seq[Union[Node, OutPort]]]",
}


@contract("hugr.ops._CallOrLoad.__init__", props=[])
class call_or_load_init:
    """As proved in C13 (contracts/refuse.py), restated for this group."""
    trusted = True
    types = {"type_args": "Opt[Seq[TypeArg]]"}
    exact_self = False

    def modifies(self, signature, instantiation, type_args):
        return [self.signature, self.instantiation, self.type_args]

    def raises(self, signature, instantiation, type_args):
        n = len(signature.params)
        k = ite(isNone(type_args), 0, len(the(type_args)))
        return {hugr.ops.NoConcreteFunc: n > 0 and (isNone(instantiation) or n != k)}

    def ensures(self, signature, instantiation, type_args, result):
        return {"P_signature": same_obj(self.signature, signature)}


@contract("hugr.hugr.base.Hugr.add_node", props=[])
class add_node_recorder:
    trusted = True
    types = {"op": "Op", "parent": "Opt[Node]", "num_outs": "Opt[int]", "metadata": "Opt[Dict[str, Any]]"}
    returns = "Node"

    def modifies(self, op, parent, num_outs, metadata):
        return [self._tn_op, self._tn_parent, self._tn_outs, self._tn_node, self._nodes, self._free_nodes]

    def raises(self, op, parent, num_outs, metadata):
        return {}

    def ensures(self, op, parent, num_outs, metadata, result):
        return {"t_op": eq(self._tn_op, concat(old(self._tn_op), Seq(Op, op))),
                "t_parent": eq(self._tn_parent, concat(old(self._tn_parent), Seq("Opt[Node]", parent))),
                "t_outs": eq(self._tn_outs, concat(old(self._tn_outs), Seq("Opt[int]", num_outs))),
                "t_node": eq(self._tn_node, concat(old(self._tn_node), Seq(Node, result))),
                # the handle add_node returns carries the count it was given (proved in C04 / C16)
                "handle_count": result._num_out_ports == num_outs}


@contract("hugr.hugr.base.Hugr.add_link", props=[])
class add_link_recorder:
    trusted = True
    types = {"src": "OutPort", "dst": "InPort"}

    def modifies(self, src, dst):
        return [self._tl_src, self._tl_dst, self._links.fwd, self._links.bck, self._nodes]

    def raises(self, src, dst):
        return {}

    def ensures(self, src, dst, result):
        return {"t_src": eq(self._tl_src, concat(old(self._tl_src), Seq(OutPort, src))), "t_dst": eq(self._tl_dst, concat(old(self._tl_dst), Seq(InPort, dst)))}


@contract("hugr.build.dfg.DfBase._wire_up", props=[])
class wire_up_recorder:
    trusted = True
    exact_self = False
    types = {"node": "Node", "ports": "Seq[Union[Node, OutPort]]"}
    returns = "Seq[Type]"

    def modifies(self, node, ports):
        return [self._tw_node, self._tw_wires, self.hugr._nodes, self.hugr._links.fwd, self.hugr._links.bck]

    def raises(self, node, ports):
        return {}

    def ensures(self, node, ports, result):
        return {"trace_node": eq(self._tw_node, concat(old(self._tw_node), Seq(Node, node))),
                "trace_wires": eq(self._tw_wires, concat(old(self._tw_wires), Seq("Seq[Union[Node, OutPort]]", ports)))}


@spec
def scheme_of(b, func):
    """ghost: the type scheme the graph reports for a function node (DfBase._fn_sig)"""
    return ghost("scheme_of_function", "PolyFuncType", b.hugr, func.idx)


@contract("hugr.build.dfg.DfBase._fn_sig", props=[])
class fn_sig_named:
    """TRUSTED: names its result; raises ValueError for a node whose output 0 is not a function port (C13, bounded)."""
    trusted = True
    exact_self = False
    types = {"func": "Node"}
    returns = "PolyFuncType"
    may_raise = ["ValueError"]

    def modifies(self, func):
        return []

    def raises(self, func):
        return {}

    def ensures(self, func, result):
        return {"A_named": same_obj(result, scheme_of(self, func))}


@spec
def fpo(op):
    """ghost: offset of the function port of a Call (number of value inputs: C06)"""
    return ghost("function_port_offset_of", "int", op)


@contract("hugr.ops.Call._function_port_offset", props=[])
class call_fpo:
    trusted = True
    returns = "int"

    def modifies(self):
        return []

    def raises(self):
        return {}

    def ensures(self, result):
        return {"A_named": result == fpo(self)}


@spec
def outs_of(op):
    return ghost("num_out_of_call", "int", op)


@contract("hugr.ops.Call.num_out", props=[])
class call_num_out:
    trusted = True
    returns = "int"

    def modifies(self):
        return []

    def raises(self):
        return {}

    def ensures(self, result):
        return {"A_named": result == outs_of(self)}


@spec
def aligned(b):
    h = b.hugr
    return (len(h._tn_op) == len(h._tn_parent) and len(h._tn_op) == len(h._tn_outs) and len(h._tn_op) == len(h._tn_node)
            and len(h._tl_src) == len(h._tl_dst) and len(b._tw_node) == len(b._tw_wires))


@contract("hugr.build.dfg.DfBase.call", props=["C01", "C16"])
class call:
    types = {"func": "Node", "args": "Seq[Union[Node, OutPort]]", "instantiation": "Opt[FunctionType]", "type_args": "Opt[Seq[TypeArg]]"}
    exact_self = False
    returns = "Node"
    may_raise = ["ValueError"]

    def requires(self, func, args, instantiation, type_args):
        return aligned(self)

    def modifies(self, func, args, instantiation, type_args):
        h = self.hugr
        return [h._tn_op, h._tn_parent, h._tn_outs, h._tn_node, h._tl_src, h._tl_dst, self._tw_node, self._tw_wires, h._nodes, h._free_nodes, h._links.fwd, h._links.bck]

    def raises(self, func, args, instantiation, type_args):
        n = len(scheme_of(self, func).params)
        k = ite(isNone(type_args), 0, len(the(type_args)))
        return {hugr.ops.NoConcreteFunc: n > 0 and (isNone(instantiation) or n != k)}

    def ensures(self, func, args, instantiation, type_args, result):
        h = self.hugr
        n = len(h._tn_op)
        l = len(h._tl_src)
        w = len(self._tw_node)
        op = nth(h._tn_op, n - 1)
        new = nth(h._tn_node, n - 1)
        return {"P_one_call_node_under_the_container": n == len(old(self.hugr._tn_op)) + 1 and cls_is(op, Call) and same_obj(as_cls(op, Call).signature, scheme_of(self, func))
                and notNone(nth(h._tn_parent, n - 1)) and the(nth(h._tn_parent, n - 1)).idx == self.parent_node.idx,
                "P_static_function_edge_at_the_function_port": l == len(old(self.hugr._tl_src)) + 1 and len(h._tl_dst) == l
                and nth(h._tl_src, l - 1).node.idx == func.idx and nth(h._tl_src, l - 1).offset == 0
                and nth(h._tl_dst, l - 1).node.idx == new.idx and nth(h._tl_dst, l - 1).offset == fpo(as_cls(op, Call)),
                "P_value_arguments_wired_in_order": w == len(old(self._tw_node)) + 1 and len(self._tw_wires) == w and nth(self._tw_node, w - 1).idx == new.idx and eq(nth(self._tw_wires, w - 1), args),
                "P_handle_is_the_call_node_with_its_output_count": result.idx == new.idx and notNone(result._num_out_ports) and the(result._num_out_ports) == outs_of(as_cls(op, Call))}


@contract("hugr.build.dfg.DfBase.load_function", props=["C01"])
class load_function:
    types = {"func": "Node", "instantiation": "Opt[FunctionType]", "type_args": "Opt[Seq[TypeArg]]"}
    exact_self = False
    returns = "Node"
    may_raise = ["ValueError"]

    def requires(self, func, instantiation, type_args):
        return aligned(self)

    def modifies(self, func, instantiation, type_args):
        h = self.hugr
        return [h._tn_op, h._tn_parent, h._tn_outs, h._tn_node, h._tl_src, h._tl_dst, h._nodes, h._free_nodes, h._links.fwd, h._links.bck]

    def raises(self, func, instantiation, type_args):
        n = len(scheme_of(self, func).params)
        k = ite(isNone(type_args), 0, len(the(type_args)))
        return {hugr.ops.NoConcreteFunc: n > 0 and (isNone(instantiation) or n != k)}

    def ensures(self, func, instantiation, type_args, result):
        h = self.hugr
        n = len(h._tn_op)
        l = len(h._tl_src)
        op = nth(h._tn_op, n - 1)
        new = nth(h._tn_node, n - 1)
        return {"P_one_load_node_under_the_container": n == len(old(self.hugr._tn_op)) + 1 and cls_is(op, LoadFunc) and same_obj(as_cls(op, LoadFunc).signature, scheme_of(self, func))
                and notNone(nth(h._tn_parent, n - 1)) and the(nth(h._tn_parent, n - 1)).idx == self.parent_node.idx,
                "P_static_function_edge_at_input_0": l == len(old(self.hugr._tl_src)) + 1 and len(h._tl_dst) == l
                and nth(h._tl_src, l - 1).node.idx == func.idx and nth(h._tl_src, l - 1).offset == 0
                and nth(h._tl_dst, l - 1).node.idx == new.idx and nth(h._tl_dst, l - 1).offset == 0,
                "P_handle_is_the_load_node": result.idx == new.idx}
