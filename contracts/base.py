"""Contracts for hugr/hugr/base.py - the graph store (C04) and what builds on it.

View ("plain sequential model of a hierarchical port multigraph"):
  live(h, i)            node index i is in the graph
  per port p the *sequence* of linked ports, indexed by sub-offset:  the link at sub-offset j of
  out-port p is fwd[SubPort(p, j)] (in-ports: bck); cnt(d, p) = number of links at p.
Representation invariant: fwd/bck exact inverses (C18), sub-offsets of every port contiguous
from 0 (this is what makes linked_ports see every link), link ends well formed.
"""
from pyvc.dsl import *  # noqa: F401,F403

value_classes = ["hugr.hugr.node_port._SubPort"]
field_types = {"hugr.hugr.node_port._SubPort.port": "Union[InPort, OutPort]"}
typevar_bindings = {"L": "SubPort", "R": "SubPort", "P": "Union[InPort, OutPort]", "K": "Union[InPort, OutPort]"}
class_aliases = {
    "SubPort": "hugr.hugr.node_port._SubPort", "InPort": "hugr.hugr.node_port.InPort", "OutPort": "hugr.hugr.node_port.OutPort",
    "Node": "hugr.hugr.node_port.Node", "Hugr": "hugr.hugr.base.Hugr", "NodeData": "hugr.hugr.base.NodeData", "BiMap": "hugr.utils.BiMap",
    "Direction": "hugr.hugr.node_port.Direction",
}


@spec
def live(h, i):
    return 0 <= i and i < len(h._nodes) and notNone(nth(h._nodes, i))


@spec
def data(h, i):
    return the(nth(h._nodes, i))


@spec
def cnt(d, port):
    """number of links at `port` = the first unused sub-offset"""
    return ghost("cnt", "int", d, port)


@spec
def cnt_def(d, port):
    c = cnt(d, port)
    return c >= 0 and forall(int, lambda i: implies(0 <= i and i < c, has(d, SubPort(port, i)))) and not has(d, SubPort(port, c))


@spec
def contiguous(d):
    """the sub-offsets in use at every port are downward closed (stated in closed form: no induction needed)"""
    return forall((SubPort, int), lambda k, i: implies(has(d, k), k.sub_offset >= 0 and implies(0 <= i and i <= k.sub_offset, has(d, SubPort(k.port, i)))))


@spec
def links_wf(h):
    f = h._links.fwd
    return (bimap_inv(h._links) and contiguous(f) and contiguous(h._links.bck)
            and forall(SubPort, lambda k: implies(has(f, k), cls_is(k.port, OutPort) and cls_is(get(f, k).port, InPort))))


# ------------------------------------------------------------------------------------------------
@contract("hugr.hugr.node_port._SubPort.next_sub_offset", props=["C04"])
class next_sub_offset:
    returns = "SubPort"

    def modifies(self):
        return []

    def raises(self):
        return {}

    def ensures(self, result):
        return {"next": eq(result.port, self.port) and result.sub_offset == self.sub_offset + 1}


@contract("hugr.hugr.base.Hugr._unused_sub_offset", props=["C04"])
class unused_sub_offset:
    returns = "SubPort"

    def requires(self, port):
        return True

    def modifies(self, port):
        return []

    def raises(self, port):
        return {}

    def loop_1(self, port, d, sub_port):
        return {"same_port": eq(sub_port.port, port) and sub_port.sub_offset >= 0,
                "all_smaller_used": forall(int, lambda i: implies(0 <= i and i < sub_port.sub_offset, has(d, SubPort(port, i))))}

    def ensures(self, port, result):
        d = ite(cls_is(port, OutPort), self._links.fwd, self._links.bck)
        return {"first_free": eq(result.port, port) and result.sub_offset >= 0 and not has(d, result)
                and forall(int, lambda i: implies(0 <= i and i < result.sub_offset, has(d, SubPort(port, i))))}


@contract("hugr.hugr.base.Hugr._linked_ports", props=["C04"])
class linked_ports_impl:
    returns = "Seq[Union[InPort, OutPort]]"

    def modifies(self, port, links):
        return []

    def raises(self, port, links):
        return {}

    def loop_1(self, port, links, sub_port, _yielded):
        return {"cursor": eq(sub_port.port, port) and sub_port.sub_offset == len(_yielded),
                "yielded_so_far": forall(int, lambda j: implies(0 <= j and j < len(_yielded), has(links, SubPort(port, j)) and nth(_yielded, j) == get(links, SubPort(port, j)).port))}

    def ensures(self, port, links, result):
        return {"P_lists_the_contiguous_run": not has(links, SubPort(port, len(result)))
                and forall(int, lambda j: implies(0 <= j and j < len(result), has(links, SubPort(port, j)) and nth(result, j) == get(links, SubPort(port, j)).port))}


@contract("hugr.hugr.base.Hugr.linked_ports", props=["C04"])
class linked_ports:
    returns = "Seq[Union[InPort, OutPort]]"
    types = {"port": "Union[InPort, OutPort]"}

    def modifies(self, port):
        return []

    def raises(self, port):
        return {}

    def ensures(self, port, result):
        d = ite(cls_is(port, OutPort), self._links.fwd, self._links.bck)
        # linked_ports(p) = the sequence of ports linked to p, in sub-offset order
        return {"P_sequence_at_port": not has(d, SubPort(port, len(result)))
                and forall(int, lambda j: implies(0 <= j and j < len(result), has(d, SubPort(port, j)) and nth(result, j) == get(d, SubPort(port, j)).port))}


@contract("hugr.hugr.base.Hugr.has_link", props=["C04"])
class has_link:
    def modifies(self, src, dst):
        return []

    def raises(self, src, dst):
        return {}

    def ensures(self, src, dst, result):
        f = self._links.fwd
        # with contiguous sub-offsets: dst occurs in the sequence at src
        return {"P_iff_linked": implies(contiguous(f), result == exists(int, lambda j: 0 <= j and has(f, SubPort(src, j)) and get(f, SubPort(src, j)).port == dst))}


@contract("hugr.hugr.base.Hugr.__getitem__", props=["C04"])
class hugr_getitem:
    types = {"key": "Node"}
    returns = "NodeData"

    def requires(self, key):
        return key.idx >= 0   # handles produced by the API carry non-negative indices

    def modifies(self, key):
        return []

    def raises(self, key):
        return {KeyError: not live(self, key.idx)}

    def ensures(self, key, result):
        return {"P_lookup": same_obj(result, data(self, key.idx))}


@contract("hugr.hugr.base.Hugr.add_link", props=["C04"])
class add_link:
    def requires(self, src, dst):
        return {"inv": links_wf(self), "ends_live": live(self, src.node.idx) and live(self, dst.node.idx),
                "distinct_data": True,
                "A_cnt_src": cnt_def(self._links.fwd, src), "A_cnt_dst": cnt_def(self._links.bck, dst)}

    def modifies(self, src, dst):
        return [self._links.fwd, self._links.bck, data(self, src.node.idx)._num_outs, data(self, dst.node.idx)._num_inps]

    def raises(self, src, dst):
        return {}

    def ensures(self, src, dst, result):
        f0 = old(self._links.fwd)
        b0 = old(self._links.bck)
        f = self._links.fwd
        b = self._links.bck
        ks = SubPort(src, cnt(f0, src))
        kd = SubPort(dst, cnt(b0, dst))
        return {
            "inv_bimap": bimap_inv(self._links), "inv_contiguous_fwd": contiguous(f), "inv_contiguous_bck": contiguous(b),
            "inv_ends": forall(SubPort, lambda k: implies(has(f, k), cls_is(k.port, OutPort) and cls_is(get(f, k).port, InPort))),
            # the new link is appended to the sequence of both ports; every other link is untouched
            "P_reported_once_from_source": forall(SubPort, lambda k: has(f, k) == (has(f0, k) or k == ks)) and get(f, ks) == kd
            and forall(SubPort, lambda k: implies(has(f0, k), get(f, k) == get(f0, k))),
            "P_reported_once_from_target": forall(SubPort, lambda k: has(b, k) == (has(b0, k) or k == kd)) and get(b, kd) == ks
            and forall(SubPort, lambda k: implies(has(b0, k), get(b, k) == get(b0, k))),
            # reported port counts never smaller than the highest offset in use plus one, never shrinking
            "P_counts": data(self, src.node.idx)._num_outs >= src.offset + 1 and data(self, src.node.idx)._num_outs >= old(data(self, src.node.idx)._num_outs)
            and data(self, dst.node.idx)._num_inps >= dst.offset + 1 and data(self, dst.node.idx)._num_inps >= old(data(self, dst.node.idx)._num_inps),
            "counts_exact": data(self, src.node.idx)._num_outs == ite(old(data(self, src.node.idx)._num_outs) >= src.offset + 1, old(data(self, src.node.idx)._num_outs), src.offset + 1)
            and data(self, dst.node.idx)._num_inps == ite(old(data(self, dst.node.idx)._num_inps) >= dst.offset + 1, old(data(self, dst.node.idx)._num_inps), dst.offset + 1),
        }


# ---- node store ------------------------------------------------------------------------------------
@spec
def nodes_wf(h):
    """free list = exactly the vacated slots, without duplicates; node data objects are not shared"""
    fr = h._free_nodes
    return (forall(int, lambda k: implies(0 <= k and k < len(fr), 0 <= nth(fr, k).idx and nth(fr, k).idx < len(h._nodes) and isNone(nth(h._nodes, nth(fr, k).idx))))
            and forall((int, int), lambda a, b: implies(0 <= a and a < b and b < len(fr), nth(fr, a).idx != nth(fr, b).idx))
            and forall(int, lambda i: implies(0 <= i and i < len(h._nodes) and isNone(nth(h._nodes, i)), exists(int, lambda k: 0 <= k and k < len(fr) and nth(fr, k).idx == i)))
            and forall((int, int), lambda i, j: implies(live(h, i) and live(h, j) and i != j, not same_obj(data(h, i), data(h, j))))
            and forall(int, lambda i: implies(live(h, i), allocated(data(h, i)))))


@contract("hugr.hugr.base.Hugr.num_nodes", props=["C04"])
class num_nodes:
    def modifies(self):
        return []

    def raises(self):
        return {}

    def ensures(self, result):
        return {"P_count": result == len(self._nodes) - len(self._free_nodes)}


@contract("hugr.hugr.base.Hugr.__len__", props=["C04"])
class hugr_len:
    def modifies(self):
        return []

    def raises(self):
        return {}

    def ensures(self, result):
        return {"P_count": result == len(self._nodes) - len(self._free_nodes)}


@contract("hugr.hugr.base.Hugr.__iter__", props=["C04"])
class hugr_iter:
    returns = "Seq[Node]"

    def modifies(self):
        return []

    def raises(self):
        return {}

    def ensures(self, result):
        out = elems(result)
        # node iteration: exactly the live indices, ascending
        return {"P_live_only": forall(int, lambda k: implies(0 <= k and k < len(out), live(self, nth(out, k).idx))),
                "P_ascending": forall((int, int), lambda a, b: implies(0 <= a and a < b and b < len(out), nth(out, a).idx < nth(out, b).idx)),
                "P_every_live_node": forall(int, lambda i: implies(live(self, i), exists(int, lambda k: 0 <= k and k < len(out) and nth(out, k).idx == i)))}


@contract("hugr.hugr.base.Hugr.children", props=["C04"])
class hugr_children:
    types = {"node": "Opt[Node]"}
    returns = "Seq[Node]"

    def requires(self, node):
        return (isNone(node) or the(node).idx >= 0) and self.root.idx >= 0

    def modifies(self, node):
        return []

    def raises(self, node):
        n = ite(isNone(node), self.root, the(node))
        return {KeyError: not live(self, n.idx)}

    def ensures(self, node, result):
        n = ite(isNone(node), self.root, the(node))
        return {"P_ordered_children": eq(result, data(self, n.idx).children)}


@contract("hugr.hugr.base.Hugr.num_in_ports", props=["C04"])
class num_in_ports:
    types = {"node": "Node"}

    def requires(self, node):
        return node.idx >= 0

    def modifies(self, node):
        return []

    def raises(self, node):
        return {KeyError: not live(self, node.idx)}

    def ensures(self, node, result):
        return {"P_count": result == data(self, node.idx)._num_inps}


@contract("hugr.hugr.base.Hugr.num_out_ports", props=["C04"])
class num_out_ports:
    types = {"node": "Node"}

    def requires(self, node):
        return node.idx >= 0

    def modifies(self, node):
        return []

    def raises(self, node):
        return {KeyError: not live(self, node.idx)}

    def ensures(self, node, result):
        return {"P_count": result == data(self, node.idx)._num_outs}


@contract("hugr.hugr.base.Hugr.num_ports", props=["C04"])
class num_ports:
    types = {"node": "Node"}

    def requires(self, node, direction):
        return node.idx >= 0

    def modifies(self, node, direction):
        return []

    def raises(self, node, direction):
        return {KeyError: not live(self, node.idx)}

    def ensures(self, node, direction, result):
        return {"P_count": result == ite(direction == Direction.INCOMING, data(self, node.idx)._num_inps, data(self, node.idx)._num_outs)}


@contract("hugr.hugr.base.Hugr._update_port_count", props=["C04", "C16"])
class update_port_count:
    returns = "Node"

    def requires(self, node, num_inps, num_outs):
        d = data(self, node.idx)
        return {"live": node.idx >= 0 and live(self, node.idx), "wf": nodes_wf(self),
                "listed_under_parent": implies(notNone(num_outs) and notNone(d.parent),
                                               the(d.parent).idx >= 0 and live(self, the(d.parent).idx)
                                               and exists(int, lambda j: 0 <= j and j < len(data(self, the(d.parent).idx).children) and nth(data(self, the(d.parent).idx).children, j).idx == node.idx))}

    def modifies(self, node, num_inps, num_outs):
        return [data(self, node.idx)._num_inps, data(self, node.idx)._num_outs, "hugr.hugr.base.NodeData.children"]

    def raises(self, node, num_inps, num_outs):
        return {}

    def ensures(self, node, num_inps, num_outs, result):
        d = data(self, node.idx)
        return {
            "P_same_node": result.idx == node.idx,
            # handle, child entry and node data stay in step
            "P_handle_count": result._num_out_ports == ite(notNone(num_outs), num_outs, node._num_out_ports),
            "P_store_counts": d._num_outs == ite(notNone(num_outs), the(num_outs), old(d._num_outs)) and d._num_inps == ite(notNone(num_inps), the(num_inps), old(d._num_inps)),
        }


@contract("hugr.hugr.base.Hugr._add_node", props=["C04", "C16"])
class add_node_impl:
    types = {"parent": "Opt[Node]"}
    returns = "Node"

    def requires(self, op, parent, num_outs, metadata):
        return {"wf": nodes_wf(self), "parent_live": implies(notNone(parent), the(parent).idx >= 0 and live(self, the(parent).idx)),
                "count": isNone(num_outs) or the(num_outs) >= 0}

    def modifies(self, op, parent, num_outs, metadata):
        return [self._nodes, self._free_nodes, "hugr.hugr.base.NodeData.children", "hugr.hugr.base.NodeData._num_outs", "hugr.hugr.base.NodeData._num_inps"]

    def raises(self, op, parent, num_outs, metadata):
        return {}

    def ensures(self, op, parent, num_outs, metadata, result):
        i = result.idx
        d = data(self, i)
        return {
            "P_index_was_free": i >= 0 and not old(live(self, i)),
            "P_now_live": live(self, i) and same_obj(d.op, op) and eq(d.parent, parent),
            "P_requested_count": d._num_outs == ite(notNone(num_outs), the(num_outs), 0) and d._num_inps == 0,
            "P_handle_count": eq(result._num_out_ports, num_outs),
            "P_others_keep_their_index": forall(int, lambda j: implies(old(live(self, j)) and j != i, live(self, j) and same_obj(data(self, j), old(data(self, j))))),
            "P_no_other_new": forall(int, lambda j: implies(live(self, j) and j != i, old(live(self, j)))),
            "wf": nodes_wf(self),
        }


@contract("hugr.hugr.base.Hugr.add_node", props=["C04", "C16"])
class add_node:
    types = {"parent": "Opt[Node]"}
    returns = "Node"

    def requires(self, op, parent, num_outs, metadata):
        return {"wf": nodes_wf(self), "root_live": self.root.idx >= 0 and live(self, self.root.idx),
                "parent_live": implies(notNone(parent), the(parent).idx >= 0 and live(self, the(parent).idx)),
                "count": isNone(num_outs) or the(num_outs) >= 0}

    def modifies(self, op, parent, num_outs, metadata):
        return [self._nodes, self._free_nodes, "hugr.hugr.base.NodeData.children", "hugr.hugr.base.NodeData._num_outs", "hugr.hugr.base.NodeData._num_inps"]

    def raises(self, op, parent, num_outs, metadata):
        return {}

    def ensures(self, op, parent, num_outs, metadata, result):
        i = result.idx
        d = data(self, i)
        p = ite(isNone(parent), self.root, the(parent))
        return {
            "P_index_was_free": i >= 0 and not old(live(self, i)),
            "P_now_live_under_parent": live(self, i) and same_obj(d.op, op) and notNone(d.parent) and the(d.parent).idx == p.idx,
            "P_requested_count": d._num_outs == ite(notNone(num_outs), the(num_outs), 0),
            "P_handle_count": eq(result._num_out_ports, num_outs),
            "P_others_keep_their_index": forall(int, lambda j: implies(old(live(self, j)) and j != i, live(self, j) and same_obj(data(self, j), old(data(self, j))))),
            "wf": nodes_wf(self),
        }


@contract("hugr.hugr.base.Hugr.add_order_link", props=["C04"])
class add_order_link:
    types = {"src": "Node", "dst": "Node"}

    def requires(self, src, dst):
        s = OutPort(src, -1)
        t = InPort(dst, -1)
        return {"inv": links_wf(self), "ends_live": src.idx >= 0 and dst.idx >= 0 and live(self, src.idx) and live(self, dst.idx),
                "counts_nonneg": data(self, src.idx)._num_outs >= 0 and data(self, dst.idx)._num_inps >= 0,
                "A_cnt_src": cnt_def(self._links.fwd, s), "A_cnt_dst": cnt_def(self._links.bck, t)}

    def modifies(self, src, dst):
        return [self._links.fwd, self._links.bck, data(self, src.idx)._num_outs, data(self, dst.idx)._num_inps]

    def raises(self, src, dst):
        return {}

    def ensures(self, src, dst, result):
        s = OutPort(src, -1)
        t = InPort(dst, -1)
        f0 = old(self._links.fwd)
        f = self._links.fwd
        linked_before = exists(int, lambda j: 0 <= j and has(f0, SubPort(s, j)) and get(f0, SubPort(s, j)).port == t)
        ks = SubPort(s, cnt(f0, s))
        return {
            "inv_bimap": bimap_inv(self._links), "inv_contiguous_fwd": contiguous(f), "inv_contiguous_bck": contiguous(self._links.bck),
            # no-op if the order link exists, otherwise exactly one new link between the order ports
            "P_idempotent": implies(linked_before, eq(f, f0) and eq(self._links.bck, old(self._links.bck))),
            "P_added_once": implies(not linked_before, forall(SubPort, lambda k: has(f, k) == (has(f0, k) or k == ks)) and get(f, ks).port == t),
            # order ports do not count as ports
            "P_counts_unchanged": data(self, src.idx)._num_outs == old(data(self, src.idx)._num_outs) and data(self, dst.idx)._num_inps == old(data(self, dst.idx)._num_inps),
        }


@contract("hugr.hugr.base.Hugr.outgoing_order_links", props=["C04"])
class outgoing_order_links:
    types = {"node": "Node"}

    def modifies(self, node):
        return []

    def raises(self, node):
        return {}

    def ensures(self, node, result):
        out = elems(result)
        f = self._links.fwd
        p = OutPort(node, -1)
        return {"P_order_successors": not has(f, SubPort(p, len(out)))
                and forall(int, lambda j: implies(0 <= j and j < len(out), has(f, SubPort(p, j)) and nth(out, j) == get(f, SubPort(p, j)).port.node))}


@contract("hugr.hugr.base.Hugr.incoming_order_links", props=["C04"])
class incoming_order_links:
    types = {"node": "Node"}

    def modifies(self, node):
        return []

    def raises(self, node):
        return {}

    def ensures(self, node, result):
        out = elems(result)
        b = self._links.bck
        p = InPort(node, -1)
        return {"P_order_predecessors": not has(b, SubPort(p, len(out)))
                and forall(int, lambda j: implies(0 <= j and j < len(out), has(b, SubPort(p, j)) and nth(out, j) == get(b, SubPort(p, j)).port.node))}


@contract("hugr.hugr.base.Hugr._node_links", props=["C04"])
class node_links:
    types = {"node": "Node"}
    returns = "Seq[Tup[Union[InPort, OutPort], Seq[Union[InPort, OutPort]]]]"

    def requires(self, node, links, direction):
        return node.idx >= 0

    def modifies(self, node, links, direction):
        return []

    def raises(self, node, links, direction):
        return {}

    def loop_1(self, node, links, direction, num_ports, _yielded, _i1):
        return {"one_entry_per_offset": len(_yielded) == _i1,
                "entry_ports": forall(int, lambda o: implies(0 <= o and o < _i1, ite(direction == Direction.INCOMING, eq(nth(_yielded, o)[0], InPort(node, o)), eq(nth(_yielded, o)[0], OutPort(node, o))))),
                "entry_ends": forall(int, lambda o: implies(0 <= o and o < _i1, not has(links, SubPort(nth(_yielded, o)[0], len(nth(_yielded, o)[1]))))),
                "entry_links": forall((int, int), lambda o, j: implies(0 <= o and o < _i1 and 0 <= j and j < len(nth(_yielded, o)[1]),
                                                                       has(links, SubPort(nth(_yielded, o)[0], j)) and nth(nth(_yielded, o)[1], j) == get(links, SubPort(nth(_yielded, o)[0], j)).port))}

    def ensures(self, node, links, direction, result):
        n = ite(direction == Direction.INCOMING, data(self, node.idx)._num_inps, data(self, node.idx)._num_outs)
        return {"P_dead_node_has_no_ports": implies(not live(self, node.idx), len(result) == 0),
                # one entry per port offset below the port count, whatever the rest of the graph looks like
                "P_one_entry_per_port": implies(live(self, node.idx), len(result) == ite(n > 0, n, 0)),
                "P_entry_ports": forall(int, lambda o: implies(0 <= o and o < len(result), ite(direction == Direction.INCOMING, eq(nth(result, o)[0], InPort(node, o)), eq(nth(result, o)[0], OutPort(node, o))))),
                "P_entry_ends": forall(int, lambda o: implies(0 <= o and o < len(result), not has(links, SubPort(nth(result, o)[0], len(nth(result, o)[1]))))),
                "P_entry_links": forall((int, int), lambda o, j: implies(0 <= o and o < len(result) and 0 <= j and j < len(nth(result, o)[1]),
                                                                         has(links, SubPort(nth(result, o)[0], j)) and nth(nth(result, o)[1], j) == get(links, SubPort(nth(result, o)[0], j)).port))}


@spec
def entry_ok(e, node, o, links, direction):
    port = e[0]
    ls = e[1]
    want = ite(direction == Direction.INCOMING, eq(port, InPort(node, o)), eq(port, OutPort(node, o)))
    return (want and not has(links, SubPort(port, len(ls)))
            and forall(int, lambda j: implies(0 <= j and j < len(ls), has(links, SubPort(port, j)) and nth(ls, j) == get(links, SubPort(port, j)).port)))


@contract("hugr.hugr.base.Hugr.root_op", props=["C04"])
class root_op:
    returns = "hugr.ops.Op"

    def requires(self):
        return self.root.idx >= 0

    def modifies(self):
        return []

    def raises(self):
        return {KeyError: not live(self, self.root.idx)}

    def ensures(self, result):
        return {"P_root_operation": same_obj(result, data(self, self.root.idx).op)}


@contract("hugr.hugr.base.Hugr.outgoing_links", props=["C04"])
class outgoing_links:
    types = {"node": "Node"}
    returns = "Seq[Tup[Union[InPort, OutPort], Seq[Union[InPort, OutPort]]]]"

    def requires(self, node):
        return node.idx >= 0

    def modifies(self, node):
        return []

    def raises(self, node):
        return {}

    def ensures(self, node, result):
        f = self._links.fwd
        return {"P_dead_node_has_no_ports": implies(not live(self, node.idx), len(result) == 0),
                # regardless of the rest of the graph: one entry per out-port below the port count
                "P_one_entry_per_port": implies(live(self, node.idx), len(result) == ite(data(self, node.idx)._num_outs > 0, data(self, node.idx)._num_outs, 0)),
                "P_entry_ports": forall(int, lambda o: implies(0 <= o and o < len(result), eq(nth(result, o)[0], OutPort(node, o)))),
                "P_entry_ends": forall(int, lambda o: implies(0 <= o and o < len(result), not has(f, SubPort(nth(result, o)[0], len(nth(result, o)[1]))))),
                "P_entry_links": forall((int, int), lambda o, j: implies(0 <= o and o < len(result) and 0 <= j and j < len(nth(result, o)[1]),
                                                                         has(f, SubPort(nth(result, o)[0], j)) and nth(nth(result, o)[1], j) == get(f, SubPort(nth(result, o)[0], j)).port))}


@contract("hugr.hugr.base.Hugr.incoming_links", props=["C04"])
class incoming_links:
    types = {"node": "Node"}
    returns = "Seq[Tup[Union[InPort, OutPort], Seq[Union[InPort, OutPort]]]]"

    def requires(self, node):
        return node.idx >= 0

    def modifies(self, node):
        return []

    def raises(self, node):
        return {}

    def ensures(self, node, result):
        b = self._links.bck
        return {"P_dead_node_has_no_ports": implies(not live(self, node.idx), len(result) == 0),
                "P_one_entry_per_port": implies(live(self, node.idx), len(result) == ite(data(self, node.idx)._num_inps > 0, data(self, node.idx)._num_inps, 0)),
                "P_entry_ports": forall(int, lambda o: implies(0 <= o and o < len(result), eq(nth(result, o)[0], InPort(node, o)))),
                "P_entry_ends": forall(int, lambda o: implies(0 <= o and o < len(result), not has(b, SubPort(nth(result, o)[0], len(nth(result, o)[1]))))),
                "P_entry_links": forall((int, int), lambda o, j: implies(0 <= o and o < len(result) and 0 <= j and j < len(nth(result, o)[1]),
                                                                         has(b, SubPort(nth(result, o)[0], j)) and nth(nth(result, o)[1], j) == get(b, SubPort(nth(result, o)[0], j)).port))}


@contract("hugr.hugr.base.Hugr.add_const", props=["C04"])
class add_const:
    types = {"parent": "Opt[Node]"}
    returns = "Node"

    def requires(self, value, parent, metadata):
        return {"wf": nodes_wf(self), "root_live": self.root.idx >= 0 and live(self, self.root.idx),
                "parent_live": implies(notNone(parent), the(parent).idx >= 0 and live(self, the(parent).idx))}

    def modifies(self, value, parent, metadata):
        return [self._nodes, self._free_nodes, "hugr.hugr.base.NodeData.children", "hugr.hugr.base.NodeData._num_outs", "hugr.hugr.base.NodeData._num_inps"]

    def raises(self, value, parent, metadata):
        return {}

    def ensures(self, value, parent, metadata, result):
        i = result.idx
        return {"P_const_node": i >= 0 and not old(live(self, i)) and live(self, i) and cls_is(data(self, i).op, hugr.ops.Const) and same_obj(as_cls(data(self, i).op, hugr.ops.Const).val, value)}
