"""Contracts for the output count a container builder's handle carries once its outputs are set (property C16,
"handles returned by container builders once their outputs are set"): Hugr._update_node_outs,
DfBase._set_parent_output_count and Dfg.set_outputs, over the graph-store contracts of contracts/base.py
(_update_port_count is proved there).  Loaded together with node_port.py, utils.py and base.py.
"""
from pyvc.dsl import *  # noqa: F401,F403


@spec
def can_count(h, node):
    """what _update_port_count asks of the node whose count is set: live, well-formed store, listed under its parent"""
    d = data(h, node.idx)
    return (node.idx >= 0 and live(h, node.idx) and nodes_wf(h)
            and implies(notNone(d.parent), the(d.parent).idx >= 0 and live(h, the(d.parent).idx)
                        and exists(int, lambda j: 0 <= j and j < len(data(h, the(d.parent).idx).children) and nth(data(h, the(d.parent).idx).children, j).idx == node.idx)))


@contract("hugr.hugr.base.Hugr._update_node_outs", props=["C16"])
class update_node_outs:
    types = {"node": "Node", "num_outs": "Opt[int]"}
    returns = "Node"

    def requires(self, node, num_outs):
        return can_count(self, node)

    def modifies(self, node, num_outs):
        return [data(self, node.idx)._num_inps, data(self, node.idx)._num_outs, "hugr.hugr.base.NodeData.children"]

    def raises(self, node, num_outs):
        return {}

    def ensures(self, node, num_outs, result):
        return {"P_same_node": result.idx == node.idx,
                "P_handle_count": result._num_out_ports == ite(notNone(num_outs), num_outs, node._num_out_ports),
                "P_store_count": data(self, node.idx)._num_outs == ite(notNone(num_outs), the(num_outs), old(data(self, node.idx)._num_outs))}


@contract("hugr.build.dfg.DfBase._set_parent_output_count", props=["C16"])
class set_parent_output_count:
    types = {"count": "int"}
    exact_self = False

    def requires(self, count):
        return can_count(self.hugr, self.parent_node)

    def modifies(self, count):
        return [self.parent_node, data(self.hugr, self.parent_node.idx)._num_inps, data(self.hugr, self.parent_node.idx)._num_outs, "hugr.hugr.base.NodeData.children"]

    def raises(self, count):
        return {}

    def ensures(self, count, result):
        return {"P_same_container": self.parent_node.idx == old(self.parent_node).idx,
                "P_handle_knows_the_count": notNone(self.parent_node._num_out_ports) and the(self.parent_node._num_out_ports) == count,
                "P_store_knows_the_count": data(self.hugr, self.parent_node.idx)._num_outs == count}


@contract("hugr.build.dfg.DfBase.set_outputs", props=[])
class dfbase_set_outputs_keeps_the_store:
    """TRUSTED here (its own contract is in contracts/build_io.py): wiring the Output node neither removes nor re-parents
    nodes - the container stays countable (what add_link / _update_port_count do to the store is proved in C04)."""
    trusted = True
    exact_self = False
    types = {"args": "Seq[Union[Node, OutPort]]"}
    may_raise = ["ValueError", "hugr.exceptions.NoSiblingAncestor", "hugr.ops.IncompleteOp"]

    def requires(self, args):
        return can_count(self.hugr, self.parent_node)

    def modifies(self, args):
        return [self.hugr._nodes, self.hugr._links.fwd, self.hugr._links.bck, "hugr.hugr.base.NodeData._num_inps", "hugr.hugr.base.NodeData._num_outs", "hugr.hugr.base.NodeData.children"]

    def raises(self, args):
        return {}

    def ensures(self, args, result):
        return {"still_countable": can_count(self.hugr, self.parent_node)}


@contract("hugr.build.dfg.Dfg.set_outputs", props=["C16"])
class dfg_set_outputs:
    types = {"outputs": "Seq[Union[Node, OutPort]]"}
    may_raise = ["ValueError", "hugr.exceptions.NoSiblingAncestor", "hugr.ops.IncompleteOp"]

    def requires(self, outputs):
        return can_count(self.hugr, self.parent_node)

    def modifies(self, outputs):
        return [self.parent_node, self.hugr._nodes, self.hugr._links.fwd, self.hugr._links.bck, "hugr.hugr.base.NodeData._num_inps", "hugr.hugr.base.NodeData._num_outs", "hugr.hugr.base.NodeData.children"]

    def raises(self, outputs):
        return {}

    def ensures(self, outputs, result):
        return {"P_same_container": self.parent_node.idx == old(self.parent_node).idx,
                "P_handle_knows_the_number_of_outputs": notNone(self.parent_node._num_out_ports) and the(self.parent_node._num_out_ports) == len(outputs)}
