"""Contracts for hugr/hugr/node_port.py  (property C16: node handles enumerate exactly their
value outputs; ports compare by node index and offset).

Handles and ports are frozen dataclasses: they are encoded as value records.  n below is
`self._num_out_ports`; the representation invariant of handles produced by the API is n >= 0.
"""
from pyvc.dsl import *  # noqa: F401,F403

value_classes = [
    "hugr.hugr.node_port.Node",
    "hugr.hugr.node_port.InPort",
    "hugr.hugr.node_port.OutPort",
]
field_types = {
    # the metadata dict is shared by reference between handles: an opaque reference here
    "hugr.hugr.node_port.Node._metadata": "Any",
}
class_aliases = {
    "Node": "hugr.hugr.node_port.Node",
    "InPort": "hugr.hugr.node_port.InPort",
    "OutPort": "hugr.hugr.node_port.OutPort",
    "Direction": "hugr.hugr.node_port.Direction",
}


@spec
def handle_ok(node):
    return isNone(node._num_out_ports) or the(node._num_out_ports) >= 0


@spec
def norm(n, i):
    """Python's meaning of index i on a sequence of length n (defined for -n <= i < n)."""
    return ite(i >= 0, i, n + i)


@spec
def adj(n, b, dflt):
    """CPython's adjustment of a slice bound for a positive step on a sequence of length n
    (PySlice_AdjustIndices): None -> default, negative -> + n (not below 0), above n -> n."""
    return ite(isNone(b), dflt, ite(the(b) < 0, ite(the(b) + n < 0, 0, the(b) + n), ite(the(b) > n, n, the(b))))


# ------------------------------------------------------------------------------------------
@contract("hugr.hugr.node_port.Node._normalize_index", props=["C16"])
class normalize_index:
    def requires(self, index, allow_overflow):
        return handle_ok(self)

    def modifies(self, index, allow_overflow):
        return []

    def raises(self, index, allow_overflow):
        n = self._num_out_ports
        return {IndexError: (notNone(n) and ((index >= the(n) and not allow_overflow) or index < -the(n)))
                or (isNone(n) and index < 0)}

    def ensures(self, index, allow_overflow, result):
        n = self._num_out_ports
        return {
            "P_known_nonneg": implies(notNone(n) and index >= 0, result == ite(index < the(n), index, the(n))),
            "P_known_neg": implies(notNone(n) and index < 0, result == the(n) + index),
            "P_unknown": implies(isNone(n), result == index),
            "P_in_range": implies(notNone(n) and not allow_overflow, 0 <= result and result < the(n) and result == norm(the(n), index)),
        }


@contract("hugr.hugr.node_port.Node._index#int", props=["C16"])
class index_int:
    types = {"index": "int"}
    returns = "OutPort"

    def requires(self, index):
        return handle_ok(self)

    def modifies(self, index):
        return []

    def raises(self, index):
        n = self._num_out_ports
        return {IndexError: (notNone(n) and (index >= the(n) or index < -the(n))) or (isNone(n) and index < 0)}

    def ensures(self, index, result):
        n = self._num_out_ports
        return {
            "P_node": eq(result.node, self),
            "P_offset_known": implies(notNone(n), result.offset == norm(the(n), index) and 0 <= result.offset and result.offset < the(n)),
            "P_offset_unknown": implies(isNone(n), result.offset == index),
        }


@contract("hugr.hugr.node_port.Node._index#slice", props=["C16"])
class index_slice:
    types = {"index": "Slice"}
    returns = "Seq[OutPort]"   # callers see the generator as the sequence it yields

    def requires(self, index):
        # the statement covers positive steps
        return handle_ok(self) and (isNone(index.step) or the(index.step) > 0)

    def modifies(self, index):
        return []

    def raises(self, index):
        n = self._num_out_ports
        lo_bad = notNone(index.start) and the(index.start) < 0 and (isNone(n) or the(index.start) < -the(n))
        hi_bad = notNone(index.stop) and the(index.stop) < 0 and (isNone(n) or the(index.stop) < -the(n))
        return {
            ValueError: isNone(n) and isNone(index.stop),
            IndexError: not (isNone(n) and isNone(index.stop)) and (lo_bad or hi_bad),
        }

    def ensures(self, index, result):
        n = self._num_out_ports
        out = elems(result)
        step = ite(isNone(index.step), 1, the(index.step))
        s = adj(the(n), index.start, 0)
        e = adj(the(n), index.stop, the(n))
        return {
            # with a known count: exactly what range(n)[start:stop:step] holds, in order
            "P_len_empty": implies(notNone(n) and e <= s, len(out) == 0),
            "P_len": implies(notNone(n) and e > s, s + (len(out) - 1) * step < e and s + len(out) * step >= e and len(out) >= 1),
            "P_elems": implies(notNone(n), forall(int, lambda j: implies(0 <= j and j < len(out),
                                                                         eq(nth(out, j).node, self) and nth(out, j).offset == s + j * step
                                                                         and 0 <= nth(out, j).offset and nth(out, j).offset < the(n)))),
            # without a known count (stop given, bounds non-negative): plain range(start, stop, step)
            "P_elems_unknown": implies(isNone(n), forall(int, lambda j: implies(0 <= j and j < len(out),
                                                                                 eq(nth(out, j).node, self)
                                                                                 and nth(out, j).offset == ite(isNone(index.start), 0, the(index.start)) + j * step))),
        }


@contract("hugr.hugr.node_port.Node.__getitem__#int", props=["C16"])
class getitem_int:
    types = {"index": "int"}
    returns = "OutPort"

    def requires(self, index):
        return handle_ok(self)

    def modifies(self, index):
        return []

    def raises(self, index):
        n = self._num_out_ports
        return {IndexError: (notNone(n) and (index >= the(n) or index < -the(n))) or (isNone(n) and index < 0)}

    def ensures(self, index, result):
        n = self._num_out_ports
        return {
            "P_node": eq(result.node, self),
            "P_offset_known": implies(notNone(n), result.offset == norm(the(n), index) and 0 <= result.offset and result.offset < the(n)),
            "P_offset_unknown": implies(isNone(n), result.offset == index),
        }


@contract("hugr.hugr.node_port.Node.__getitem__#slice", props=["C16"])
class getitem_slice:
    types = {"index": "Slice"}
    returns = "Seq[OutPort]"

    def requires(self, index):
        return handle_ok(self) and (isNone(index.step) or the(index.step) > 0)

    def modifies(self, index):
        return []

    def raises(self, index):
        n = self._num_out_ports
        lo_bad = notNone(index.start) and the(index.start) < 0 and (isNone(n) or the(index.start) < -the(n))
        hi_bad = notNone(index.stop) and the(index.stop) < 0 and (isNone(n) or the(index.stop) < -the(n))
        return {
            ValueError: isNone(n) and isNone(index.stop),
            IndexError: not (isNone(n) and isNone(index.stop)) and (lo_bad or hi_bad),
        }

    def ensures(self, index, result):
        n = self._num_out_ports
        out = elems(result)
        step = ite(isNone(index.step), 1, the(index.step))
        s = adj(the(n), index.start, 0)
        e = adj(the(n), index.stop, the(n))
        return {
            "P_len_empty": implies(notNone(n) and e <= s, len(out) == 0),
            "P_len": implies(notNone(n) and e > s, s + (len(out) - 1) * step < e and s + len(out) * step >= e and len(out) >= 1),
            "P_elems": implies(notNone(n), forall(int, lambda j: implies(0 <= j and j < len(out),
                                                                         eq(nth(out, j).node, self) and nth(out, j).offset == s + j * step))),
        }


@contract("hugr.hugr.node_port.Node.outputs", props=["C16"])
class outputs:
    def requires(self):
        return handle_ok(self)

    def modifies(self):
        return []

    def raises(self):
        return {ValueError: isNone(self._num_out_ports)}

    def ensures(self, result):
        out = elems(result)
        return {
            "P_count": len(out) == the(self._num_out_ports),
            "P_in_order": forall(int, lambda j: implies(0 <= j and j < len(out), eq(nth(out, j).node, self) and nth(out, j).offset == j)),
        }


@contract("hugr.hugr.node_port.Node.__iter__", props=["C16"])
class node_iter:
    def requires(self):
        return handle_ok(self)

    def modifies(self):
        return []

    def raises(self):
        return {ValueError: isNone(self._num_out_ports)}

    def ensures(self, result):
        out = elems(result)
        return {
            "P_count": len(out) == the(self._num_out_ports),
            "P_in_order": forall(int, lambda j: implies(0 <= j and j < len(out), eq(nth(out, j).node, self) and nth(out, j).offset == j)),
        }


@contract("hugr.hugr.node_port.Node.out_port", props=["C16"])
class node_out_port:
    returns = "OutPort"

    def modifies(self):
        return []

    def raises(self):
        return {}

    def ensures(self, result):
        return {"P_wire_is_output_0": eq(result.node, self) and result.offset == 0}


@contract("hugr.hugr.node_port.OutPort.out_port", props=["C16"])
class outport_out_port:
    returns = "OutPort"

    def modifies(self):
        return []

    def raises(self):
        return {}

    def ensures(self, result):
        return {"P_self": eq(result, self)}


@contract("hugr.hugr.node_port.Node.inp", props=["C16"])
class node_inp:
    returns = "InPort"

    def modifies(self, offset):
        return []

    def raises(self, offset):
        return {}

    def ensures(self, offset, result):
        return {"P_port": eq(result.node, self) and result.offset == offset}


@contract("hugr.hugr.node_port.Node.out", props=["C16"])
class node_out:
    returns = "OutPort"

    def modifies(self, offset):
        return []

    def raises(self, offset):
        return {}

    def ensures(self, offset, result):
        return {"P_port": eq(result.node, self) and result.offset == offset}


@contract("hugr.hugr.node_port.Node.to_node", props=["C16"])
class node_to_node:
    returns = "Node"

    def modifies(self):
        return []

    def raises(self):
        return {}

    def ensures(self, result):
        return {"P_self": eq(result, self)}


# ------------------------------------------------------------------------------------------
# ports compare and hash by node index and offset only; the generated __eq__/__hash__ are
# derived from the dataclass flags read from the AST, so a change of those flags changes
# what is proved here
@lemma
def ports_compare_by_index_and_offset(a: "OutPort", b: "OutPort", c: "InPort", d: "InPort", m: "Node", n: "Node"):
    return {
        "P_node_eq": (m == n) == (m.idx == n.idx),
        "P_out_eq": (a == b) == (a.node.idx == b.node.idx and a.offset == b.offset),
        "P_in_eq": (c == d) == (c.node.idx == d.node.idx and c.offset == d.offset),
        "P_in_ne_out": not (a == c),
    }
