"""Contracts for the builders' insert_* entry points (property C08, second half): the image of
the inserted HUGR's root hangs under the builder's parent and the given wires are attached to its
inputs in order.

Hugr.insert_hugr itself (the isomorphism) is ASSUMED here with the part of its specification the
wrappers need, and decided by the bounded run (bounded.c08); DfBase._wire_up is a trusted call
recorder (ghost trace: node and wires it was asked to connect; what wiring does is C01 / C04).
"""
from pyvc.dsl import *  # noqa: F401,F403

class_aliases = {
    "Node": "hugr.hugr.node_port.Node", "OutPort": "hugr.hugr.node_port.OutPort", "Hugr": "hugr.hugr.base.Hugr",
    "DfBase": "hugr.build.dfg.DfBase",
}
extra_fields = {
    "hugr.build.dfg.DfBase._tw_node": "Seq[Node]",
    "hugr.build.dfg.DfBase._tw_wires": "Seq[Seq[Union[Node, OutPort]]]",
    "hugr.hugr.base.Hugr._ti_src": "Seq[Hugr]",
    "hugr.hugr.base.Hugr._ti_parent": "Seq[Opt[Node]]",
    "hugr.hugr.base.Hugr._ti_map": "Seq[Dict[Node, Node]]",
}


@contract("hugr.hugr.base.Hugr.insert_hugr", props=[])
class insert_hugr:
    """ASSUMED (decided by bounded.c08): the returned mapping is defined on the inserted HUGR's root."""
    trusted = True
    types = {"parent": "Opt[Node]"}
    returns = "Dict[Node, Node]"

    def modifies(self, hugr, parent):
        return [self._ti_src, self._ti_parent, self._ti_map, self._nodes, self._links.fwd, self._links.bck, self._free_nodes]

    def raises(self, hugr, parent):
        return {}

    def ensures(self, hugr, parent, result):
        return {
            "defined_on_root": has(result, hugr.root),
            "trace_src": eq(self._ti_src, concat(old(self._ti_src), Seq(Hugr, hugr))),
            "trace_parent": eq(self._ti_parent, concat(old(self._ti_parent), Seq("Opt[Node]", parent))),
            "trace_map": eq(self._ti_map, concat(old(self._ti_map), Seq("Dict[Node, Node]", result))),
        }


@contract("hugr.build.dfg.DfBase._wire_up", props=[])
class wire_up:
    """TRUSTED recorder: which node was wired to which wires, in which order."""
    trusted = True
    types = {"ports": "Seq[Union[Node, OutPort]]"}
    returns = "Seq[Type]"

    def modifies(self, node, ports):
        return [self._tw_node, self._tw_wires, self.hugr._nodes, self.hugr._links.fwd, self.hugr._links.bck]

    def raises(self, node, ports):
        return {}

    def ensures(self, node, ports, result):
        return {"trace_node": eq(self._tw_node, concat(old(self._tw_node), Seq(Node, node))),
                "trace_wires": eq(self._tw_wires, concat(old(self._tw_wires), Seq("Seq[Union[Node, OutPort]]", ports)))}


@spec
def traces_aligned(self):
    """the ghost traces are parallel sequences (one entry per recorded call)"""
    return (len(self.hugr._ti_src) == len(self.hugr._ti_parent) and len(self.hugr._ti_src) == len(self.hugr._ti_map)
            and len(self._tw_node) == len(self._tw_wires))


@spec
def inserted(self, old_ti, builder_hugr, builder_root, result):
    """one insertion of builder_hugr under the builder's own parent; result is the image of its root"""
    n_i = len(self.hugr._ti_src)
    return (n_i == old_ti + 1
            and same_obj(nth(self.hugr._ti_src, n_i - 1), builder_hugr)
            and notNone(nth(self.hugr._ti_parent, n_i - 1)) and eq(the(nth(self.hugr._ti_parent, n_i - 1)), self.parent_node)
            and has(nth(self.hugr._ti_map, n_i - 1), builder_root)
            and eq(result, get(nth(self.hugr._ti_map, n_i - 1), builder_root)))


@spec
def wired(self, old_tw, wires, result):
    """then one wiring of that image to exactly `wires`, in order"""
    n_w = len(self._tw_node)
    return n_w == old_tw + 1 and eq(nth(self._tw_node, n_w - 1), result) and eq(nth(self._tw_wires, n_w - 1), wires)


@contract("hugr.build.dfg.DfBase._insert_nested_impl", props=["C08"])
class insert_nested_impl:
    types = {"args": "Seq[Union[Node, OutPort]]", "builder": "hugr.build.dfg.DfBase"}
    exact_self = False

    def requires(self, builder, args):
        # a stand-alone builder: its parent node is the root of its own HUGR
        return eq(builder.parent_node, builder.hugr.root) and not same_obj(builder.hugr, self.hugr) and traces_aligned(self)

    def modifies(self, builder, args):
        return [self._tw_node, self._tw_wires, self.hugr._ti_src, self.hugr._ti_parent, self.hugr._ti_map, self.hugr._nodes, self.hugr._links.fwd, self.hugr._links.bck, self.hugr._free_nodes]

    def raises(self, builder, args):
        return {}

    def ensures(self, builder, args, result):
        return {"P_root_image_under_parent": inserted(self, len(old(self.hugr._ti_src)), builder.hugr, builder.parent_node, result),
                "P_given_wires_attached": wired(self, len(old(self._tw_node)), args, result)}


@contract("hugr.build.dfg.DfBase.insert_nested", props=["C08"])
class insert_nested:
    types = {"args": "Seq[Union[Node, OutPort]]", "dfg": "hugr.build.dfg.DfBase"}
    exact_self = False

    def requires(self, dfg, args):
        return eq(dfg.parent_node, dfg.hugr.root) and not same_obj(dfg.hugr, self.hugr) and traces_aligned(self)

    def modifies(self, dfg, args):
        return [self._tw_node, self._tw_wires, self.hugr._ti_src, self.hugr._ti_parent, self.hugr._ti_map, self.hugr._nodes, self.hugr._links.fwd, self.hugr._links.bck, self.hugr._free_nodes]

    def raises(self, dfg, args):
        return {}

    def ensures(self, dfg, args, result):
        return {"P_root_image_under_parent": inserted(self, len(old(self.hugr._ti_src)), dfg.hugr, dfg.parent_node, result),
                "P_given_wires_attached": wired(self, len(old(self._tw_node)), args, result)}


@contract("hugr.build.dfg.DfBase.insert_cfg", props=["C08"])
class insert_cfg:
    types = {"args": "Seq[Union[Node, OutPort]]", "cfg": "hugr.build.dfg.DfBase"}
    exact_self = False

    def requires(self, cfg, args):
        return eq(cfg.parent_node, cfg.hugr.root) and not same_obj(cfg.hugr, self.hugr) and traces_aligned(self)

    def modifies(self, cfg, args):
        return [self._tw_node, self._tw_wires, self.hugr._ti_src, self.hugr._ti_parent, self.hugr._ti_map, self.hugr._nodes, self.hugr._links.fwd, self.hugr._links.bck, self.hugr._free_nodes]

    def raises(self, cfg, args):
        return {}

    def ensures(self, cfg, args, result):
        return {"P_root_image_under_parent": inserted(self, len(old(self.hugr._ti_src)), cfg.hugr, cfg.parent_node, result),
                "P_given_wires_attached": wired(self, len(old(self._tw_node)), args, result)}


@contract("hugr.build.dfg.DfBase.insert_conditional", props=["C08"])
class insert_conditional:
    types = {"args": "Seq[Union[Node, OutPort]]", "cond": "hugr.build.dfg.DfBase", "cond_wire": "Union[Node, OutPort]"}
    exact_self = False

    def requires(self, cond, cond_wire, args):
        return eq(cond.parent_node, cond.hugr.root) and not same_obj(cond.hugr, self.hugr) and traces_aligned(self)

    def modifies(self, cond, cond_wire, args):
        return [self._tw_node, self._tw_wires, self.hugr._ti_src, self.hugr._ti_parent, self.hugr._ti_map, self.hugr._nodes, self.hugr._links.fwd, self.hugr._links.bck, self.hugr._free_nodes]

    def raises(self, cond, cond_wire, args):
        return {}

    def ensures(self, cond, cond_wire, args, result):
        return {"P_root_image_under_parent": inserted(self, len(old(self.hugr._ti_src)), cond.hugr, cond.parent_node, result),
                # the branching wire first, then the remaining inputs
                "P_given_wires_attached": wired(self, len(old(self._tw_node)), concat(Seq("Union[Node, OutPort]", cond_wire), args), result)}


@contract("hugr.build.dfg.DfBase.insert_tail_loop", props=["C08"])
class insert_tail_loop:
    types = {"just_inputs": "Seq[Union[Node, OutPort]]", "rest": "Seq[Union[Node, OutPort]]", "tl": "hugr.build.dfg.DfBase"}
    exact_self = False

    def requires(self, tl, just_inputs, rest):
        return eq(tl.parent_node, tl.hugr.root) and not same_obj(tl.hugr, self.hugr) and traces_aligned(self)

    def modifies(self, tl, just_inputs, rest):
        return [self._tw_node, self._tw_wires, self.hugr._ti_src, self.hugr._ti_parent, self.hugr._ti_map, self.hugr._nodes, self.hugr._links.fwd, self.hugr._links.bck, self.hugr._free_nodes]

    def raises(self, tl, just_inputs, rest):
        return {}

    def ensures(self, tl, just_inputs, rest, result):
        return {"P_root_image_under_parent": inserted(self, len(old(self.hugr._ti_src)), tl.hugr, tl.parent_node, result),
                # the loop-only inputs first, then the rest
                "P_given_wires_attached": wired(self, len(old(self._tw_node)), concat(just_inputs, rest), result)}
