"""Contracts for extension resolution (property C11).

res_t(t, r) / res_a(a, r) name the result of resolving a constituent type / type argument against
registry r (interface contracts of Type.resolve / TypeArg.resolve); every implementation is verified
against its clause of the statement: an opaque type (operation) is replaced by its definition-backed
form exactly when the registry holds an extension of that name with a definition of that name -
with its arguments (signature) resolved - and is returned untouched otherwise; composite
expressions resolve position by position, keeping their shape, requirements and parameters; leaves
return themselves.
"""
from pyvc.dsl import *  # noqa: F401,F403

class_aliases = {
    "Type": "hugr.tys.Type", "TypeArg": "hugr.tys.TypeArg", "Opaque": "hugr.tys.Opaque", "ExtType": "hugr.tys.ExtType", "Sum": "hugr.tys.Sum",
    "UnitSum": "hugr.tys.UnitSum", "FunctionType": "hugr.tys.FunctionType", "PolyFuncType": "hugr.tys.PolyFuncType",
    "TypeTypeArg": "hugr.tys.TypeTypeArg", "SequenceArg": "hugr.tys.SequenceArg",
    "Registry": "hugr.ext.ExtensionRegistry", "Extension": "hugr.ext.Extension", "TypeDef": "hugr.ext.TypeDef", "OpDef": "hugr.ext.OpDef",
    "Custom": "hugr.ops.Custom", "ExtOp": "hugr.ops.ExtOp", "Op": "hugr.ops.Op",
}


@spec
def res_t(t, r):
    return ghost("res_t", "Type", t, r)


@spec
def res_a(a, r):
    return ghost("res_a", "TypeArg", a, r)


@spec
def row_res(ys, xs, r):
    return len(ys) == len(xs) and forall(int, lambda i: implies(0 <= i and i < len(xs), same_obj(nth(ys, i), res_t(nth(xs, i), r))))


@spec
def args_res(ys, xs, r):
    return len(ys) == len(xs) and forall(int, lambda i: implies(0 <= i and i < len(xs), same_obj(nth(ys, i), res_a(nth(xs, i), r))))


@spec
def has_type(r, ext_name, name):
    return has(r.extensions, ext_name) and has(get(r.extensions, ext_name).types, name)


@spec
def has_op(r, ext_name, name):
    return has(r.extensions, ext_name) and has(get(r.extensions, ext_name).operations, name)


# ---- interfaces ---------------------------------------------------------------------------------
@contract("hugr.tys.Type.resolve", props=[])
class type_resolve_interface:
    interface = True
    trusted = True
    ghost_def = True
    returns = "Type"

    def modifies(self, registry):
        return []

    def raises(self, registry):
        return {}

    def ensures(self, registry, result):
        return {"names_result": same_obj(result, res_t(self, registry))}


@contract("hugr.tys.TypeArg.resolve", props=[])
class arg_resolve_interface:
    interface = True
    trusted = True
    ghost_def = True
    returns = "TypeArg"

    def modifies(self, registry):
        return []

    def raises(self, registry):
        return {}

    def ensures(self, registry, result):
        return {"names_result": same_obj(result, res_a(self, registry))}


# ---- registry lookups -----------------------------------------------------------------------------
@contract("hugr.ext.ExtensionRegistry.get_extension", props=["C11"])
class registry_get_extension:
    returns = "Extension"

    def modifies(self, name):
        return []

    def raises(self, name):
        return {hugr.ext.ExtensionRegistry.ExtensionNotFound: not has(self.extensions, name)}

    def ensures(self, name, result):
        return {"P_held": same_obj(result, get(self.extensions, name))}


@contract("hugr.ext.Extension.get_type", props=["C11"])
class extension_get_type:
    returns = "TypeDef"

    def modifies(self, name):
        return []

    def raises(self, name):
        return {hugr.ext.Extension.TypeNotFound: not has(self.types, name)}

    def ensures(self, name, result):
        return {"P_held": same_obj(result, get(self.types, name))}


@contract("hugr.ext.Extension.get_op", props=["C11"])
class extension_get_op:
    returns = "OpDef"

    def modifies(self, name):
        return []

    def raises(self, name):
        return {hugr.ext.Extension.OperationNotFound: not has(self.operations, name)}

    def ensures(self, name, result):
        return {"P_held": same_obj(result, get(self.operations, name))}


# ---- the opaque type ------------------------------------------------------------------------------
@contract("hugr.tys.Opaque.resolve", props=["C11"])
class opaque_resolve:
    returns = "Type"

    def modifies(self, registry):
        return []

    def raises(self, registry):
        return {}

    def ensures(self, registry, result):
        found = has_type(registry, self.extension, self.id)
        return {
            "P_replaced_exactly_when_defined": iff(found, cls_is(result, ExtType)),
            "P_untouched_otherwise": implies(not found, same_obj(result, self)),
            "P_definition_is_the_registry_s": implies(found, same_obj(as_cls(result, ExtType).type_def, get(get(registry.extensions, self.extension).types, self.id))),
            "P_arguments_resolved": implies(found, args_res(as_cls(result, ExtType).args, self.args, registry)),
        }


# ---- composite types and arguments: position by position ---------------------------------------------
@contract("hugr.tys.Sum.resolve", props=["C11"])
class sum_resolve:
    returns = "Sum"
    exact_self = False

    def requires(self, registry):
        return not cls_is(self, UnitSum)

    def modifies(self, registry):
        return []

    def raises(self, registry):
        return {}

    def ensures(self, registry, result):
        return {"P_rows_resolved": len(result.variant_rows) == len(self.variant_rows)
                and forall(int, lambda i: implies(0 <= i and i < len(self.variant_rows), row_res(nth(result.variant_rows, i), nth(self.variant_rows, i), registry)))}


@contract("hugr.tys.UnitSum.resolve", props=["C11"])
class unitsum_resolve:
    returns = "UnitSum"

    def modifies(self, registry):
        return []

    def raises(self, registry):
        return {}

    def ensures(self, registry, result):
        return {"P_leaf_untouched": same_obj(result, self)}


@contract("hugr.tys.FunctionType.resolve", props=["C11"])
class functiontype_resolve:
    returns = "FunctionType"

    def modifies(self, registry):
        return []

    def raises(self, registry):
        return {}

    def ensures(self, registry, result):
        return {"P_inputs_resolved": row_res(result.input, self.input, registry), "P_outputs_resolved": row_res(result.output, self.output, registry),
                "P_requirements_kept": eq(result.runtime_reqs, self.runtime_reqs)}


@contract("hugr.tys.PolyFuncType.resolve", props=["C11"])
class polyfunctype_resolve:
    returns = "PolyFuncType"

    def modifies(self, registry):
        return []

    def raises(self, registry):
        return {}

    def ensures(self, registry, result):
        return {"P_params_kept": eq(result.params, self.params),
                "P_body_resolved": row_res(result.body.input, self.body.input, registry) and row_res(result.body.output, self.body.output, registry)
                and eq(result.body.runtime_reqs, self.body.runtime_reqs)}


@contract("hugr.tys.TypeTypeArg.resolve", props=["C11"])
class typetypearg_resolve:
    returns = "TypeArg"

    def modifies(self, registry):
        return []

    def raises(self, registry):
        return {}

    def ensures(self, registry, result):
        return {"P_type_resolved": cls_is(result, TypeTypeArg) and same_obj(as_cls(result, TypeTypeArg).ty, res_t(self.ty, registry))}


@contract("hugr.tys.SequenceArg.resolve", props=["C11"])
class sequencearg_resolve:
    returns = "TypeArg"

    def modifies(self, registry):
        return []

    def raises(self, registry):
        return {}

    def ensures(self, registry, result):
        return {"P_elements_resolved": cls_is(result, SequenceArg) and args_res(as_cls(result, SequenceArg).elems, self.elems, registry)}


# ---- the opaque operation -------------------------------------------------------------------------
@contract("hugr.ops.Custom.resolve", props=["C11"])
class custom_resolve:
    def modifies(self, registry):
        return []

    def raises(self, registry):
        return {}

    def ensures(self, registry, result):
        found = has_op(registry, self.extension, self.op_name)
        r = as_cls(result, ExtOp)
        return {
            "P_replaced_exactly_when_defined": iff(found, cls_is(result, ExtOp)),
            "P_untouched_otherwise": implies(not found, same_obj(result, self)),
            "P_definition_is_the_registry_s": implies(found, same_obj(r._op_def, get(get(registry.extensions, self.extension).operations, self.op_name))),
            "P_signature_resolved": implies(found, notNone(r.signature) and row_res(the(r.signature).input, self.signature.input, registry)
                                            and row_res(the(r.signature).output, self.signature.output, registry) and eq(the(r.signature).runtime_reqs, self.signature.runtime_reqs)),
            "P_arguments_resolved": implies(found, args_res(r.args, self.args, registry)),
            # ghost definition used at the HUGR level (contracts/resolve_hugr.py): the result is named res_op(self, registry)
            "A_names_result": same_obj(result, ghost("res_op", "Op", self, registry)),
        }
