"""DfBase.load (property C14, last clause): the LoadConstant built for a constant node produces a value
of the type the constant reports, and is linked to the constant's static port.  The plain builder /
graph-store calls are TRUSTED recorders (ghost traces); Value.type_ is named by the interface
contract of contracts/ops.py (vtype)."""
from pyvc.dsl import *  # noqa: F401,F403

class_aliases = {"Node": "hugr.hugr.node_port.Node", "OutPort": "hugr.hugr.node_port.OutPort", "InPort": "hugr.hugr.node_port.InPort", "Const": "hugr.ops.Const",
                 "LoadConst": "hugr.ops.LoadConst", "Command": "hugr.ops.Command", "DataflowOp": "hugr.ops.DataflowOp", "Value": "hugr.val.Value", "Type": "hugr.tys.Type"}
value_classes = ["hugr.ops.Command"]
field_types = {"hugr.ops.Command.incoming": "Seq[Union[Node, OutPort, int]]"}
extra_fields = {
    "hugr.build.dfg.DfBase._ta_op": "Seq[DataflowOp]", "hugr.build.dfg.DfBase._ta_node": "Seq[Node]",
    "hugr.hugr.base.Hugr._tl_src": "Seq[OutPort]", "hugr.hugr.base.Hugr._tl_dst": "Seq[InPort]",
    "hugr.build.dfg.DfBase._tc_val": "Seq[Value]", "hugr.build.dfg.DfBase._tc_parent": "Seq[Opt[Node]]", "hugr.build.dfg.DfBase._tc_node": "Seq[Node]",
}


@spec
def reported_outs(op):
    """ghost: the number of outputs the operation reports once add_op has wired it (DataflowOp.num_out; per class: C06)"""
    return ghost("num_out_after_wiring", "int", op)


@contract("hugr.build.dfg.DfBase.add", props=[])
class add_rec:
    trusted = True
    exact_self = False
    types = {"metadata": "Opt[Dict[str, Any]]"}
    returns = "Node"

    def modifies(self, com, metadata):
        return [self._ta_op, self._ta_node, self.hugr._nodes, self.hugr._free_nodes, self.hugr._links.fwd, self.hugr._links.bck, self.hugr._tl_src, self.hugr._tl_dst]

    def raises(self, com, metadata):
        return {}

    def ensures(self, com, metadata, result):
        return {"op": eq(self._ta_op, concat(old(self._ta_op), Seq(DataflowOp, com.op))), "node": eq(self._ta_node, concat(old(self._ta_node), Seq(Node, result))),
                "links_untouched": eq(self.hugr._tl_src, old(self.hugr._tl_src)) and eq(self.hugr._tl_dst, old(self.hugr._tl_dst)), "handle": result.idx >= 0,
                # as proved for add_op (contracts/build_io.py, P_handle_knows_the_output_count), which add hands the command to
                "handle_count": notNone(result._num_out_ports) and the(result._num_out_ports) == reported_outs(com.op)}


@contract("hugr.hugr.base.Hugr.add_link", props=[])
class add_link_rec:
    trusted = True

    def modifies(self, src, dst):
        return [self._tl_src, self._tl_dst, self._links.fwd, self._links.bck, "hugr.hugr.base.NodeData._num_outs", "hugr.hugr.base.NodeData._num_inps"]

    def raises(self, src, dst):
        return {}

    def ensures(self, src, dst, result):
        return {"src": eq(self._tl_src, concat(old(self._tl_src), Seq(OutPort, src))), "dst": eq(self._tl_dst, concat(old(self._tl_dst), Seq(InPort, dst)))}


@contract("hugr.build.dfg.DfBase.load#node", props=["C14", "C16"])
class load_node:
    types = {"const": "Node", "const_parent": "Opt[Node]"}
    exact_self = True
    self_class = "hugr.build.dfg.Dfg"
    returns = "Node"

    def requires(self, const, const_parent):
        h = self.hugr
        return (const.idx >= 0 and const.idx < len(h._nodes) and notNone(nth(h._nodes, const.idx)) and cls_is(the(nth(h._nodes, const.idx)).op, Const)
                and len(self._ta_op) == len(self._ta_node) and len(h._tl_src) == len(h._tl_dst))

    def modifies(self, const, const_parent):
        return [self._ta_op, self._ta_node, self.hugr._nodes, self.hugr._free_nodes, self.hugr._links.fwd, self.hugr._links.bck, self.hugr._tl_src, self.hugr._tl_dst,
                "hugr.hugr.base.NodeData._num_outs", "hugr.hugr.base.NodeData._num_inps"]

    def raises(self, const, const_parent):
        return {}

    def ensures(self, const, const_parent, result):
        h = self.hugr
        value = as_cls(the(nth(old(h._nodes), const.idx)).op, Const).val
        n_a = len(self._ta_op)
        n_l = len(h._tl_src)
        op = nth(self._ta_op, n_a - 1)
        return {
            "P_load_has_the_reported_type": n_a == len(old(self._ta_op)) + 1 and cls_is(op, LoadConst) and notNone(as_cls(op, LoadConst)._typ)
            and same_obj(the(as_cls(op, LoadConst)._typ), ghost("vtype", "Type", value)),
            "P_returns_the_load_node": eq(result, nth(self._ta_node, n_a - 1)),
            "P_handle_knows_the_output_count": notNone(result._num_out_ports) and the(result._num_out_ports) == reported_outs(op),
            "P_linked_to_the_constant": n_l == len(old(h._tl_src)) + 1 and eq(nth(h._tl_src, n_l - 1), OutPort(const, 0)) and eq(nth(h._tl_dst, n_l - 1), InPort(result, 0)),
        }


@contract("hugr.build.dfg.DefinitionBuilder.add_const", props=[])
class add_const_rec:
    """TRUSTED here: a call recorder (ghost trace) whose non-ghost clauses are the ones PROVED for the real body
    in contracts/add_const.py against the C04 contract of Hugr.add_node."""
    trusted = True
    exact_self = False
    types = {"value": "Value", "parent": "Opt[Node]"}
    returns = "Node"

    def modifies(self, value, parent):
        return [self._tc_val, self._tc_parent, self._tc_node, self.hugr._nodes, self.hugr._free_nodes,
                "hugr.hugr.base.NodeData.children", "hugr.hugr.base.NodeData._num_outs", "hugr.hugr.base.NodeData._num_inps"]

    def raises(self, value, parent):
        return {}

    def ensures(self, value, parent, result):
        h = self.hugr
        return {"t_val": eq(self._tc_val, concat(old(self._tc_val), Seq(Value, value))),
                "t_parent": eq(self._tc_parent, concat(old(self._tc_parent), Seq("Opt[Node]", parent))),
                "t_node": eq(self._tc_node, concat(old(self._tc_node), Seq(Node, result))),
                "const_node": result.idx >= 0 and result.idx < len(h._nodes) and notNone(nth(h._nodes, result.idx))
                and cls_is(the(nth(h._nodes, result.idx)).op, Const) and same_obj(as_cls(the(nth(h._nodes, result.idx)).op, Const).val, value)}


@contract("hugr.build.dfg.DfBase.load#value", props=["C14", "C16"])
class load_value:
    """const is a bare value: a Const node holding exactly that value is added first (DefinitionBuilder.add_const:
    recorder here, proved in contracts/add_const.py), under const_parent if given, else under the container; then
    as for a node (Hugr._get_typed_op is not under contract: its body is executed)."""
    types = {"const": "Value", "const_parent": "Opt[Node]"}
    exact_self = True
    self_class = "hugr.build.dfg.Dfg"
    returns = "Node"

    def requires(self, const, const_parent):
        h = self.hugr
        # the root, the container and the requested parent are nodes of the store (quantifier-free liveness facts; an input
        # invariant: without it any new lookup of those nodes would be reported as a possible KeyError)
        return (len(self._ta_op) == len(self._ta_node) and len(h._tl_src) == len(h._tl_dst)
                and len(self._tc_val) == len(self._tc_parent) and len(self._tc_val) == len(self._tc_node)
                and h.root.idx >= 0 and live(h, h.root.idx) and self.parent_node.idx >= 0 and live(h, self.parent_node.idx)
                and implies(notNone(const_parent), the(const_parent).idx >= 0 and live(h, the(const_parent).idx)))

    def modifies(self, const, const_parent):
        return [self._ta_op, self._ta_node, self._tc_val, self._tc_parent, self._tc_node, self.hugr._nodes, self.hugr._free_nodes, self.hugr._links.fwd, self.hugr._links.bck,
                self.hugr._tl_src, self.hugr._tl_dst, "hugr.hugr.base.NodeData.children", "hugr.hugr.base.NodeData._num_outs", "hugr.hugr.base.NodeData._num_inps"]

    def raises(self, const, const_parent):
        return {}

    def ensures(self, const, const_parent, result):
        h = self.hugr
        n_a = len(self._ta_op)
        n_l = len(h._tl_src)
        n_c = len(self._tc_val)
        op = nth(self._ta_op, n_a - 1)
        c = nth(self._tc_node, n_c - 1)
        p = nth(self._tc_parent, n_c - 1)
        return {
            "P_one_constant_node_holding_the_value": n_c == len(old(self._tc_val)) + 1 and len(self._tc_node) == n_c and len(self._tc_parent) == n_c and same_obj(nth(self._tc_val, n_c - 1), const),
            "P_constant_under_the_requested_parent": notNone(p) and the(p).idx == ite(isNone(const_parent), self.parent_node, the(const_parent)).idx,
            "P_load_has_the_reported_type": n_a == len(old(self._ta_op)) + 1 and cls_is(op, LoadConst) and notNone(as_cls(op, LoadConst)._typ)
            and same_obj(the(as_cls(op, LoadConst)._typ), ghost("vtype", "Type", const)),
            "P_returns_the_load_node": eq(result, nth(self._ta_node, n_a - 1)),
            "P_handle_knows_the_output_count": notNone(result._num_out_ports) and the(result._num_out_ports) == reported_outs(op),
            "P_linked_to_the_constant": n_l == len(old(h._tl_src)) + 1 and eq(nth(h._tl_src, n_l - 1), OutPort(c, 0)) and eq(nth(h._tl_dst, n_l - 1), InPort(result, 0)),
        }
