"""Per-class round-trip lemmas for the codec (C05, first direction: library objects).

For each class C of the data model:   deserialize(_to_serial(x)) is an object of the expected class
whose attributes are, attribute by attribute, those of x - with constituent types / arguments /
parameters related by the round-trip relation of their own kind (modular structural induction:
the hypothesis `ih_*` is the lemma for the constituents, which are structurally smaller).

  tser / tdes   serial form of a type / decoded type            teq(a, b): a equals b (opaque normal form)
  aser / ades   ... of a type argument                          aeq
  pser / pdes   ... of a type parameter                         peq
"""
from pyvc.dsl import *  # noqa: F401,F403

class_aliases = {
    "Type": "hugr.tys.Type", "TypeArg": "hugr.tys.TypeArg", "TypeParam": "hugr.tys.TypeParam",
    "SType": "hugr._serialization.tys.Type", "SArg": "hugr._serialization.tys.TypeArg", "SParam": "hugr._serialization.tys.TypeParam",
    "Sum": "hugr.tys.Sum", "UnitSum": "hugr.tys.UnitSum", "Tuple": "hugr.tys.Tuple", "Option": "hugr.tys.Option", "Either": "hugr.tys.Either",
    "Variable": "hugr.tys.Variable", "RowVariable": "hugr.tys.RowVariable", "USize": "hugr.tys.USize", "Alias": "hugr.tys.Alias",
    "FunctionType": "hugr.tys.FunctionType", "PolyFuncType": "hugr.tys.PolyFuncType", "ExtType": "hugr.tys.ExtType", "Opaque": "hugr.tys.Opaque",
    "QubitDef": "hugr.tys._QubitDef",
    "TypeTypeParam": "hugr.tys.TypeTypeParam", "BoundedNatParam": "hugr.tys.BoundedNatParam", "StringParam": "hugr.tys.StringParam",
    "ListParam": "hugr.tys.ListParam", "TupleParam": "hugr.tys.TupleParam", "ExtensionsParam": "hugr.tys.ExtensionsParam",
    "TypeTypeArg": "hugr.tys.TypeTypeArg", "BoundedNatArg": "hugr.tys.BoundedNatArg", "StringArg": "hugr.tys.StringArg",
    "SequenceArg": "hugr.tys.SequenceArg", "ExtensionsArg": "hugr.tys.ExtensionsArg", "VariableArg": "hugr.tys.VariableArg",
    "TypeBound": "hugr._serialization.tys.TypeBound", "TypeDef": "hugr.ext.TypeDef", "Extension": "hugr.ext.Extension",
    "Node": "hugr.hugr.node_port.Node",
}


@spec
def tser(t):
    return ghost("tser", "SType", t)


@spec
def tdes(s):
    return ghost("tdes", "Type", s)


@spec
def teq(a, b):
    return ghost("teq", "bool", a, b)


@spec
def aser(a):
    return ghost("aser", "SArg", a)


@spec
def ades(s):
    return ghost("ades", "TypeArg", s)


@spec
def aeq(a, b):
    return ghost("aeq", "bool", a, b)


@spec
def pser(p):
    return ghost("pser", "SParam", p)


@spec
def pdes(s):
    return ghost("pdes", "TypeParam", s)


@spec
def peq(a, b):
    return ghost("peq", "bool", a, b)


@spec
def ih_types():
    return forall(Type, lambda t: teq(tdes(tser(t)), t))


@spec
def ih_args():
    return forall(TypeArg, lambda a: aeq(ades(aser(a)), a))


@spec
def ih_params():
    return forall(TypeParam, lambda p: peq(pdes(pser(p)), p))


@spec
def row_rt(ys, xs):
    """ys is xs decoded after encoding, element by element"""
    return len(ys) == len(xs) and forall(int, lambda i: implies(0 <= i and i < len(xs), teq(nth(ys, i), nth(xs, i))))


@spec
def args_rt(ys, xs):
    return len(ys) == len(xs) and forall(int, lambda i: implies(0 <= i and i < len(xs), aeq(nth(ys, i), nth(xs, i))))


@spec
def params_rt(ys, xs):
    return len(ys) == len(xs) and forall(int, lambda i: implies(0 <= i and i < len(xs), peq(nth(ys, i), nth(xs, i))))


# ---- interface contracts of the constituent positions (trusted: they *name* the serial forms) --------
@contract("hugr.tys.Type._to_serial_root", props=[])
class type_to_serial_root:
    interface = True
    trusted = True
    returns = "SType"

    def modifies(self):
        return []

    def raises(self):
        return {}

    def ensures(self, result):
        return {"names": same_obj(result, tser(self))}


@contract("hugr._serialization.tys.Type.deserialize", props=[])
class stype_deserialize:
    trusted = True
    returns = "Type"

    def modifies(self):
        return []

    def raises(self):
        return {}

    def ensures(self, result):
        return {"names": same_obj(result, tdes(self))}


@contract("hugr.tys.TypeArg._to_serial_root", props=[])
class arg_to_serial_root:
    interface = True
    trusted = True
    returns = "SArg"

    def modifies(self):
        return []

    def raises(self):
        return {}

    def ensures(self, result):
        return {"names": same_obj(result, aser(self))}


@contract("hugr._serialization.tys.TypeArg.deserialize", props=[])
class sarg_deserialize:
    trusted = True
    returns = "TypeArg"

    def modifies(self):
        return []

    def raises(self):
        return {}

    def ensures(self, result):
        return {"names": same_obj(result, ades(self))}


@contract("hugr.tys.TypeParam._to_serial_root", props=[])
class param_to_serial_root:
    interface = True
    trusted = True
    returns = "SParam"

    def modifies(self):
        return []

    def raises(self):
        return {}

    def ensures(self, result):
        return {"names": same_obj(result, pser(self))}


@contract("hugr._serialization.tys.TypeParam.deserialize", props=[])
class sparam_deserialize:
    trusted = True
    returns = "TypeParam"

    def modifies(self):
        return []

    def raises(self):
        return {}

    def ensures(self, result):
        return {"names": same_obj(result, pdes(self))}


# ---- types ------------------------------------------------------------------------------------------------
@code_lemma
def rt_Variable(x: "Exact[Variable]"):
    y = x._to_serial().deserialize()
    return {"P_same": cls_is(y, Variable) and as_cls(y, Variable).idx == x.idx and as_cls(y, Variable).bound == x.bound}


@code_lemma
def rt_RowVariable(x: "Exact[RowVariable]"):
    y = x._to_serial().deserialize()
    return {"P_same": cls_is(y, RowVariable) and as_cls(y, RowVariable).idx == x.idx and as_cls(y, RowVariable).bound == x.bound}


@code_lemma
def rt_USize(x: "Exact[USize]"):
    y = x._to_serial().deserialize()
    return {"P_same": cls_is(y, USize)}


@code_lemma
def rt_Alias(x: "Exact[Alias]"):
    y = x._to_serial().deserialize()
    return {"P_same": cls_is(y, Alias) and as_cls(y, Alias).name == x.name and as_cls(y, Alias).bound == x.bound}


@code_lemma
def rt_Qubit(x: "Exact[QubitDef]"):
    y = x._to_serial().deserialize()
    return {"P_same": cls_is(y, QubitDef)}


@code_lemma
def rt_UnitSum(x: "Exact[UnitSum]"):
    assume(x.size >= 0)
    y = x._to_serial().deserialize()
    return {"P_same": cls_is(y, UnitSum) and as_cls(y, UnitSum).size == x.size and len(as_cls(y, UnitSum).variant_rows) == x.size}


@code_lemma
def rt_FunctionType(x: "Exact[FunctionType]"):
    assume(ih_types())
    y = x._to_serial().deserialize()
    return {"P_class": cls_is(y, FunctionType),
            "P_input": row_rt(as_cls(y, FunctionType).input, x.input),
            "P_output": row_rt(as_cls(y, FunctionType).output, x.output),
            "P_reqs": eq(as_cls(y, FunctionType).runtime_reqs, x.runtime_reqs)}


@code_lemma
def rt_PolyFuncType(x: "Exact[PolyFuncType]"):
    assume(ih_types() and ih_params())
    y = x._to_serial().deserialize()
    return {"P_class": cls_is(y, PolyFuncType),
            "P_params": params_rt(as_cls(y, PolyFuncType).params, x.params),
            "P_body_in": row_rt(as_cls(y, PolyFuncType).body.input, x.body.input),
            "P_body_out": row_rt(as_cls(y, PolyFuncType).body.output, x.body.output),
            "P_body_reqs": eq(as_cls(y, PolyFuncType).body.runtime_reqs, x.body.runtime_reqs)}


@code_lemma
def rt_Opaque(x: "Exact[Opaque]"):
    assume(ih_args())
    y = x._to_serial().deserialize()
    o = as_cls(y, Opaque)
    return {"P_class": cls_is(y, Opaque), "P_names": o.id == x.id and o.extension == x.extension and o.bound == x.bound,
            "P_args": args_rt(o.args, x.args)}


@code_lemma
def rt_ExtType(x: "Exact[ExtType]"):
    """extension types appear in their opaque form, with the computed bound"""
    assume(ih_args())
    assume(notNone(x.type_def._extension))
    b = x.type_def.bound
    assume(cls_is(b, hugr.ext.ExplicitBound) or cls_is(b, hugr.ext.FromParamsBound))
    assume(implies(cls_is(b, hugr.ext.FromParamsBound),
                   forall(int, lambda k: implies(0 <= k and k < len(as_cls(b, hugr.ext.FromParamsBound).indices),
                                                 0 <= nth(as_cls(b, hugr.ext.FromParamsBound).indices, k) and nth(as_cls(b, hugr.ext.FromParamsBound).indices, k) < len(x.args)))))
    y = x._to_serial().deserialize()
    o = as_cls(y, Opaque)
    return {"P_class": cls_is(y, Opaque), "P_names": o.id == x.type_def.name and o.extension == the(x.type_def._extension).name,
            "P_args": args_rt(o.args, x.args)}


@spec
def rows_rt(ys, xs):
    return len(ys) == len(xs) and forall((int, int), lambda i, j: implies(0 <= i and i < len(xs), len(nth(ys, i)) == len(nth(xs, i))
                                                                         and implies(0 <= j and j < len(nth(xs, i)), teq(nth(nth(ys, i), j), nth(nth(xs, i), j)))))


@code_lemma
def rt_Sum(x: "Sum"):
    """general sums and the sugar sums Tuple / Option / Either (they share Sum._to_serial): the decoded
    type is a general Sum with the same rows - equal to the sugar form by Sum.__eq__ (rows only)"""
    assume(ih_types())
    assume(not cls_is(x, UnitSum))
    y = x._to_serial().deserialize()
    return {"P_class": cls_is(y, Sum), "P_rows": rows_rt(as_cls(y, Sum).variant_rows, x.variant_rows)}


# ---- type parameters ---------------------------------------------------------------------------------------
@code_lemma
def rt_TypeTypeParam(x: "Exact[TypeTypeParam]"):
    y = x._to_serial().deserialize()
    return {"P_same": cls_is(y, TypeTypeParam) and as_cls(y, TypeTypeParam).bound == x.bound}


@code_lemma
def rt_BoundedNatParam(x: "Exact[BoundedNatParam]"):
    y = x._to_serial().deserialize()
    return {"P_same": cls_is(y, BoundedNatParam) and eq(as_cls(y, BoundedNatParam).upper_bound, x.upper_bound)}


@code_lemma
def rt_StringParam(x: "Exact[StringParam]"):
    y = x._to_serial().deserialize()
    return {"P_same": cls_is(y, StringParam)}


@code_lemma
def rt_ExtensionsParam(x: "Exact[ExtensionsParam]"):
    y = x._to_serial().deserialize()
    return {"P_same": cls_is(y, ExtensionsParam)}


@code_lemma
def rt_ListParam(x: "Exact[ListParam]"):
    assume(ih_params())
    y = x._to_serial().deserialize()
    return {"P_same": cls_is(y, ListParam) and peq(as_cls(y, ListParam).param, x.param)}


@code_lemma
def rt_TupleParam(x: "Exact[TupleParam]"):
    assume(ih_params())
    y = x._to_serial().deserialize()
    return {"P_same": cls_is(y, TupleParam), "P_params": params_rt(as_cls(y, TupleParam).params, x.params)}


# ---- type arguments ----------------------------------------------------------------------------------------
@code_lemma
def rt_TypeTypeArg(x: "Exact[TypeTypeArg]"):
    assume(ih_types())
    y = x._to_serial().deserialize()
    return {"P_same": cls_is(y, TypeTypeArg) and teq(as_cls(y, TypeTypeArg).ty, x.ty)}


@code_lemma
def rt_BoundedNatArg(x: "Exact[BoundedNatArg]"):
    y = x._to_serial().deserialize()
    return {"P_same": cls_is(y, BoundedNatArg) and as_cls(y, BoundedNatArg).n == x.n}


@code_lemma
def rt_StringArg(x: "Exact[StringArg]"):
    y = x._to_serial().deserialize()
    return {"P_same": cls_is(y, StringArg) and as_cls(y, StringArg).value == x.value}


@code_lemma
def rt_ExtensionsArg(x: "Exact[ExtensionsArg]"):
    y = x._to_serial().deserialize()
    return {"P_same": cls_is(y, ExtensionsArg) and eq(as_cls(y, ExtensionsArg).extensions, x.extensions)}


@code_lemma
def rt_SequenceArg(x: "Exact[SequenceArg]"):
    assume(ih_args())
    y = x._to_serial().deserialize()
    return {"P_same": cls_is(y, SequenceArg), "P_elems": args_rt(as_cls(y, SequenceArg).elems, x.elems)}


@code_lemma
def rt_VariableArg(x: "Exact[VariableArg]"):
    assume(ih_params())
    y = x._to_serial().deserialize()
    return {"P_same": cls_is(y, VariableArg) and as_cls(y, VariableArg).idx == x.idx and peq(as_cls(y, VariableArg).param, x.param)}


# ---- operations (all 21 serialized kinds) --------------------------------------------------------------------


@spec
def sig_rt(y, x):
    return row_rt(y.input, x.input) and row_rt(y.output, x.output) and eq(y.runtime_reqs, x.runtime_reqs)


@spec
def poly_rt(y, x):
    return params_rt(y.params, x.params) and sig_rt(y.body, x.body)


@code_lemma
def rt_op_Module(x: "Exact[hugr.ops.Module]", parent: "Node"):
    y = x._to_serial(parent).deserialize()
    return {"P_same": cls_is(y, hugr.ops.Module)}


@code_lemma
def rt_op_Input(x: "Exact[hugr.ops.Input]", parent: "Node"):
    assume(ih_types())
    y = x._to_serial(parent).deserialize()
    return {"P_class": cls_is(y, hugr.ops.Input), "P_types": row_rt(as_cls(y, hugr.ops.Input).types, x.types)}


@code_lemma
def rt_op_Output(x: "Exact[hugr.ops.Output]", parent: "Node"):
    assume(ih_types())
    assume(notNone(x._types))
    y = x._to_serial(parent).deserialize()
    o = as_cls(y, hugr.ops.Output)
    return {"P_class": cls_is(y, hugr.ops.Output), "P_types": notNone(o._types) and row_rt(the(o._types), the(x._types))}


@code_lemma
def rt_op_DFG(x: "Exact[hugr.ops.DFG]", parent: "Node"):
    assume(ih_types())
    assume(notNone(x._outputs))
    y = x._to_serial(parent).deserialize()
    o = as_cls(y, hugr.ops.DFG)
    return {"P_class": cls_is(y, hugr.ops.DFG), "P_inputs": row_rt(o.inputs, x.inputs), "P_outputs": notNone(o._outputs) and row_rt(the(o._outputs), the(x._outputs)),
            "P_delta": eq(o._extension_delta, x._extension_delta)}


@code_lemma
def rt_op_CFG(x: "Exact[hugr.ops.CFG]", parent: "Node"):
    assume(ih_types())
    assume(notNone(x._outputs))
    y = x._to_serial(parent).deserialize()
    o = as_cls(y, hugr.ops.CFG)
    return {"P_class": cls_is(y, hugr.ops.CFG), "P_inputs": row_rt(o.inputs, x.inputs), "P_outputs": notNone(o._outputs) and row_rt(the(o._outputs), the(x._outputs))}


@code_lemma
def rt_op_Case(x: "Exact[hugr.ops.Case]", parent: "Node"):
    assume(ih_types())
    assume(notNone(x._outputs))
    y = x._to_serial(parent).deserialize()
    o = as_cls(y, hugr.ops.Case)
    return {"P_class": cls_is(y, hugr.ops.Case), "P_inputs": row_rt(o.inputs, x.inputs), "P_outputs": notNone(o._outputs) and row_rt(the(o._outputs), the(x._outputs))}


@code_lemma
def rt_op_Conditional(x: "Exact[hugr.ops.Conditional]", parent: "Node"):
    assume(ih_types())
    assume(notNone(x._outputs))
    y = x._to_serial(parent).deserialize()
    o = as_cls(y, hugr.ops.Conditional)
    return {"P_class": cls_is(y, hugr.ops.Conditional), "P_sum_rows": rows_rt(o.sum_ty.variant_rows, x.sum_ty.variant_rows),
            "P_other_inputs": row_rt(o.other_inputs, x.other_inputs), "P_outputs": notNone(o._outputs) and row_rt(the(o._outputs), the(x._outputs))}


@code_lemma
def rt_op_TailLoop(x: "Exact[hugr.ops.TailLoop]", parent: "Node"):
    assume(ih_types())
    assume(notNone(x._just_outputs))
    y = x._to_serial(parent).deserialize()
    o = as_cls(y, hugr.ops.TailLoop)
    return {"P_class": cls_is(y, hugr.ops.TailLoop), "P_just_inputs": row_rt(o.just_inputs, x.just_inputs), "P_rest": row_rt(o.rest, x.rest),
            "P_just_outputs": notNone(o._just_outputs) and row_rt(the(o._just_outputs), the(x._just_outputs)), "P_delta": eq(o.extension_delta, x.extension_delta)}


@code_lemma
def rt_op_DataflowBlock(x: "Exact[hugr.ops.DataflowBlock]", parent: "Node"):
    assume(ih_types())
    assume(notNone(x._sum) and notNone(x._other_outputs))
    y = x._to_serial(parent).deserialize()
    o = as_cls(y, hugr.ops.DataflowBlock)
    return {"P_class": cls_is(y, hugr.ops.DataflowBlock), "P_inputs": row_rt(o.inputs, x.inputs),
            "P_sum_rows": notNone(o._sum) and rows_rt(the(o._sum).variant_rows, the(x._sum).variant_rows),
            "P_other_outputs": notNone(o._other_outputs) and row_rt(the(o._other_outputs), the(x._other_outputs)),
            "P_delta": eq(o.extension_delta, x.extension_delta)}


@code_lemma
def rt_op_ExitBlock(x: "Exact[hugr.ops.ExitBlock]", parent: "Node"):
    assume(ih_types())
    assume(notNone(x._cfg_outputs))
    y = x._to_serial(parent).deserialize()
    o = as_cls(y, hugr.ops.ExitBlock)
    return {"P_class": cls_is(y, hugr.ops.ExitBlock), "P_outputs": notNone(o._cfg_outputs) and row_rt(the(o._cfg_outputs), the(x._cfg_outputs))}


@code_lemma
def rt_op_Tag(x: "hugr.ops.Tag", parent: "Node"):
    """Tag and the sugar tags (Some / Left / Right / Continue / Break share Tag._to_serial): they come
    back as the general Tag with the same tag and variant rows"""
    assume(ih_types())
    y = x._to_serial(parent).deserialize()
    o = as_cls(y, hugr.ops.Tag)
    return {"P_class": cls_is(y, hugr.ops.Tag), "P_tag": o.tag == x.tag, "P_variants": rows_rt(o.sum_ty.variant_rows, x.sum_ty.variant_rows)}


@code_lemma
def rt_op_LoadConst(x: "Exact[hugr.ops.LoadConst]", parent: "Node"):
    assume(ih_types())
    assume(notNone(x._typ))
    y = x._to_serial(parent).deserialize()
    o = as_cls(y, hugr.ops.LoadConst)
    return {"P_class": cls_is(y, hugr.ops.LoadConst), "P_type": notNone(o._typ) and teq(the(o._typ), the(x._typ))}


@code_lemma
def rt_op_Call(x: "Exact[hugr.ops.Call]", parent: "Node"):
    assume(ih_types() and ih_params() and ih_args())
    # class invariant established by _CallOrLoad.__init__
    assume(ite(len(x.signature.params) == 0, same_obj(x.instantiation, x.signature.body) and len(x.type_args) == 0, len(x.type_args) == len(x.signature.params)))
    y = x._to_serial(parent).deserialize()
    o = as_cls(y, hugr.ops.Call)
    return {"P_class": cls_is(y, hugr.ops.Call), "P_signature": poly_rt(o.signature, x.signature), "P_instantiation": sig_rt(o.instantiation, x.instantiation),
            "P_type_args": args_rt(o.type_args, x.type_args)}


@code_lemma
def rt_op_LoadFunc(x: "Exact[hugr.ops.LoadFunc]", parent: "Node"):
    assume(ih_types() and ih_params() and ih_args())
    assume(ite(len(x.signature.params) == 0, same_obj(x.instantiation, x.signature.body) and len(x.type_args) == 0, len(x.type_args) == len(x.signature.params)))
    y = x._to_serial(parent).deserialize()
    o = as_cls(y, hugr.ops.LoadFunc)
    return {"P_class": cls_is(y, hugr.ops.LoadFunc), "P_signature": poly_rt(o.signature, x.signature), "P_instantiation": sig_rt(o.instantiation, x.instantiation),
            "P_type_args": args_rt(o.type_args, x.type_args)}


@code_lemma
def rt_op_CallIndirect(x: "Exact[hugr.ops.CallIndirect]", parent: "Node"):
    assume(ih_types())
    assume(notNone(x._signature))
    y = x._to_serial(parent).deserialize()
    o = as_cls(y, hugr.ops.CallIndirect)
    return {"P_class": cls_is(y, hugr.ops.CallIndirect), "P_signature": notNone(o._signature) and sig_rt(the(o._signature), the(x._signature))}


@code_lemma
def rt_op_FuncDefn(x: "Exact[hugr.ops.FuncDefn]", parent: "Node"):
    assume(ih_types() and ih_params())
    assume(notNone(x._outputs))
    y = x._to_serial(parent).deserialize()
    o = as_cls(y, hugr.ops.FuncDefn)
    return {"P_class": cls_is(y, hugr.ops.FuncDefn), "P_name": o.f_name == x.f_name, "P_type_parameters": params_rt(o.params, x.params),
            "P_inputs": row_rt(o.inputs, x.inputs), "P_outputs": notNone(o._outputs) and row_rt(the(o._outputs), the(x._outputs))}


@code_lemma
def rt_op_FuncDecl(x: "Exact[hugr.ops.FuncDecl]", parent: "Node"):
    assume(ih_types() and ih_params())
    y = x._to_serial(parent).deserialize()
    o = as_cls(y, hugr.ops.FuncDecl)
    return {"P_class": cls_is(y, hugr.ops.FuncDecl), "P_name": o.f_name == x.f_name, "P_signature": poly_rt(o.signature, x.signature)}


@code_lemma
def rt_op_AliasDecl(x: "Exact[hugr.ops.AliasDecl]", parent: "Node"):
    y = x._to_serial(parent).deserialize()
    o = as_cls(y, hugr.ops.AliasDecl)
    return {"P_same": cls_is(y, hugr.ops.AliasDecl) and o.alias == x.alias and o.bound == x.bound}


@code_lemma
def rt_op_AliasDefn(x: "Exact[hugr.ops.AliasDefn]", parent: "Node"):
    assume(ih_types())
    y = x._to_serial(parent).deserialize()
    o = as_cls(y, hugr.ops.AliasDefn)
    return {"P_same": cls_is(y, hugr.ops.AliasDefn) and o.alias == x.alias and teq(o.definition, x.definition)}


@code_lemma
def rt_op_Custom(x: "Exact[hugr.ops.Custom]", parent: "Node"):
    """opaque extension operations keep extension, name, signature, type arguments and description"""
    assume(ih_types() and ih_args())
    y = x._to_serial(parent).deserialize()
    o = as_cls(y, hugr.ops.Custom)
    return {"P_class": cls_is(y, hugr.ops.Custom), "P_names": o.op_name == x.op_name and o.extension == x.extension, "P_description": o.description == x.description,
            "P_signature": sig_rt(o.signature, x.signature), "P_args": args_rt(o.args, x.args)}


@code_lemma
def rt_op_ExtOp(x: "Exact[hugr.ops.ExtOp]", parent: "Node"):
    """extension operations come back as opaque operations with the same extension, name, signature,
    type arguments and the definition's description"""
    assume(ih_types() and ih_args())
    assume(notNone(x.signature) and notNone(x._op_def._extension))
    y = x._to_serial(parent).deserialize()
    o = as_cls(y, hugr.ops.Custom)
    return {"P_class": cls_is(y, hugr.ops.Custom), "P_names": o.op_name == x._op_def.name and o.extension == the(x._op_def._extension).name,
            "P_description": o.description == x._op_def.description, "P_signature": sig_rt(o.signature, the(x.signature)), "P_args": args_rt(o.args, x.args)}


# ---- values ---------------------------------------------------------------------------------------------------
@spec
def vser_root(v):
    return ghost("vser_root", "hugr._serialization.ops.BaseValue", v)


@spec
def vdes_root(s):
    return ghost("vdes_root", "hugr.val.Value", s)


@spec
def veq(a, b):
    return ghost("veq", "bool", a, b)


@spec
def ih_values():
    return forall(hugr.val.Value, lambda v: veq(vdes_root(vser_root(v)), v))


@spec
def vals_rt(ys, xs):
    return len(ys) == len(xs) and forall(int, lambda i: implies(0 <= i and i < len(xs), veq(nth(ys, i), nth(xs, i))))


@contract("hugr.val.Value._to_serial", props=[])
class value_to_serial_interface:
    interface = True
    trusted = True
    returns = "hugr._serialization.ops.BaseValue"

    def modifies(self):
        return []

    def raises(self):
        return {}

    def ensures(self, result):
        return {"names": same_obj(result, vser_root(self))}


@contract("hugr._serialization.ops.BaseValue.deserialize", props=[])
class basevalue_deserialize_interface:
    interface = True
    trusted = True
    returns = "hugr.val.Value"

    def modifies(self):
        return []

    def raises(self):
        return {}

    def ensures(self, result):
        return {"names": same_obj(result, vdes_root(self))}


@code_lemma
def rt_val_Sum(x: "Exact[hugr.val.Sum]"):
    assume(ih_types() and ih_values())
    assume(not cls_is(x.typ, UnitSum))
    y = x._to_serial().deserialize()
    o = as_cls(y, hugr.val.Sum)
    return {"P_class": cls_is(y, hugr.val.Sum), "P_tag": o.tag == x.tag, "P_type_rows": rows_rt(o.typ.variant_rows, x.typ.variant_rows), "P_fields": vals_rt(o.vals, x.vals)}


@code_lemma
def rt_val_Extension(x: "Exact[hugr.val.Extension]"):
    assume(ih_types())
    y = x._to_serial().deserialize()
    o = as_cls(y, hugr.val.Extension)
    return {"P_class": cls_is(y, hugr.val.Extension), "P_name": o.name == x.name, "P_type": teq(o.typ, x.typ), "P_payload": eq(o.val, x.val), "P_extensions": eq(o.extensions, x.extensions)}


@code_lemma
def rt_op_Const(x: "Exact[hugr.ops.Const]", parent: "Node"):
    assume(ih_values())
    y = x._to_serial(parent).deserialize()
    o = as_cls(y, hugr.ops.Const)
    return {"P_class": cls_is(y, hugr.ops.Const), "P_value": veq(o.val, x.val)}
