"""Contracts for the type layer (hugr/tys.py, hugr/_serialization/tys.py::TypeBound, std collections).

C07: a type is reported copyable only if all of its constituents are.

`cp(t)` ("every value of t can be copied") is a ghost predicate defined by structural recursion
on types, one clause per class, exactly as the statement lists them:

  Sum(rows) / Tuple / Option / Either / UnitSum : all elements of all rows are cp (an empty sum is cp)
  FunctionType, PolyFuncType, USize           : cp
  _QubitDef                                   : not cp
  Variable, RowVariable, Alias, Opaque        : declared bound is Copyable
  ExtType                                     : explicit bound of its definition, or every *type*
                                                argument at the indices the definition names is cp

Interface contract of Type.type_bound:  result == Copyable  <=>  cp(self).  Each override is
verified against its own clause, assuming the interface contract for the constituent types
(modular structural induction; types are finite trees).
"""
from pyvc.dsl import *  # noqa: F401,F403

class_aliases = {
    "Type": "hugr.tys.Type",
    "Sum": "hugr.tys.Sum",
    "UnitSum": "hugr.tys.UnitSum",
    "Tuple": "hugr.tys.Tuple",
    "Option": "hugr.tys.Option",
    "Either": "hugr.tys.Either",
    "Variable": "hugr.tys.Variable",
    "RowVariable": "hugr.tys.RowVariable",
    "USize": "hugr.tys.USize",
    "Alias": "hugr.tys.Alias",
    "FunctionType": "hugr.tys.FunctionType",
    "PolyFuncType": "hugr.tys.PolyFuncType",
    "ExtType": "hugr.tys.ExtType",
    "Opaque": "hugr.tys.Opaque",
    "QubitDef": "hugr.tys._QubitDef",
    "TypeTypeArg": "hugr.tys.TypeTypeArg",
    "TypeArg": "hugr.tys.TypeArg",
    "TypeBound": "hugr._serialization.tys.TypeBound",
    "ExplicitBound": "hugr.ext.ExplicitBound",
    "FromParamsBound": "hugr.ext.FromParamsBound",
    "TypeDef": "hugr.ext.TypeDef",
    "Extension": "hugr.ext.Extension",
    "Array": "hugr.std.collections.array.Array",
    "List": "hugr.std.collections.list.List",
    "StaticArray": "hugr.std.collections.static_array.StaticArray",
}


@spec
def cp(t):
    return ghost("copyable", "bool", t)


@spec
def rows_cp(rows):
    return forall((int, int), lambda i, j: implies(0 <= i and i < len(rows) and 0 <= j and j < len(nth(rows, i)), cp(nth(nth(rows, i), j))))


@contract("hugr.tys.Type.type_bound", props=["C07"])
class type_type_bound:
    """Interface contract (protocol stub: nothing to verify here; every override is verified below)."""
    interface = True
    trusted = True

    def modifies(self):
        return []

    def raises(self):
        return {}

    def ensures(self, result):
        return {"bound_iff_copyable": (result == TypeBound.Copyable) == cp(self)}


@contract("hugr._serialization.tys.TypeBound.join", props=["C07"])
class bound_join:
    def modifies(bs):
        return []

    def raises(bs):
        return {}

    def loop_1(bs, res, _i1):
        return {"no_any_so_far": forall(int, lambda j: implies(0 <= j and j < _i1, nth(bs, j) != TypeBound.Any)),
                "res_copyable": res == TypeBound.Copyable}

    def loop_1_noacc(bs, _i1):
        # alternative for implementations without an accumulator
        return {"no_any_so_far": forall(int, lambda j: implies(0 <= j and j < _i1, nth(bs, j) != TypeBound.Any))}

    def ensures(bs, result):
        return {"P_least_upper_bound": (result == TypeBound.Any) == exists(int, lambda j: 0 <= j and j < len(bs) and nth(bs, j) == TypeBound.Any),
                "as_membership": (result == TypeBound.Any) == contains(bs, TypeBound.Any),
                "P_empty_is_copyable": implies(len(bs) == 0, result == TypeBound.Copyable)}


# ---- one clause per class --------------------------------------------------------------------
@contract("hugr.tys.Sum.type_bound", props=["C07"])
class sum_type_bound:
    exact_self = False   # the same body serves UnitSum, Tuple, Option, Either

    def modifies(self):
        return []

    def raises(self):
        return {}

    def ensures(self, result):
        return {"P_sum": (result == TypeBound.Copyable) == rows_cp(self.variant_rows)}


@contract("hugr.tys.Variable.type_bound", props=["C07"])
class variable_type_bound:
    def modifies(self):
        return []

    def raises(self):
        return {}

    def ensures(self, result):
        return {"P_declared": result == self.bound}


@contract("hugr.tys.RowVariable.type_bound", props=["C07"])
class rowvariable_type_bound:
    def modifies(self):
        return []

    def raises(self):
        return {}

    def ensures(self, result):
        return {"P_declared": result == self.bound}


@contract("hugr.tys.Alias.type_bound", props=["C07"])
class alias_type_bound:
    def modifies(self):
        return []

    def raises(self):
        return {}

    def ensures(self, result):
        return {"P_declared": result == self.bound}


@contract("hugr.tys.Opaque.type_bound", props=["C07"])
class opaque_type_bound:
    def modifies(self):
        return []

    def raises(self):
        return {}

    def ensures(self, result):
        return {"P_declared": result == self.bound}


@contract("hugr.tys.USize.type_bound", props=["C07"])
class usize_type_bound:
    def modifies(self):
        return []

    def raises(self):
        return {}

    def ensures(self, result):
        return {"P_copyable": result == TypeBound.Copyable}


@contract("hugr.tys.FunctionType.type_bound", props=["C07"])
class functiontype_type_bound:
    def modifies(self):
        return []

    def raises(self):
        return {}

    def ensures(self, result):
        return {"P_copyable": result == TypeBound.Copyable}


@contract("hugr.tys.PolyFuncType.type_bound", props=["C07"])
class polyfunctype_type_bound:
    def modifies(self):
        return []

    def raises(self):
        return {}

    def ensures(self, result):
        return {"P_copyable": result == TypeBound.Copyable}


@contract("hugr.tys._QubitDef.type_bound", props=["C07"])
class qubit_type_bound:
    def modifies(self):
        return []

    def raises(self):
        return {}

    def ensures(self, result):
        return {"P_linear": result == TypeBound.Any}


@spec
def args_cp(args, indices):
    """every type argument at the named indices is copyable"""
    return forall(int, lambda k: implies(0 <= k and k < len(indices) and cls_is(nth(args, nth(indices, k)), TypeTypeArg),
                                         cp(as_cls(nth(args, nth(indices, k)), TypeTypeArg).ty)))


@contract("hugr.tys.ExtType.type_bound", props=["C07"])
class exttype_type_bound:
    def requires(self):
        b = self.type_def.bound
        # the indices a definition names are positions of the argument list
        return implies(cls_is(b, FromParamsBound), forall(int, lambda k: implies(0 <= k and k < len(as_cls(b, FromParamsBound).indices), 0 <= nth(as_cls(b, FromParamsBound).indices, k) and nth(as_cls(b, FromParamsBound).indices, k) < len(self.args))))

    def modifies(self):
        return []

    def raises(self):
        return {}

    def loop_1(self, indices, bounds, _i1):
        return {"any_recorded_iff_linear_arg_seen":
                contains(bounds, TypeBound.Any) == exists(int, lambda k: 0 <= k and k < _i1 and cls_is(nth(self.args, nth(indices, k)), TypeTypeArg)
                                                          and not cp(as_cls(nth(self.args, nth(indices, k)), TypeTypeArg).ty))}

    def ensures(self, result):
        b = self.type_def.bound
        return {"P_explicit": implies(cls_is(b, ExplicitBound), result == as_cls(b, ExplicitBound).bound),
                "P_from_params": implies(cls_is(b, FromParamsBound), (result == TypeBound.Copyable) == args_cp(self.args, as_cls(b, FromParamsBound).indices))}


@contract("hugr.tys.ExtType._to_opaque", props=["C07"])
class exttype_to_opaque:
    returns = "Opaque"

    def requires(self):
        b = self.type_def.bound
        return (cls_is(b, ExplicitBound) or cls_is(b, FromParamsBound)) and implies(cls_is(b, FromParamsBound), forall(int, lambda k: implies(0 <= k and k < len(as_cls(b, FromParamsBound).indices), 0 <= nth(as_cls(b, FromParamsBound).indices, k) and nth(as_cls(b, FromParamsBound).indices, k) < len(self.args))))

    def modifies(self):
        return []

    def raises(self):
        return {AssertionError: isNone(self.type_def._extension)}

    def ensures(self, result):
        b = self.type_def.bound
        return {"P_written_bound_is_computed": implies(cls_is(b, ExplicitBound), result.bound == as_cls(b, ExplicitBound).bound)
                and implies(cls_is(b, FromParamsBound), (result.bound == TypeBound.Copyable) == args_cp(self.args, as_cls(b, FromParamsBound).indices)),
                "same_args": eq(result.args, self.args) and result.id == self.type_def.name,
                "extension_name": result.extension == the(self.type_def._extension).name}


# ---- sugar constructors: they build exactly the rows the statement names ---------------------
@contract("hugr.tys.Tuple.__init__", props=["C07"])
class tuple_init:
    def modifies(self, tys):
        return [self.variant_rows]

    def raises(self, tys):
        return {}

    def ensures(self, tys, result):
        return {"P_one_row": len(self.variant_rows) == 1 and eq(nth(self.variant_rows, 0), tys)}


@contract("hugr.tys.Option.__init__", props=["C07"])
class option_init:
    def modifies(self, tys):
        return [self.variant_rows]

    def raises(self, tys):
        return {}

    def ensures(self, tys, result):
        return {"P_none_then_some": len(self.variant_rows) == 2 and len(nth(self.variant_rows, 0)) == 0 and eq(nth(self.variant_rows, 1), tys)}


@contract("hugr.tys.Either.__init__", props=["C07"])
class either_init:
    def modifies(self, left, right):
        return [self.variant_rows]

    def raises(self, left, right):
        return {}

    def ensures(self, left, right, result):
        return {"P_left_right": len(self.variant_rows) == 2 and eq(nth(self.variant_rows, 0), left) and eq(nth(self.variant_rows, 1), right)}


@contract("hugr.tys.UnitSum.__init__", props=["C07"])
class unitsum_init:
    def requires(self, size):
        return size >= 0

    def modifies(self, size):
        return [self.variant_rows, self.size]

    def raises(self, size):
        return {}

    def ensures(self, size, result):
        return {"P_size_empty_rows": len(self.variant_rows) == size and self.size == size
                and forall(int, lambda i: implies(0 <= i and i < size, len(nth(self.variant_rows, i)) == 0)),
                # an all-empty sum (incl. the empty sum) is copyable by the Sum clause
                "P_copyable": rows_cp(self.variant_rows)}


# ---- standard collections ---------------------------------------------------------------------
@contract("hugr.std._load_extension", props=[])
class load_extension:
    """TRUSTED: loading a bundled definition file (pkgutil + pydantic).  The ground facts below are
    re-checked against the JSON files under /repo on every run (checks/c07.py::ground_defs)."""
    trusted = True
    returns = "Extension"

    def modifies(name):
        return []

    def raises(name):
        return {}

    def ensures(name, result):
        return {"deterministic": eq(result, ghost("std_ext", "Extension", name)),
                "array_def": implies(name == "collections.array", has(result.types, "array")),
                "list_def": implies(name == "collections.list", has(result.types, "List")),
                "static_array_def": implies(name == "collections.static_array", has(result.types, "static_array")),
                "int_def": implies(name == "arithmetic.int.types", has(result.types, "int")),
                "float_def": implies(name == "arithmetic.float.types", has(result.types, "float64")),
                "string_def": implies(name == "prelude", has(result.types, "string") and has(result.operations, "MakeTuple")
                                      and has(result.operations, "UnpackTuple") and has(result.operations, "Noop"))}


@spec
def elem_arg_ok(t, pos, n):
    return len(t.args) == n and cls_is(nth(t.args, pos), TypeTypeArg)


@contract("hugr.std.collections.array.Array.__init__", props=["C07"])
class array_init:
    types = {"size": "Union[int, TypeArg]"}

    def modifies(self, ty, size):
        return [self.type_def, self.args]

    def raises(self, ty, size):
        return {ValueError: not isinstance(size, int) and not cls_is(size, hugr.tys.BoundedNatArg)
                and not (cls_is(size, hugr.tys.VariableArg) and cls_is(as_cls(size, hugr.tys.VariableArg).param, hugr.tys.BoundedNatParam))}

    def ensures(self, ty, size, result):
        return {"elem_is_arg_1": elem_arg_ok(self, 1, 2) and same_obj(as_cls(nth(self.args, 1), TypeTypeArg).ty, ty),
                "size_is_arg_0": implies(isinstance(size, int), cls_is(nth(self.args, 0), hugr.tys.BoundedNatArg) and as_cls(nth(self.args, 0), hugr.tys.BoundedNatArg).n == size),
                "array_def": implies(has(ghost("std_ext", "Extension", "collections.array").types, "array"),
                                     same_obj(self.type_def, get(ghost("std_ext", "Extension", "collections.array").types, "array")))}


@contract("hugr.std.collections.array.Array.type_bound", props=["C07"])
class array_type_bound:
    def requires(self):
        return elem_arg_ok(self, 1, 2)

    def modifies(self):
        return []

    def raises(self):
        return {}

    def ensures(self, result):
        return {"P_element_bound": (result == TypeBound.Copyable) == cp(as_cls(nth(self.args, 1), TypeTypeArg).ty)}


@contract("hugr.std.collections.list.List.__init__", props=["C07"])
class list_init:
    def modifies(self, ty):
        return [self.type_def, self.args]

    def raises(self, ty):
        return {}

    def ensures(self, ty, result):
        return {"elem_is_arg_0": elem_arg_ok(self, 0, 1) and same_obj(as_cls(nth(self.args, 0), TypeTypeArg).ty, ty),
                "list_def": same_obj(self.type_def, get(ghost("std_ext", "Extension", "collections.list").types, "List"))}


@contract("hugr.std.collections.list.List.type_bound", props=["C07"])
class list_type_bound:
    def requires(self):
        return elem_arg_ok(self, 0, 1)

    def modifies(self):
        return []

    def raises(self):
        return {}

    def ensures(self, result):
        return {"P_element_bound": (result == TypeBound.Copyable) == cp(as_cls(nth(self.args, 0), TypeTypeArg).ty)}


@contract("hugr.std.collections.static_array.StaticArray.__init__", props=["C07"])
class static_array_init:
    def modifies(self, ty):
        return [self.type_def, self.args]

    def raises(self, ty):
        # containers that require copyable elements reject linear ones
        return {ValueError: not cp(ty)}

    def ensures(self, ty, result):
        return {"elem_is_arg_0": elem_arg_ok(self, 0, 1) and same_obj(as_cls(nth(self.args, 0), TypeTypeArg).ty, ty),
                "static_array_def": same_obj(self.type_def, get(ghost("std_ext", "Extension", "collections.static_array").types, "static_array")),
                "P_element_copyable": cp(ty)}


@contract("hugr.std.collections.static_array.StaticArray.type_bound", props=["C07"])
class static_array_type_bound:
    def requires(self):
        return elem_arg_ok(self, 0, 1)

    def modifies(self):
        return []

    def raises(self):
        return {}

    def ensures(self, result):
        return {"P_element_bound": (result == TypeBound.Copyable) == cp(as_cls(nth(self.args, 0), TypeTypeArg).ty)}


@lemma
def collection_overrides_agree_with_generic_rule(args: "Seq[TypeArg]"):
    """For the bounds the bundled definitions declare (FromParams [1] for array, [0] for List --
    ground-checked against the JSON files), the generic ExtType rule is the element's bound."""
    return {
        "P_array": implies(len(args) == 2 and cls_is(nth(args, 1), TypeTypeArg),
                           args_cp(args, Seq(int, 1)) == cp(as_cls(nth(args, 1), TypeTypeArg).ty)),
        "P_list": implies(len(args) == 1 and cls_is(nth(args, 0), TypeTypeArg),
                          args_cp(args, Seq(int, 0)) == cp(as_cls(nth(args, 0), TypeTypeArg).ty)),
    }
