"""val.Function.type_ (property C14): a function-valued constant has the signature of its body - the
inner signature its root operation reports (named by a ghost definition; the per-class inner
signatures are proved in contracts/ops.py)."""
from pyvc.dsl import *  # noqa: F401,F403

class_aliases = {"FunctionType": "hugr.tys.FunctionType", "Type": "hugr.tys.Type", "DfParentOp": "hugr.ops.DfParentOp", "Function": "hugr.val.Function"}


@contract("hugr.ops.DfParentOp.inner_signature", props=[])
class dfparent_inner_interface:
    interface = True
    trusted = True
    ghost_def = True
    returns = "FunctionType"
    may_raise = ["hugr.ops.IncompleteOp"]

    def modifies(self):
        return []

    def raises(self):
        return {}

    def ensures(self, result):
        return {"rows": eq(result.input, ghost("inner_in", "Seq[Type]", self)) and eq(result.output, ghost("inner_out", "Seq[Type]", self))}


@contract("hugr.val.Function.type_", props=["C14"])
class function_type:
    returns = "FunctionType"
    may_raise = ["hugr.ops.IncompleteOp"]

    def requires(self):
        b = self.body
        return b.root.idx >= 0 and live(b, b.root.idx) and isinstance(data(b, b.root.idx).op, DfParentOp)

    def modifies(self):
        return []

    def raises(self):
        return {}

    def ensures(self, result):
        root = data(self.body, self.body.root.idx).op
        return {"P_signature_of_its_body": eq(result.input, ghost("inner_in", "Seq[Type]", root)) and eq(result.output, ghost("inner_out", "Seq[Type]", root))}
