"""DefinitionBuilder.add_const (property C14, used by DfBase.load of a bare value): exactly one node is added, it
holds Const(value), sits under the requested parent (the HUGR root if none is given), and no other node moves.
Proved for the real body against the C04 contract of Hugr.add_node (contracts/base.py)."""
from pyvc.dsl import *  # noqa: F401,F403

class_aliases = {"Node": "hugr.hugr.node_port.Node", "Const": "hugr.ops.Const", "Value": "hugr.val.Value"}


@contract("hugr.build.dfg.DefinitionBuilder.add_const", props=["C14"])
class add_const:
    types = {"value": "Value", "parent": "Opt[Node]"}
    exact_self = False
    returns = "Node"

    def requires(self, value, parent):
        h = self.hugr
        return (nodes_wf(h) and h.root.idx >= 0 and live(h, h.root.idx)
                and implies(notNone(parent), the(parent).idx >= 0 and live(h, the(parent).idx)))

    def modifies(self, value, parent):
        return [self.hugr._nodes, self.hugr._free_nodes, "hugr.hugr.base.NodeData.children", "hugr.hugr.base.NodeData._num_outs", "hugr.hugr.base.NodeData._num_inps"]

    def raises(self, value, parent):
        return {}

    def ensures(self, value, parent, result):
        h = self.hugr
        i = result.idx
        d = data(h, i)
        p = ite(isNone(parent), h.root, the(parent))
        return {
            "P_new_node": i >= 0 and not old(live(h, i)) and live(h, i),
            "P_holds_the_value": cls_is(d.op, Const) and same_obj(as_cls(d.op, Const).val, value),
            "P_under_the_requested_parent": notNone(d.parent) and the(d.parent).idx == p.idx,
            "P_others_keep_their_index": forall(int, lambda j: implies(old(live(h, j)) and j != i, live(h, j) and same_obj(data(h, j), old(data(h, j))))),
            "wf": nodes_wf(h),
        }
