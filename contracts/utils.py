"""Contracts for hugr/utils.py::BiMap  (property C18).

View: pairs(bm) = {(k, v) | fwd[k] = v}.  Class invariant: fwd and bck are exact inverses.
Keys/values range over the abstract sorts L and R (no `None` inside them: the implementation
tests `is not None` on dict.get results; falsy members of L/R are allowed -- truthiness of an
element of L/R is an uninterpreted predicate).
"""
from pyvc.dsl import *  # noqa: F401,F403  (run-time versions of the spec builtins)

class_aliases = {
    "BiMap": "hugr.utils.BiMap",
    "NotBijection": "hugr.utils.NotBijection",
}


@spec
def bimap_inv(bm):
    return forall((L, R), lambda k, v: iff(has(bm.fwd, k) and get(bm.fwd, k) == v,
                                           has(bm.bck, v) and get(bm.bck, v) == k))


@contract("hugr.utils.BiMap.__init__", props=["C18"])
class bimap_init:
    types = {"fwd": "Opt[Dict[L, R]]"}

    def modifies(self, fwd):
        return [self.fwd, self.bck]

    def raises(self, fwd):
        return {NotBijection: notNone(fwd) and not inj(the(fwd))}

    def ensures(self, fwd, result):
        return {
            "P_inv": bimap_inv(self),
            "P_view_given": implies(notNone(fwd), forall(L, lambda k: has(self.fwd, k) == has(the(fwd), k)
                                                         and implies(has(self.fwd, k), get(self.fwd, k) == get(the(fwd), k)))),
            "P_view_empty": implies(isNone(fwd), forall(L, lambda k: not has(self.fwd, k))),
        }


@contract("hugr.utils.BiMap.insert_left", props=["C18"])
class insert_left:
    def requires(self, key, value):
        return bimap_inv(self)

    def modifies(self, key, value):
        return [self.fwd, self.bck]

    def raises(self, key, value):
        return {}

    def ensures(self, key, value, result):
        return {
            "P_inv": bimap_inv(self),
            # whole view: the new pair is present, every pair sharing its key or its value is
            # gone, and nothing else changed
            "P_view_dom": forall(L, lambda k: has(self.fwd, k) == (k == key or (has(old(self.fwd), k) and get(old(self.fwd), k) != value))),
            "P_view_val": forall(L, lambda k: implies(has(self.fwd, k), get(self.fwd, k) == (value if k == key else get(old(self.fwd), k)))),
            # the same statement read from the backward side (used by clients that look up by value)
            "P_back_dom": forall(R, lambda v: has(self.bck, v) == (v == value or (has(old(self.bck), v) and get(old(self.bck), v) != key))),
            "P_back_val": forall(R, lambda v: implies(has(self.bck, v), get(self.bck, v) == (key if v == value else get(old(self.bck), v)))),
        }


@contract("hugr.utils.BiMap.insert_right", props=["C18"])
class insert_right:
    def requires(self, key, value):
        return bimap_inv(self)

    def modifies(self, key, value):
        return [self.fwd, self.bck]

    def raises(self, key, value):
        return {}

    def ensures(self, key, value, result):
        return {
            "P_inv": bimap_inv(self),
            "P_view_dom": forall(R, lambda r: has(self.bck, r) == (r == key or (has(old(self.bck), r) and get(old(self.bck), r) != value))),
            "P_view_val": forall(R, lambda r: implies(has(self.bck, r), get(self.bck, r) == (value if r == key else get(old(self.bck), r)))),
        }


@contract("hugr.utils.BiMap.__setitem__", props=["C18"])
class setitem:
    def requires(self, key, value):
        return bimap_inv(self)

    def modifies(self, key, value):
        return [self.fwd, self.bck]

    def raises(self, key, value):
        return {}

    def ensures(self, key, value, result):
        return {
            "P_inv": bimap_inv(self),
            "P_view_dom": forall(L, lambda k: has(self.fwd, k) == (k == key or (has(old(self.fwd), k) and get(old(self.fwd), k) != value))),
            "P_view_val": forall(L, lambda k: implies(has(self.fwd, k), get(self.fwd, k) == (value if k == key else get(old(self.fwd), k)))),
        }


@contract("hugr.utils.BiMap.delete_left", props=["C18"])
class delete_left:
    def requires(self, key):
        return bimap_inv(self)

    def modifies(self, key):
        return [self.fwd, self.bck]

    def raises(self, key):
        return {KeyError: not has(self.fwd, key)}

    def raises_ensures(self, key):
        return {"P_unchanged": eq(self.fwd, old(self.fwd)) and eq(self.bck, old(self.bck))}

    def ensures(self, key, result):
        return {
            "P_inv": bimap_inv(self),
            "P_view_dom": forall(L, lambda k: has(self.fwd, k) == (has(old(self.fwd), k) and k != key)),
            "P_view_val": forall(L, lambda k: implies(has(self.fwd, k), get(self.fwd, k) == get(old(self.fwd), k))),
            "P_back_dom": forall(R, lambda v: has(self.bck, v) == (has(old(self.bck), v) and v != get(old(self.fwd), key))),
            "P_back_val": forall(R, lambda v: implies(has(self.bck, v), get(self.bck, v) == get(old(self.bck), v))),
        }


@contract("hugr.utils.BiMap.delete_right", props=["C18"])
class delete_right:
    def requires(self, key):
        return bimap_inv(self)

    def modifies(self, key):
        return [self.fwd, self.bck]

    def raises(self, key):
        return {KeyError: not has(self.bck, key)}

    def raises_ensures(self, key):
        return {"P_unchanged": eq(self.fwd, old(self.fwd)) and eq(self.bck, old(self.bck))}

    def ensures(self, key, result):
        return {
            "P_inv": bimap_inv(self),
            "P_view_dom": forall(R, lambda r: has(self.bck, r) == (has(old(self.bck), r) and r != key)),
            "P_view_val": forall(R, lambda r: implies(has(self.bck, r), get(self.bck, r) == get(old(self.bck), r))),
            "P_fwd_dom": forall(L, lambda k: has(self.fwd, k) == (has(old(self.fwd), k) and k != get(old(self.bck), key))),
            "P_fwd_val": forall(L, lambda k: implies(has(self.fwd, k), get(self.fwd, k) == get(old(self.fwd), k))),
        }


@contract("hugr.utils.BiMap.__delitem__", props=["C18"])
class delitem:
    def requires(self, key):
        return bimap_inv(self)

    def modifies(self, key):
        return [self.fwd, self.bck]

    def raises(self, key):
        return {KeyError: not has(self.fwd, key)}

    def ensures(self, key, result):
        return {
            "P_inv": bimap_inv(self),
            "P_view_dom": forall(L, lambda k: has(self.fwd, k) == (has(old(self.fwd), k) and k != key)),
            "P_view_val": forall(L, lambda k: implies(has(self.fwd, k), get(self.fwd, k) == get(old(self.fwd), k))),
        }


@contract("hugr.utils.BiMap.__getitem__", props=["C18"])
class getitem:
    def requires(self, key):
        return bimap_inv(self)

    def modifies(self, key):
        return []

    def raises(self, key):
        return {KeyError: not has(self.fwd, key)}

    def ensures(self, key, result):
        return {"P_lookup": result == get(self.fwd, key),
                "P_agree": has(self.bck, result) and get(self.bck, result) == key}


@contract("hugr.utils.BiMap.get_right", props=["C18"])
class get_right:
    returns = "Opt[R]"

    def requires(self, key):
        return bimap_inv(self)

    def modifies(self, key):
        return []

    def raises(self, key):
        return {}

    def ensures(self, key, result):
        return {"P_lookup": iff(isNone(result), not has(self.fwd, key)) and implies(notNone(result), the(result) == get(self.fwd, key)),
                "P_agree": implies(notNone(result), has(self.bck, the(result)) and get(self.bck, the(result)) == key)}


@contract("hugr.utils.BiMap.get_left", props=["C18"])
class get_left:
    returns = "Opt[L]"

    def requires(self, key):
        return bimap_inv(self)

    def modifies(self, key):
        return []

    def raises(self, key):
        return {}

    def ensures(self, key, result):
        return {"P_lookup": iff(isNone(result), not has(self.bck, key)) and implies(notNone(result), the(result) == get(self.bck, key)),
                "P_agree": implies(notNone(result), has(self.fwd, the(result)) and get(self.fwd, the(result)) == key)}


@contract("hugr.utils.BiMap.__len__", props=["C18"])
class bimap_len:
    def requires(self):
        return bimap_inv(self)

    def modifies(self):
        return []

    def raises(self):
        return {}

    def ensures(self, result):
        return {"P_len": result == card(self.fwd)}


@contract("hugr.utils.BiMap.__iter__", props=["C18"])
class bimap_iter:
    def requires(self):
        return bimap_inv(self)

    def modifies(self):
        return []

    def raises(self):
        return {}

    def ensures(self, result):
        # iteration enumerates exactly the keys of the forward view
        return {"P_iter": kind_of(result) == "dictkeys" and eq(view_of(result), self.fwd)}


@contract("hugr.utils.BiMap.items", props=["C18"])
class bimap_items:
    def requires(self):
        return bimap_inv(self)

    def modifies(self):
        return []

    def raises(self):
        return {}

    def ensures(self, result):
        return {"P_items": kind_of(result) == "dictitems" and eq(view_of(result), self.fwd)}
