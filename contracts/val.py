"""Contracts for hugr/val.py and the standard extension constants (C14: constants inhabit the
type they report).

`vtype(v)` is the type a value reports (interface contract of Value.type_, contracts/ops.py).
A sum value is well typed when (mirrors Const::validate / Value::check_type,
hugr-core/src/ops/constant.rs, types/check.rs):  0 <= tag < #variants, #fields = length of the
tagged variant row, and field i reports exactly row[tag][i].
"""
from pyvc.dsl import *  # noqa: F401,F403

class_aliases = {
    "VSum": "hugr.val.Sum", "VUnitSum": "hugr.val.UnitSum", "VTuple": "hugr.val.Tuple", "VSome": "hugr.val.Some",
    "VNone": "hugr.val.None_", "VLeft": "hugr.val.Left", "VRight": "hugr.val.Right", "VExtension": "hugr.val.Extension",
    "VFunction": "hugr.val.Function", "Value": "hugr.val.Value",
    "Type": "hugr.tys.Type", "Sum": "hugr.tys.Sum", "Tuple": "hugr.tys.Tuple", "Option": "hugr.tys.Option", "Either": "hugr.tys.Either",
    "UnitSum": "hugr.tys.UnitSum", "ExtType": "hugr.tys.ExtType", "BoundedNatArg": "hugr.tys.BoundedNatArg",
    "TypeTypeArg": "hugr.tys.TypeTypeArg", "TypeArg": "hugr.tys.TypeArg", "Extension": "hugr.ext.Extension", "TypeDef": "hugr.ext.TypeDef",
    "IntVal": "hugr.std.int.IntVal", "FloatVal": "hugr.std.float.FloatVal", "StringVal": "hugr.std.prelude.StringVal",

    "Array": "hugr.std.collections.array.Array", "ArrayVal": "hugr.std.collections.array.ArrayVal",
    "List": "hugr.std.collections.list.List", "ListVal": "hugr.std.collections.list.ListVal",
    "StaticArray": "hugr.std.collections.static_array.StaticArray", "StaticArrayVal": "hugr.std.collections.static_array.StaticArrayVal",
    "SValue": "hugr._serialization.ops.Value", "SType": "hugr._serialization.tys.Type",
}


@spec
def vtype(v):
    return ghost("vtype", "Type", v)


@spec
def well_typed_sum(v):
    """tag in range, field count and field types exactly those of the tagged variant row"""
    rows = v.typ.variant_rows
    return (0 <= v.tag and v.tag < len(rows) and len(v.vals) == len(nth(rows, v.tag))
            and forall(int, lambda i: implies(0 <= i and i < len(v.vals), same_obj(vtype(nth(v.vals, i)), nth(nth(rows, v.tag), i)))))


@spec
def types_of(row, vals):
    """row lists the reported types of vals, in order"""
    return len(row) == len(vals) and forall(int, lambda i: implies(0 <= i and i < len(vals), same_obj(nth(row, i), vtype(nth(vals, i)))))


@contract("hugr.val.Sum.type_", props=["C14"])
class vsum_type:
    exact_self = False
    returns = "Sum"

    def modifies(self):
        return []

    def raises(self):
        return {}

    def ensures(self, result):
        return {"P_reports_its_sum_type": same_obj(result, self.typ)}


@contract("hugr.val.UnitSum.__init__", props=["C14"])
class vunitsum_init:
    def requires(self, tag, size):
        return size >= 0

    def modifies(self, tag, size):
        return [self.tag, self.typ, self.vals]

    def raises(self, tag, size):
        return {}

    def ensures(self, tag, size, result):
        rows = self.typ.variant_rows
        return {"P_unit_sum": self.tag == tag and len(self.vals) == 0 and cls_is(self.typ, UnitSum) and len(rows) == size
                and forall(int, lambda i: implies(0 <= i and i < size, len(nth(rows, i)) == 0)),
                "P_inhabits": implies(0 <= tag and tag < size, well_typed_sum(self))}


@contract("hugr.val.bool_value", props=["C14"])
class bool_value:
    returns = "VUnitSum"

    def modifies(b):
        return []

    def raises(b):
        return {}

    def ensures(b, result):
        return {"P_bool": result.tag == ite(b, 1, 0) and len(result.typ.variant_rows) == 2 and len(result.vals) == 0 and well_typed_sum(result)}


@contract("hugr.val.Tuple.__init__", props=["C14"])
class vtuple_init:
    def modifies(self, vals):
        return [self.tag, self.typ, self.vals]

    def raises(self, vals):
        return {}

    def ensures(self, vals, result):
        rows = self.typ.variant_rows
        return {"P_tuple": self.tag == 0 and eq(self.vals, vals) and cls_is(self.typ, Tuple) and len(rows) == 1 and types_of(nth(rows, 0), vals),
                "P_inhabits": well_typed_sum(self)}


@contract("hugr.val.Some.__init__", props=["C14"])
class vsome_init:
    def modifies(self, vals):
        return [self.tag, self.typ, self.vals]

    def raises(self, vals):
        return {}

    def ensures(self, vals, result):
        rows = self.typ.variant_rows
        return {"P_some": self.tag == 1 and eq(self.vals, vals) and cls_is(self.typ, Option) and len(rows) == 2 and len(nth(rows, 0)) == 0 and types_of(nth(rows, 1), vals),
                "P_inhabits": well_typed_sum(self)}


@contract("hugr.val.None_.__init__", props=["C14"])
class vnone_init:
    def modifies(self, types):
        return [self.tag, self.typ, self.vals]

    def raises(self, types):
        return {}

    def ensures(self, types, result):
        rows = self.typ.variant_rows
        return {"P_none": self.tag == 0 and len(self.vals) == 0 and cls_is(self.typ, Option) and len(rows) == 2 and len(nth(rows, 0)) == 0 and eq(nth(rows, 1), types),
                "P_inhabits": well_typed_sum(self)}


@contract("hugr.val.Left.__init__", props=["C14"])
class vleft_init:
    def modifies(self, vals, right_typ):
        return [self.tag, self.typ, self.vals]

    def raises(self, vals, right_typ):
        return {}

    def ensures(self, vals, right_typ, result):
        rows = self.typ.variant_rows
        return {"P_left": self.tag == 0 and eq(self.vals, vals) and cls_is(self.typ, Either) and len(rows) == 2 and types_of(nth(rows, 0), vals) and eq(nth(rows, 1), right_typ),
                "P_inhabits": well_typed_sum(self)}


@contract("hugr.val.Right.__init__", props=["C14"])
class vright_init:
    def modifies(self, left_typ, vals):
        return [self.tag, self.typ, self.vals]

    def raises(self, left_typ, vals):
        return {}

    def ensures(self, left_typ, vals, result):
        rows = self.typ.variant_rows
        return {"P_right": self.tag == 1 and eq(self.vals, vals) and cls_is(self.typ, Either) and len(rows) == 2 and eq(nth(rows, 0), left_typ) and types_of(nth(rows, 1), vals),
                "P_inhabits": well_typed_sum(self)}


@contract("hugr.val.Extension.type_", props=["C14"])
class vextension_type:
    returns = "Type"

    def modifies(self):
        return []

    def raises(self):
        return {}

    def ensures(self, result):
        return {"P_reports_declared_type": same_obj(result, self.typ)}


# ---- standard extension constants -----------------------------------------------------------------------
@contract("hugr.ext.TypeDef.instantiate", props=[])
class typedef_instantiate:
    returns = "Exact[ExtType]"

    def modifies(self, args):
        return []

    def raises(self, args):
        return {}

    def ensures(self, args, result):
        return {"def_and_args": same_obj(result.type_def, self) and eq(result.args, args)}


@contract("hugr.std.int.int_t", props=["C14"])
class int_t:
    returns = "Exact[ExtType]"

    def requires(width):
        return has(ghost("std_ext", "Extension", "arithmetic.int.types").types, "int")

    def modifies(width):
        return []

    def raises(width):
        return {}

    def ensures(width, result):
        d = get(ghost("std_ext", "Extension", "arithmetic.int.types").types, "int")
        a = nth(result.args, 0)
        return {"P_int_of_width": same_obj(result.type_def, d) and len(result.args) == 1 and cls_is(a, BoundedNatArg) and as_cls(a, BoundedNatArg).n == width}


@contract("hugr.std.int.IntVal.to_value", props=["C14"])
class intval_to_value:
    returns = "VExtension"

    def requires(self):
        return has(ghost("std_ext", "Extension", "arithmetic.int.types").types, "int")

    def modifies(self):
        return []

    def raises(self):
        return {}

    def ensures(self, result):
        e = ghost("std_ext", "Extension", "arithmetic.int.types")
        t = result.typ
        a = nth(as_cls(t, ExtType).args, 0)
        return {
            "P_reports_int_of_its_width": cls_is(t, ExtType) and same_obj(as_cls(t, ExtType).type_def, get(e.types, "int")) and len(as_cls(t, ExtType).args) == 1
            and cls_is(a, BoundedNatArg) and as_cls(a, BoundedNatArg).n == self.width,
            "P_names_defining_extension": len(result.extensions) == 1 and nth(result.extensions, 0) == e.name,
            "P_payload": result.name == "ConstInt" and eq(result.val, {"log_width": self.width, "value": self.v}),
        }


@contract("hugr.std.float.FloatVal.to_value", props=["C14"])
class floatval_to_value:
    returns = "VExtension"

    def requires(self):
        return has(ghost("std_ext", "Extension", "arithmetic.float.types").types, "float64")

    def modifies(self):
        return []

    def raises(self):
        return {}

    def ensures(self, result):
        e = ghost("std_ext", "Extension", "arithmetic.float.types")
        t = result.typ
        return {
            "P_reports_float64": cls_is(t, ExtType) and same_obj(as_cls(t, ExtType).type_def, get(e.types, "float64")) and len(as_cls(t, ExtType).args) == 0,
            "P_names_defining_extension": len(result.extensions) == 1 and nth(result.extensions, 0) == e.name,
            "P_payload": result.name == "ConstF64" and eq(result.val, {"value": self.v}),
        }


@contract("hugr.std.prelude.StringVal.to_value", props=["C14"])
class stringval_to_value:
    returns = "VExtension"

    def requires(self):
        return has(ghost("std_ext", "Extension", "prelude").types, "string")

    def modifies(self):
        return []

    def raises(self):
        return {}

    def ensures(self, result):
        e = ghost("std_ext", "Extension", "prelude")
        t = result.typ
        return {
            "P_reports_string": cls_is(t, ExtType) and same_obj(as_cls(t, ExtType).type_def, get(e.types, "string")) and len(as_cls(t, ExtType).args) == 0,
            "P_names_defining_extension": len(result.extensions) == 1 and nth(result.extensions, 0) == e.name,
            "P_payload": result.name == "ConstString" and eq(result.val, {"value": self.v}),
        }


# ---- collection constants: elements embedded as complete values together with the element type ------------


@contract("hugr.val.Value._to_serial_root", props=[])
class value_to_serial_root_interface:
    """Interface: the complete serial form of a value (the codec itself is C05)."""
    interface = True
    trusted = True
    returns = "SValue"

    def modifies(self):
        return []

    def raises(self):
        return {}

    def ensures(self, result):
        return {"complete_form": same_obj(result, ghost("vser", "SValue", self))}


@contract("hugr.tys.Type._to_serial_root", props=[])
class type_to_serial_root_interface:
    interface = True
    trusted = True
    returns = "SType"

    def modifies(self):
        return []

    def raises(self):
        return {}

    def ensures(self, result):
        return {"serial_form": same_obj(result, ghost("tser", "SType", self))}


@spec
def embedded(payload, vals, elem_ty):
    """payload = {"values": [complete serial form of each element, in order], "typ": serial form of the element type}"""
    d = any_as(payload, Dict[str, Any])
    vs = any_as(get(d, "values"), Seq[SValue])
    return (has(d, "values") and has(d, "typ") and len(vs) == len(vals)
            and forall(int, lambda i: implies(0 <= i and i < len(vals), same_obj(nth(vs, i), ghost("vser", "SValue", nth(vals, i)))))
            and same_obj(any_as(get(d, "typ"), SType), ghost("tser", "SType", elem_ty)))


@spec
def elem_of(t, pos):
    return as_cls(nth(t.args, pos), TypeTypeArg).ty


@contract("hugr.std.collections.array.ArrayVal.__init__", props=["C14"])
class arrayval_init:
    def modifies(self, v, elem_ty):
        return [self.v, self.ty]

    def raises(self, v, elem_ty):
        return {}

    def ensures(self, v, elem_ty, result):
        a0 = nth(self.ty.args, 0)
        return {"P_array_of_elem_sized_by_length": eq(self.v, v) and len(self.ty.args) == 2 and cls_is(nth(self.ty.args, 1), TypeTypeArg) and same_obj(elem_of(self.ty, 1), elem_ty)
                and cls_is(a0, BoundedNatArg) and as_cls(a0, BoundedNatArg).n == len(v)}


@contract("hugr.std.collections.array.ArrayVal.to_value", props=["C14"])
class arrayval_to_value:
    returns = "VExtension"

    def requires(self):
        return len(self.ty.args) == 2 and cls_is(nth(self.ty.args, 1), TypeTypeArg)

    def modifies(self):
        return []

    def raises(self):
        return {}

    def ensures(self, result):
        return {"P_reports_its_array_type": same_obj(result.typ, self.ty),
                "P_names_defining_extension": len(result.extensions) == 1 and nth(result.extensions, 0) == ghost("std_ext", "Extension", "collections.array").name,
                "P_elements_embedded": result.name == "ArrayValue" and embedded(result.val, self.v, elem_of(self.ty, 1))}


@contract("hugr.std.collections.list.ListVal.__init__", props=["C14"])
class listval_init:
    def requires(self, v, elem_ty):
        return has(ghost("std_ext", "Extension", "collections.list").types, "List")

    def modifies(self, v, elem_ty):
        return [self.v, self.ty]

    def raises(self, v, elem_ty):
        return {}

    def ensures(self, v, elem_ty, result):
        return {"P_list_of_elem": eq(self.v, v) and len(self.ty.args) == 1 and cls_is(nth(self.ty.args, 0), TypeTypeArg) and same_obj(elem_of(self.ty, 0), elem_ty)}


@contract("hugr.std.collections.list.ListVal.to_value", props=["C14"])
class listval_to_value:
    returns = "VExtension"

    def requires(self):
        return len(self.ty.args) == 1 and cls_is(nth(self.ty.args, 0), TypeTypeArg)

    def modifies(self):
        return []

    def raises(self):
        return {}

    def ensures(self, result):
        return {"P_reports_its_list_type": same_obj(result.typ, self.ty),
                "P_names_defining_extension": len(result.extensions) == 1 and nth(result.extensions, 0) == ghost("std_ext", "Extension", "collections.list").name,
                "P_elements_embedded": result.name == "ListValue" and embedded(result.val, self.v, elem_of(self.ty, 0))}


@contract("hugr.std.collections.static_array.StaticArrayVal.__init__", props=["C14"])
class staticarrayval_init:
    def requires(self, v, elem_ty, name):
        return has(ghost("std_ext", "Extension", "collections.static_array").types, "static_array")

    def modifies(self, v, elem_ty, name):
        return [self.v, self.ty, self.name]

    def raises(self, v, elem_ty, name):
        return {ValueError: not ghost("copyable", "bool", elem_ty)}

    def ensures(self, v, elem_ty, name, result):
        return {"P_static_array_of_elem": eq(self.v, v) and self.name == name and len(self.ty.args) == 1 and cls_is(nth(self.ty.args, 0), TypeTypeArg) and same_obj(elem_of(self.ty, 0), elem_ty)}


@contract("hugr.std.collections.static_array.StaticArrayVal.to_value", props=["C14"])
class staticarrayval_to_value:
    returns = "VExtension"

    def requires(self):
        return len(self.ty.args) == 1 and cls_is(nth(self.ty.args, 0), TypeTypeArg)

    def modifies(self):
        return []

    def raises(self):
        return {}

    def ensures(self, result):
        d = any_as(result.val, Dict[str, Any])
        return {"P_reports_its_static_array_type": same_obj(result.typ, self.ty),
                "P_names_defining_extension": len(result.extensions) == 1 and nth(result.extensions, 0) == ghost("std_ext", "Extension", "collections.static_array").name,
                "P_elements_embedded": result.name == "StaticArrayValue" and has(d, "value") and has(d, "name") and any_as(get(d, "name"), str) == self.name
                and embedded(get(d, "value"), self.v, elem_of(self.ty, 0))}
