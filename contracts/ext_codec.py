"""Encode / decode lemmas for the definitions held by an extension (property C10), on top of the
codec interface contracts of contracts/codec.py (constituent types, parameters and values are named
by tser/tdes, pser/pdes, vser/vdes; their own round trips are C05's lemmas, assumed here as induction
hypotheses exactly as there)."""
from pyvc.dsl import *  # noqa: F401,F403

# lowering functions are outside the property's domain ("extensions without lowering functions"); their payload is opaque here
field_types = {"hugr.ext.FixedHugr.hugr": "Any"}
class_aliases = {"Extension": "hugr.ext.Extension", "TypeDef": "hugr.ext.TypeDef", "OpDef": "hugr.ext.OpDef", "ExtensionValue": "hugr.ext.ExtensionValue",
                 "ExplicitBound": "hugr.ext.ExplicitBound", "FromParamsBound": "hugr.ext.FromParamsBound"}


@code_lemma
def rt_TypeDef(x: "Exact[hugr.ext.TypeDef]", e: "Exact[hugr.ext.Extension]"):
    assume(ih_params())
    assume(notNone(x._extension))
    y = x._to_serial().deserialize(e)
    return {"P_name": y.name == x.name, "P_description": y.description == x.description,
            "P_params": params_rt(y.params, x.params),
            "P_bound_kind": cls_is(y.bound, ExplicitBound) == cls_is(x.bound, ExplicitBound),
            "P_explicit_bound": implies(cls_is(x.bound, ExplicitBound), as_cls(y.bound, ExplicitBound).bound == as_cls(x.bound, ExplicitBound).bound),
            "P_from_params_indices": implies(cls_is(x.bound, FromParamsBound), eq(as_cls(y.bound, FromParamsBound).indices, as_cls(x.bound, FromParamsBound).indices)),
            "P_owner_is_target_extension": notNone(y._extension) and same_obj(the(y._extension), e),
            "P_held": has(e.types, x.name) and same_obj(get(e.types, x.name), y)}


@code_lemma
def rt_ExtensionValue(x: "Exact[hugr.ext.ExtensionValue]", e: "Exact[hugr.ext.Extension]"):
    assume(ih_values())
    assume(notNone(x._extension))
    y = x._to_serial().deserialize(e)
    return {"P_name": y.name == x.name, "P_value": veq(y.val, x.val),
            "P_owner_is_target_extension": notNone(y._extension) and same_obj(the(y._extension), e),
            "P_held": has(e.values, x.name) and same_obj(get(e.values, x.name), y)}


@code_lemma
def rt_OpDef(x: "Exact[hugr.ext.OpDef]", e: "Exact[hugr.ext.Extension]"):
    assume(ih_types() and ih_params())
    assume(notNone(x._extension) and len(x.lower_funcs) == 0)
    # class invariant of OpDefSig (its constructor raises ValueError otherwise): a scheme or the binary flag
    assume(notNone(x.signature.poly_func) or x.signature.binary)
    y = x._to_serial().deserialize(e)
    px = x.signature.poly_func
    py = y.signature.poly_func
    return {"P_name": y.name == x.name, "P_description": y.description == x.description,
            "P_binary_flag": y.signature.binary == x.signature.binary,
            "P_scheme_presence": isNone(py) == isNone(px),
            "P_scheme_params": implies(notNone(px), params_rt(the(py).params, the(px).params)),
            "P_scheme_rows": implies(notNone(px), row_rt(the(py).body.input, the(px).body.input) and row_rt(the(py).body.output, the(px).body.output)),
            "P_names_target_extension": implies(notNone(px), exists(int, lambda k: 0 <= k and k < len(the(py).body.runtime_reqs) and nth(the(py).body.runtime_reqs, k) == e.name)),
            "P_owner_is_target_extension": notNone(y._extension) and same_obj(the(y._extension), e),
            "P_held": has(e.operations, x.name) and same_obj(get(e.operations, x.name), y)}
