"""Apply each behaviour-preserving refactoring (refactorings/<id>/patch.diff, written by an independent agent that
saw only the property text and was asked NOT to change behaviour) to a scratch worktree of /repo and run the
property's check against it: the check must stay quiet (exit 0, no VIOLATION line).
   python3-vt selftest/run_refactorings.py [ID ...]"""
import json
import os
import shutil
import subprocess
import sys
import tempfile

VERIF = os.path.dirname(os.path.dirname(os.path.abspath(__file__)))


def run_one(sid, tier="quick"):
    d = os.path.join(VERIF, "refactorings", sid)
    meta = json.load(open(os.path.join(d, "meta.json")))
    prop = meta["property"]
    wt = tempfile.mkdtemp(prefix=f"keepchk_{sid}_")
    os.rmdir(wt)
    ev = tempfile.mkdtemp(prefix="keepev_")
    try:
        subprocess.run(["git", "-C", "/repo", "worktree", "add", "--detach", wt, "HEAD", "-q"], check=True, capture_output=True)
        ap = subprocess.run(["git", "-C", wt, "apply", os.path.join(d, "patch.diff")], capture_output=True, text=True)
        if ap.returncode != 0:
            return {"id": sid, "property": prop, "result": "PATCH-DOES-NOT-APPLY", "detail": ap.stderr[-300:], "quiet": None}
        src = os.path.join(wt, "hugr-py", "src")
        env = dict(os.environ, VERIF_REPO_SRC=src, VERIF_EVIDENCE_DIR=ev)
        r = subprocess.run(["python3-vt", "-m", "checks", prop, "--tier", tier], cwd=VERIF, env=env, capture_output=True, text=True, timeout=3600)
        viol = [l for l in r.stdout.splitlines() if l.startswith("VIOLATION")]
        return {"id": sid, "property": prop, "check_exit": r.returncode, "violations": viol[:4], "quiet": bool(r.returncode == 0 and not viol),
                "summary": meta.get("summary", "")[:200], "tail": "" if r.returncode == 0 else r.stdout[-700:]}
    finally:
        subprocess.run(["git", "-C", "/repo", "worktree", "remove", "--force", wt], capture_output=True)
        subprocess.run(["git", "-C", "/repo", "worktree", "prune"], capture_output=True)
        shutil.rmtree(wt, ignore_errors=True)
        shutil.rmtree(ev, ignore_errors=True)


def main():
    ids = sys.argv[1:] or sorted(os.listdir(os.path.join(VERIF, "refactorings")))
    bad = 0
    for sid in ids:
        if not os.path.isdir(os.path.join(VERIF, "refactorings", sid)):
            continue
        res = run_one(sid)
        print(json.dumps(res), flush=True)
        json.dump(res, open(os.path.join(VERIF, "refactorings", sid, "result.json"), "w"), indent=1)
        if not res.get("quiet"):
            bad += 1
    sys.exit(1 if bad else 0)


if __name__ == "__main__":
    main()
