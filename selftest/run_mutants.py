"""Self-test: apply recorded property-breaking (and harmless) edits to a scratch copy of
hugr-py/src and run the property's check against it (VERIF_REPO_SRC).  Usage:
   python3-vt selftest/run_mutants.py [Cxx ...]
A 'break' mutant must give exit 1 + VIOLATION; a 'keep' mutant (refactoring) must give exit 0."""
import json
import os
import shutil
import subprocess
import sys
import tempfile

VERIF = os.path.dirname(os.path.dirname(os.path.abspath(__file__)))


def run_one(m, tier="quick"):
    d = tempfile.mkdtemp(prefix="verif_mut_")
    try:
        shutil.copytree("/repo/hugr-py/src/hugr", os.path.join(d, "hugr"))
        p = os.path.join(d, m["file"])
        s = open(p).read()
        if m["old"] not in s:
            return {"id": m["id"], "result": "PATTERN-NOT-FOUND"}
        open(p, "w").write(s.replace(m["old"], m["new"], 1))
        env = dict(os.environ)
        env["VERIF_REPO_SRC"] = d
        env["VERIF_EVIDENCE_DIR"] = d
        r = subprocess.run(["python3-vt", "-m", "checks", m["property"], "--tier", tier], cwd=VERIF, env=env, capture_output=True, text=True, timeout=1800)
        viol = [l for l in r.stdout.splitlines() if l.startswith("VIOLATION")]
        expect = m.get("expect", "break")
        ok = (r.returncode == 1 and viol) if expect == "break" else (r.returncode == 0 and not viol)
        return {"id": m["id"], "exit": r.returncode, "violations": viol[:3], "ok": bool(ok), "tail": r.stdout[-400:] if not ok else ""}
    finally:
        shutil.rmtree(d, ignore_errors=True)


def main():
    muts = json.load(open(os.path.join(VERIF, "selftest", "mutants.json")))
    want = set(a.upper() for a in sys.argv[1:])
    bad = 0
    jobs = int(os.environ.get("MUTANT_JOBS", "1"))
    sel = [m for m in muts if not want or m["property"] in want or m["id"] in want]
    if jobs > 1:
        # several mutants at a time (each run has its own scratch copy and evidence directory; replays of
        # concurrent runs of one property may overwrite each other, the verdicts are not affected)
        from concurrent.futures import ThreadPoolExecutor
        with ThreadPoolExecutor(jobs) as ex:
            results = ex.map(run_one, sel)
            for res in results:
                print(json.dumps(res), flush=True)
                if not res.get("ok"):
                    bad += 1
    else:
        for m in sel:
            res = run_one(m)
            print(json.dumps(res), flush=True)
            if not res.get("ok"):
                bad += 1
    # restore evidence of the real tree is the caller's job (checks rewrite evidence on every run)
    sys.exit(1 if bad else 0)


if __name__ == "__main__":
    main()
