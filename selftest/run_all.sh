#!/bin/bash
# usage: selftest/run_all.sh quick|thorough [seed]   - runs every registered check once, prints one line per check
cd "$(dirname "$0")/.."
tier=${1:-quick}
export VERIF_SEED=${2:-0}
for c in $(python3 -c "import json; print(' '.join(x['property_id'] for x in json.load(open('MANIFEST.json'))['checks']))"); do
  s=$(date +%s)
  out=$(python3-vt -m checks $c --tier $tier 2>&1)
  rc=$?
  echo "$c tier=$tier seed=$VERIF_SEED rc=$rc $(( $(date +%s) - s ))s :: $(echo "$out" | grep -v '^KNOWN-FINDING' | tail -2 | tr '\n' ' ' | cut -c1-260)"
done
