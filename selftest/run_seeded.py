"""Apply each seeded defect (seeded/<id>/patch.diff, written by an independent agent that saw only the
property text) to a scratch worktree of /repo and run the property's check against it.
   python3-vt selftest/run_seeded.py [ID ...]
Reports, per seeded change: the demonstration's exit code on the patched tree (1 expected) and
whether the check raised a VIOLATION (exit 1)."""
import json
import os
import shutil
import subprocess
import sys
import tempfile

VERIF = os.path.dirname(os.path.dirname(os.path.abspath(__file__)))


def run_one(sid, tier="quick"):
    d = os.path.join(VERIF, "seeded", sid)
    meta = json.load(open(os.path.join(d, "meta.json")))
    prop = meta["property"]
    wt = tempfile.mkdtemp(prefix=f"seedchk_{sid}_")
    os.rmdir(wt)
    ev = tempfile.mkdtemp(prefix="seedev_")
    try:
        subprocess.run(["git", "-C", "/repo", "worktree", "add", "--detach", wt, "HEAD", "-q"], check=True, capture_output=True)
        ap = subprocess.run(["git", "-C", wt, "apply", os.path.join(d, "patch.diff")], capture_output=True, text=True)
        if ap.returncode != 0:
            return {"id": sid, "property": prop, "result": "PATCH-DOES-NOT-APPLY", "detail": ap.stderr[-300:]}
        src = os.path.join(wt, "hugr-py", "src")
        env = dict(os.environ, PYTHONPATH=src, PYTHONDONTWRITEBYTECODE="1")
        demo = subprocess.run(["/venv/bin/python", os.path.join(d, "demo.py")], capture_output=True, text=True, env=env, cwd="/tmp", timeout=600)
        env = dict(os.environ, VERIF_REPO_SRC=src, VERIF_EVIDENCE_DIR=ev)
        r = subprocess.run(["python3-vt", "-m", "checks", prop, "--tier", tier], cwd=VERIF, env=env, capture_output=True, text=True, timeout=3600)
        viol = [l for l in r.stdout.splitlines() if l.startswith("VIOLATION")]
        return {"id": sid, "property": prop, "demo_exit_on_patched": demo.returncode, "check_exit": r.returncode, "violations": viol[:4], "detected": bool(r.returncode == 1 and viol),
                "summary": meta.get("summary", "")[:200], "tail": "" if viol else r.stdout[-500:]}
    finally:
        subprocess.run(["git", "-C", "/repo", "worktree", "remove", "--force", wt], capture_output=True)
        subprocess.run(["git", "-C", "/repo", "worktree", "prune"], capture_output=True)
        shutil.rmtree(wt, ignore_errors=True)
        shutil.rmtree(ev, ignore_errors=True)


def main():
    ids = sys.argv[1:] or sorted(os.listdir(os.path.join(VERIF, "seeded")))
    bad = 0
    ids = [s for s in ids if os.path.isdir(os.path.join(VERIF, "seeded", s))]
    jobs = int(os.environ.get("SEEDED_JOBS", "1"))
    if jobs > 1:
        from concurrent.futures import ThreadPoolExecutor
        with ThreadPoolExecutor(jobs) as ex:
            results = list(ex.map(run_one, ids))
    else:
        results = (run_one(s) for s in ids)
    for res in results:
        print(json.dumps(res), flush=True)
        json.dump(res, open(os.path.join(VERIF, "seeded", res["id"], "result.json"), "w"), indent=1)
        if not res.get("detected"):
            bad += 1
    sys.exit(1 if bad else 0)


if __name__ == "__main__":
    main()
