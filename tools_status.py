"""Regenerates the table of section 10.1 of DESIGN.md (between the STATUS markers) from the evidence
files, the mutant list and the seeded-change results.   python3 tools_status.py"""
import json
import os
import re

V = os.path.dirname(os.path.abspath(__file__))


def main():
    man = json.load(open(os.path.join(V, "MANIFEST.json")))
    muts = json.load(open(os.path.join(V, "selftest", "mutants.json")))
    rows = []
    for c in man["checks"]:
        pid = c["property_id"]
        ev = json.load(open(os.path.join(V, "evidence", f"{pid}.json")))
        cov = ev["coverage"]
        nb = sum(1 for m in muts if m["property"] == pid and m.get("expect", "break") == "break")
        nk = sum(1 for m in muts if m["property"] == pid and m.get("expect") == "keep")
        seeded = []
        for d in sorted(os.listdir(os.path.join(V, "seeded"))):
            rp = os.path.join(V, "seeded", d, "result.json")
            if d.startswith(pid) and os.path.exists(rp):
                r = json.load(open(rp))
                how = "bounded" if all("bounded" in v or "wrapper" in v or "hugr_" in v for v in r.get("violations", [])) else ("ground" if all(any(k in v for k in ("ground", "diff_", "alias_", "decoder_vs_schema", "enum_positions", "unlisted_")) for v in r.get("violations", [])) else "obligation" + ("+bounded" if any("bounded" in v for v in r.get("violations", [])) else ""))
                seeded.append(f"{d}: {'caught (' + how + ')' if r.get('detected') else 'MISSED'}")
        rows.append((pid, c["level_claimed"]["category"], len(cov.get("functions_under_contract", [])), cov.get("obligations", 0), cov.get("discharged", 0),
                     sum(b.get("evaluations", 0) for b in cov.get("bounded", [])), len(cov.get("ground_checks", [])), f"{nb}+{nk}", "; ".join(seeded) or "-"))
    lines = ["| property | category | functions / lemmas under contract | obligations (discharged) | bounded evaluations | ground checks | mutants (break+keep) | seeded changes |", "|---|---|---|---|---|---|---|---|"]
    for r in sorted(rows):
        lines.append(f"| {r[0]} | {r[1]} | {r[2]} | {r[3]} ({r[4]}) | {r[5]} | {r[6]} | {r[7]} | {r[8]} |")
    p = os.path.join(V, "DESIGN.md")
    s = open(p).read()
    block = "<!-- STATUS:BEGIN -->\n" + "\n".join(lines) + "\n<!-- STATUS:END -->"
    if "<!-- STATUS:BEGIN -->" in s:
        s = re.sub(r"<!-- STATUS:BEGIN -->.*?<!-- STATUS:END -->", lambda m: block, s, flags=re.S)
        open(p, "w").write(s)
    print("\n".join(lines))


if __name__ == "__main__":
    main()
