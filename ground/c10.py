"""C10 ground decisions (closed, finite statements evaluated on the real code under /venv/bin/python):
bundled standard extensions are byte-for-byte the published ones, each loads and round-trips, the
typed helpers denote definitions that exist with matching parameters."""
import hashlib
import json
import os
import sys

SRC = os.environ.get("VERIF_REPO_SRC", "/repo/hugr-py/src")


def repo_root():
    root = os.path.dirname(os.path.dirname(SRC))
    return root if os.path.isdir(os.path.join(root, "specification")) else "/repo"


def files(d):
    out = {}
    for dp, dn, fn in os.walk(d):
        for f in fn:
            if f.endswith(".json"):
                p = os.path.join(dp, f)
                out[os.path.relpath(p, d)] = p
    return out


def set_normal(doc):
    """Extension.runtime_reqs is a set in the schema (uniqueItems): order-insensitive."""
    d = json.loads(json.dumps(doc))
    if isinstance(d, dict) and isinstance(d.get("runtime_reqs"), list):
        d["runtime_reqs"] = sorted(d["runtime_reqs"])
    return d


def main():
    sys.path.insert(0, SRC)
    res = []
    bundled = files(os.path.join(SRC, "hugr", "std", "_json_defs"))
    spec = files(os.path.join(repo_root(), "specification", "std_extensions"))
    res.append({"check": "same set of definition files bundled and published", "ok": sorted(bundled) == sorted(spec), "bundled_only": sorted(set(bundled) - set(spec)), "published_only": sorted(set(spec) - set(bundled))})
    from hugr.ext import Extension
    import hugr.tys as T
    for rel in sorted(set(bundled) & set(spec)):
        a, b = open(bundled[rel], "rb").read(), open(spec[rel], "rb").read()
        res.append({"check": f"{rel}: bundled file is byte-for-byte the published one", "ok": a == b, "sha_bundled": hashlib.sha256(a).hexdigest()[:12], "sha_published": hashlib.sha256(b).hexdigest()[:12]})
        try:
            e = Extension.from_json(a.decode())
            d1 = json.loads(e.to_json())
            ok = set_normal(json.loads(Extension.from_json(e.to_json()).to_json())) == set_normal(d1)
            owners = all(o.get_extension() is e and (o.signature.poly_func is None or e.name in o.signature.poly_func.body.runtime_reqs) for o in e.operations.values())
            res.append({"check": f"{rel}: loads, re-serializes to the same document, every operation names its extension", "ok": bool(ok and owners), "ops": len(e.operations), "types": len(e.types)})
        except Exception as ex:  # noqa: BLE001
            res.append({"check": f"{rel}: loads", "ok": False, "error": f"{type(ex).__name__}: {str(ex)[:150]}"})

    # typed helpers
    def chk(name, cond, **kw):
        res.append({"check": "helper: " + name, "ok": bool(cond), **kw})
    try:
        import hugr.std.int as I
        import hugr.std.float as F
        import hugr.std.prelude as P
        import hugr.std.logic as L
        from hugr.std.collections.array import EXTENSION as ARR_EXT, Array, ArrayVal
        from hugr.std.collections.list import EXTENSION as LIST_EXT, List, ListVal
        from hugr.std.collections.static_array import EXTENSION as SA_EXT, StaticArray, StaticArrayVal
        idef = I.INT_TYPES_EXTENSION.get_type("int")
        chk("int_t(w) denotes arithmetic.int.types.int with one bounded-nat parameter (bound 7)", I.INT_T_DEF is idef and idef.params == [T.BoundedNatParam(7)]
            and all(I.int_t(w).type_def is idef and I.int_t(w).args == [T.BoundedNatArg(w)] for w in range(7)))
        chk("INT_T is int_t(5)", I.INT_T == I.int_t(5))
        chk("the integer type variable helper uses the definition's own parameter", I._int_tv(0).type_def is idef and len(I._int_tv(0).args) == 1 and I._int_tv(0).args[0].param == idef.params[0])
        chk("IntVal(v, w) has type int_t(w) and names arithmetic.int.types", all(I.IntVal(3, w).to_value().typ == I.int_t(w) and I.IntVal(3, w).to_value().extensions == ["arithmetic.int.types"] for w in range(7)))
        fdef = F.FLOAT_TYPES_EXTENSION.get_type("float64")
        chk("FLOAT_T denotes arithmetic.float.types.float64 (no parameters)", F.FLOAT_T.type_def is fdef and fdef.params == [] and F.FLOAT_T.args == [])
        chk("FloatVal has type FLOAT_T and names arithmetic.float.types", F.FloatVal(0.5).to_value().typ == F.FLOAT_T and F.FloatVal(0.5).to_value().extensions == ["arithmetic.float.types"])
        sdef = P.PRELUDE_EXTENSION.get_type("string")
        chk("STRING_T denotes prelude.string (no parameters)", P.STRING_T.type_def is sdef and sdef.params == [] and P.STRING_T_DEF is sdef)
        chk("StringVal has type STRING_T and names prelude", P.StringVal("x").to_value().typ == P.STRING_T and P.StringVal("x").to_value().extensions == ["prelude"])
        adef = ARR_EXT.get_type("array")
        chk("Array(t, n) denotes collections.array.array with parameters [BoundedNat, Type]", Array(T.Bool, 3).type_def is adef and [type(p) for p in adef.params] == [T.BoundedNatParam, T.TypeTypeParam]
            and Array(T.Bool, 3).args == [T.BoundedNatArg(3), T.TypeTypeArg(T.Bool)])
        ldef = LIST_EXT.get_type("List")
        chk("List(t) denotes collections.list.List with one type parameter", List(T.Bool).type_def is ldef and [type(p) for p in ldef.params] == [T.TypeTypeParam] and List(T.Bool).args == [T.TypeTypeArg(T.Bool)])
        sadef = SA_EXT.get_type("static_array")
        chk("StaticArray(t) denotes collections.static_array.static_array with one type parameter", StaticArray(T.Bool).type_def is sadef and [type(p) for p in sadef.params] == [T.TypeTypeParam])
        # registered operations: every RegisteredOp subclass denotes an existing definition of its extension
        import hugr.ops as O
        n_ops = 0
        bad = []

        def walk(c):
            for s in c.__subclasses__():
                yield s
                yield from walk(s)
        for c in set(walk(O.RegisteredOp)):
            od = getattr(c, "const_op_def", None)
            if od is None:
                continue
            n_ops += 1
            try:
                ext = od.get_extension()
                if ext.get_op(od.name) is not od:
                    bad.append(c.__name__)
            except Exception as ex:  # noqa: BLE001
                bad.append(f"{c.__name__}: {type(ex).__name__}")
        chk(f"every registered standard operation ({n_ops} classes) denotes a definition held by its extension", not bad and n_ops > 0, bad=bad)
        # instances: argument counts match the definitions' parameter lists
        inst = [("logic.Not", L.Not), ("int DivMod", I.DivMod)]
        for nm, op in inst:
            od = op.op_def()
            pf = od.signature.poly_func
            chk(f"{nm}: number of type arguments equals the number of parameters of {od.qualified_name()}", pf is not None and len(op.type_args()) == len(pf.params), args=len(op.type_args()))
    except Exception as ex:  # noqa: BLE001
        import traceback
        res.append({"check": "typed helpers evaluate", "ok": False, "error": traceback.format_exc()[-600:]})
    print("GROUND-JSON " + json.dumps({"results": res}, default=str))


if __name__ == "__main__":
    main()
