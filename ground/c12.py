"""C12 ground decision: the Python model classes expose exactly the attributes the Rust binding reads
(hugr-model/src/v0/ast/python.rs: every `getattr("x")` inside a FromPyObject impl, per class)."""
import ast
import json
import os
import re
import sys

SRC = os.environ.get("VERIF_REPO_SRC", "/repo/hugr-py/src")


def repo_root():
    root = os.path.dirname(os.path.dirname(SRC))
    return root if os.path.isdir(os.path.join(root, "hugr-model")) else "/repo"


def rust_reads():
    """{python class name: set of attribute names read}"""
    text = open(os.path.join(repo_root(), "hugr-model", "src", "v0", "ast", "python.rs")).read()
    out = {}
    for m in re.finditer(r"impl<'py> pyo3::FromPyObject<'py> for (\w+) \{(.*?)\n\}\n", text, re.S):
        rust_ty, body = m.group(1), m.group(2)
        arms = list(re.finditer(r'"(\w+)" => (\{.*?\n            \}|[^\n]*,)', body, re.S))
        if arms:
            for a in arms:
                out.setdefault(a.group(1), set()).update(re.findall(r'getattr\("(\w+)"\)', a.group(2)))
        else:
            out.setdefault(rust_ty, set()).update(re.findall(r'getattr\("(\w+)"\)', body))
    return out


def python_fields():
    tree = ast.parse(open(os.path.join(SRC, "hugr", "model", "__init__.py")).read())
    out = {}
    for st in tree.body:
        if isinstance(st, ast.ClassDef):
            out[st.name] = [s.target.id for s in st.body if isinstance(s, ast.AnnAssign) and isinstance(s.target, ast.Name)]
    return out


def main():
    reads, fields = rust_reads(), python_fields()
    res = []
    alias = {"SeqPart": "Splice"}          # the Rust SeqPart reads `seq` from the Python Splice class
    for cls, attrs in sorted(reads.items()):
        pc = alias.get(cls, cls)
        if pc not in fields:
            res.append({"check": f"model class {pc} read by the Rust binding exists", "ok": False})
            continue
        have = set(fields[pc])
        ok = attrs == have if pc != "Splice" else attrs <= have
        res.append({"check": f"hugr.model.{pc} exposes exactly the attributes the Rust binding reads", "ok": ok, "rust_reads": sorted(attrs), "python_fields": sorted(have)})
    print("GROUND-JSON " + json.dumps({"results": res}))


if __name__ == "__main__":
    main()
