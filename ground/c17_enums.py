"""C17, second ground decision: at every position of a document whose published schema is an enumeration
(or a constant), the decoder accepts exactly the listed strings.  The schema generated from the models
cannot show a deviation here (pydantic derives an enum's schema from its members, but its validator
also consults hooks such as Enum._missing_), so the two are compared by evaluation: for sample documents
emitted by the library, each enumerated string value is replaced by every candidate of a fixed
alphabet and the decoder's verdict is compared with membership in the published enumeration.
Runs under /venv/bin/python; prints GROUND-JSON."""
import json
import os
import string
import sys

SRC = os.environ.get("VERIF_REPO_SRC", "/repo/hugr-py/src")


def repo_root():
    root = os.path.dirname(os.path.dirname(SRC))
    return root if os.path.isdir(os.path.join(root, "specification")) else "/repo"


def resolve(schema, node):
    while isinstance(node, dict) and "$ref" in node:
        node = schema["$defs"][node["$ref"].rsplit("/", 1)[-1]]
    return node


def enum_positions(schema, node, doc, path, out, depth=0):
    """(path, allowed strings) for string values of doc at schema positions that are enums / consts."""
    node = resolve(schema, node)
    if depth > 40 or not isinstance(node, dict):
        return
    if isinstance(doc, str):
        allowed = None
        # (constants are the tags of discriminated unions: changing one selects another alternative - only proper
        # enumerations are probed)
        if "enum" in node and all(isinstance(x, str) for x in node["enum"]) and len(node["enum"]) > 1:
            allowed = set(node["enum"])
        if allowed is not None:
            out.append((path, allowed))
        return
    for key in ("anyOf", "oneOf"):
        if key in node:
            cands = [resolve(schema, s) for s in node[key]]
            # discriminated unions: follow the alternative whose constant tags match the document
            best = None
            for c in cands:
                props = c.get("properties", {}) if isinstance(c, dict) else {}
                tags = {k: resolve(schema, v).get("const") for k, v in props.items() if isinstance(resolve(schema, v), dict) and "const" in resolve(schema, v)}
                if isinstance(doc, dict) and tags and all(doc.get(k) == v for k, v in tags.items()):
                    best = c
                    break
            if best is None and isinstance(doc, dict):
                for c in cands:
                    if isinstance(c, dict) and c.get("type") == "object":
                        best = c
                        break
            if best is None and isinstance(doc, list):
                for c in cands:
                    if isinstance(c, dict) and c.get("type") == "array":
                        best = c
                        break
            if best is not None:
                enum_positions(schema, best, doc, path, out, depth + 1)
            return
    if isinstance(doc, dict):
        props = node.get("properties", {})
        for k, v in doc.items():
            if k in props:
                enum_positions(schema, props[k], v, path + [k], out, depth + 1)
            elif isinstance(node.get("additionalProperties"), dict):
                enum_positions(schema, node["additionalProperties"], v, path + [k], out, depth + 1)
    elif isinstance(doc, list):
        if isinstance(node.get("prefixItems"), list):
            for i, v in enumerate(doc):
                if i < len(node["prefixItems"]):
                    enum_positions(schema, node["prefixItems"][i], v, path + [i], out, depth + 1)
        elif isinstance(node.get("items"), dict):
            for i, v in enumerate(doc):
                enum_positions(schema, node["items"], v, path + [i], out, depth + 1)


def set_path(doc, path, value):
    d = json.loads(json.dumps(doc))
    cur = d
    for p in path[:-1]:
        cur = cur[p]
    cur[path[-1]] = value
    return d


def main():
    sys.path.insert(0, SRC)
    sys.path.insert(0, "/verif")
    import hugr.tys as T
    from bounded.hugr_gen import gen
    from hugr._serialization.serial_hugr import SerialHugr
    schema = json.load(open(os.path.join(repo_root(), "specification", "schema", "hugr_schema_strict_live.json")))
    root = {"$ref": "#/$defs/SerialHugr"}
    docs = []
    for seed in (3, 11, 20, 37, 41, 58):
        h, _ = gen(seed, wild_ok=False)
        docs.append(json.loads(h.to_json()))
    alphabet = list(string.ascii_uppercase) + ["", "c", "a", "Copyable", "Any"]
    res = []
    n_pos = n_eval = 0
    seen = set()
    problems = []
    for doc in docs:
        pos = []
        enum_positions(schema, root, doc, [], pos)
        for path, allowed in pos:
            key = (tuple(p if isinstance(p, str) else "*" for p in path[-3:]), tuple(sorted(allowed)))
            if key in seen or len(allowed) > 6:
                continue           # one representative per kind of position; operation tags etc. (large unions) are covered by the schema comparison
            seen.add(key)
            n_pos += 1
            for cand in alphabet + sorted(allowed):
                n_eval += 1
                mutated = set_path(doc, path, cand)
                try:
                    SerialHugr.model_validate_json(json.dumps(mutated))
                    accepted = True
                except Exception:  # noqa: BLE001
                    accepted = False
                if accepted != (cand in allowed) and len(problems) < 5:
                    problems.append({"path": "/" + "/".join(str(p) for p in path), "value": cand, "decoder_accepts": accepted, "published_enumeration": sorted(allowed)})
    res.append({"check": f"at {n_pos} kinds of enumerated positions the decoder accepts exactly the strings the published schema lists ({n_eval} candidate documents)", "ok": not problems and n_pos > 0,
                "positions": n_pos, "evaluations": n_eval, "problems": problems})
    print("GROUND-JSON " + json.dumps({"results": res}))


if __name__ == "__main__":
    main()
