"""Ground decision for C17 (decoder side): the Python decoder, configured strict / lax through the
repository's own SerialHugr._pydantic_rebuild, is run on documents and on one-place mutations of them
(an unknown key added to an object, a key dropped; under the strict configuration also a primitive of the
wrong JSON type).  The verdicts are written out; checks/c17.py validates the same mutated documents against
the published schema files with a JSON-schema validator and compares.
Runs under /venv/bin/python; prints GROUND-JSON."""
import json
import os
import random
import sys


def corpus():
    from bounded.hugr_gen import PROGRAMS
    docs = []
    for i, (name, prog) in enumerate(PROGRAMS):
        h = prog(random.Random(1000 + i))
        docs.append((name, json.loads(h.to_json())))
    return docs


def accepted_keys():
    """For every field of every serialization model: the keys the decoder reads it from (name / alias / every
    choice of a validation alias, both name and alias when populate_by_name is set) against the one key the
    generated schema lists for it.  A field read from more than that one key is a document the decoder accepts
    and the schema does not describe."""
    import importlib
    import inspect
    from pydantic import AliasChoices, AliasPath, BaseModel
    problems, n = [], 0
    for modname in ("tys", "ops", "serial_hugr", "testing_hugr", "extension"):
        mod = importlib.import_module("hugr._serialization." + modname)
        for cname, cls in inspect.getmembers(mod, inspect.isclass):
            if not (issubclass(cls, BaseModel) and cls.__module__ == mod.__name__):
                continue
            by_name = bool(cls.model_config.get("populate_by_name"))
            for fname, f in cls.model_fields.items():
                n += 1
                va = f.validation_alias
                if isinstance(va, AliasChoices):
                    keys = [c if isinstance(c, str) else repr(c) for c in va.choices]
                elif isinstance(va, AliasPath):
                    keys = [repr(va)]
                elif isinstance(va, str):
                    keys = [va]
                elif f.alias:
                    keys = [f.alias]
                else:
                    keys = [fname]
                schema_key = keys[0]
                if by_name and fname not in keys:
                    keys.append(fname)
                if len(keys) != 1 or not isinstance(schema_key, str):
                    problems.append({"model": f"{modname}.{cname}", "field": fname, "decoder_reads": keys, "schema_lists": schema_key})
    return n, problems


def main():
    from pydantic import ConfigDict
    from hugr._serialization.serial_hugr import SerialHugr
    from specs.json_mutations import apply, mutations
    tier = os.environ.get("VERIF_TIER", "quick")
    per_doc = 50 if tier == "quick" else 100000
    docs = corpus()
    out = {"version": SerialHugr.get_version(), "docs": [d for _n, d in docs], "names": [n for n, _d in docs], "probes": []}
    for cfg_name, cfg in (("strict", ConfigDict(strict=True, extra="forbid")), ("lax", ConfigDict(strict=False, extra="allow"))):
        SerialHugr._pydantic_rebuild(cfg, force=True)
        for di, (_name, doc) in enumerate(docs):
            ms = mutations(doc, with_types=cfg_name == "strict")
            rnd = random.Random(17 * di + len(ms))
            if len(ms) > per_doc:
                top = [m for m in ms if m[1] == []]          # the document's own keys are always probed
                ms = top + rnd.sample([m for m in ms if m[1] != []], per_doc)
            for m in [None] + ms:
                d = doc if m is None else apply(doc, m)
                try:
                    SerialHugr.model_validate_json(json.dumps(d))
                    ok = True
                except Exception:  # noqa: BLE001
                    ok = False
                out["probes"].append([cfg_name, di, m, ok])
    nfields, problems = accepted_keys()
    out["fields_checked"] = nfields
    out["alias_problems"] = problems
    dest = os.environ.get("VERIF_C17_PROBES")
    if dest:
        json.dump(out, open(dest, "w"))
    print("GROUND-JSON " + json.dumps({"probes": len(out["probes"]), "docs": len(docs), "file": dest}))


if __name__ == "__main__":
    main()
