"""Ground decision for C17 (decoder side): the Python decoder, configured strict / lax through the
repository's own SerialHugr._pydantic_rebuild, is run on documents and on one-place mutations of them
(an unknown key added to an object, a key dropped; under the strict configuration also a primitive of the
wrong JSON type).  The verdicts are written out; checks/c17.py validates the same mutated documents against
the published schema files with a JSON-schema validator and compares.
Runs under /venv/bin/python; prints GROUND-JSON."""
import json
import os
import random
import sys


def corpus():
    from bounded.hugr_gen import PROGRAMS
    docs = []
    for i, (name, prog) in enumerate(PROGRAMS):
        h = prog(random.Random(1000 + i))
        docs.append((name, json.loads(h.to_json())))
    return docs


def main():
    from pydantic import ConfigDict
    from hugr._serialization.serial_hugr import SerialHugr
    from specs.json_mutations import apply, mutations
    tier = os.environ.get("VERIF_TIER", "quick")
    per_doc = 50 if tier == "quick" else 100000
    docs = corpus()
    out = {"version": SerialHugr.get_version(), "docs": [d for _n, d in docs], "names": [n for n, _d in docs], "probes": []}
    for cfg_name, cfg in (("strict", ConfigDict(strict=True, extra="forbid")), ("lax", ConfigDict(strict=False, extra="allow"))):
        SerialHugr._pydantic_rebuild(cfg, force=True)
        for di, (_name, doc) in enumerate(docs):
            ms = mutations(doc, with_types=cfg_name == "strict")
            rnd = random.Random(17 * di + len(ms))
            if len(ms) > per_doc:
                top = [m for m in ms if m[1] == []]          # the document's own keys are always probed
                ms = top + rnd.sample([m for m in ms if m[1] != []], per_doc)
            for m in [None] + ms:
                d = doc if m is None else apply(doc, m)
                try:
                    SerialHugr.model_validate_json(json.dumps(d))
                    ok = True
                except Exception:  # noqa: BLE001
                    ok = False
                out["probes"].append([cfg_name, di, m, ok])
    dest = os.environ.get("VERIF_C17_PROBES")
    if dest:
        json.dump(out, open(dest, "w"))
    print("GROUND-JSON " + json.dumps({"probes": len(out["probes"]), "docs": len(docs), "file": dest}))


if __name__ == "__main__":
    main()
