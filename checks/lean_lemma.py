"""Thorough tier: re-check the cardinality lemma behind BiMap.__init__ with Lean + Mathlib."""
import os
import subprocess
import tempfile
import time

LEAN_SRC = """import Mathlib
-- |dom m| = |image m|  <->  m injective on its domain  (the fact BiMap.__init__ relies on:
-- len(fwd) == len(set(fwd.values())) iff fwd is injective)
theorem card_image (α β : Type) [DecidableEq β] (s : Finset α) (f : α → β) :
    (s.image f).card = s.card ↔ Set.InjOn f s := Finset.card_image_iff
"""


def check_card_image():
    t0 = time.time()
    d = tempfile.mkdtemp(prefix="lean_")
    p = os.path.join(d, "CardImage.lean")
    open(p, "w").write(LEAN_SRC)
    try:
        env = dict(os.environ)
        r = subprocess.run(["lake", "env", "lean", p], cwd="/opt/veriftools/mathlib4", capture_output=True, text=True, timeout=900, env=env)
        ok = r.returncode == 0 and "error" not in (r.stdout + r.stderr)
        detail = (r.stdout + r.stderr)[-500:]
    except Exception as e:  # pragma: no cover
        ok, detail = False, str(e)
    finally:
        import shutil
        shutil.rmtree(d, ignore_errors=True)
    return {"check": "lean: Finset.card_image_iff instance", "ok": ok, "detail": detail, "wall_s": round(time.time() - t0, 1)}
