"""C12 - the model export is well scoped and faithful to the HUGR."""
import json
import os
import subprocess

from checks.common import CheckResult, VERIF, VENV_PY, replay_header, repo_src, standard_flow

FILES = [os.path.join(VERIF, "contracts", f) for f in ("node_port.py", "tys.py", "ops.py", "utils.py", "base.py", "serial.py", "export.py")]
X = "hugr.model.export."
TARGETS = [X + "_num_model_ports", X + "_mangle_name", X + "_needs_order_key"]


def ground(res):
    env = dict(os.environ, PYTHONPATH=f"{repo_src()}:{VERIF}", PYTHONDONTWRITEBYTECODE="1")
    p = subprocess.run([VENV_PY, "-m", "ground.c12"], capture_output=True, text=True, env=env, cwd=VERIF, timeout=300)
    lines = [l for l in p.stdout.splitlines() if l.startswith("GROUND-JSON ")]
    if not lines:
        res.errors.append("ground.c12 did not run: " + (p.stdout + p.stderr)[-300:])
        return
    for r in json.loads(lines[-1][len("GROUND-JSON "):])["results"]:
        res.ground.append(r)
        if not r["ok"]:
            d = os.path.join(VERIF, "replays", "C12")
            os.makedirs(d, exist_ok=True)
            fn = os.path.join(d, f"ground_{len(res.violations)}.py")
            open(fn, "w").write(replay_header("C12", r["check"]) + f"\nprint({json.dumps(r)!r})\nprint('re-run: /venv/bin/python -m ground.c12 (cwd /verif)')\nsys.exit(1)\n")
            res.violations.append({"clause": r["check"], "replay": fn, "confirmed": True})


def run(tier, seed):
    res = CheckResult("C12", tier, seed)
    res.trusted_base = [
        "pyvc encoding of the supported Python subset (DESIGN 2, A1)",
        "sig_in / sig_out ghost definition of DataflowOp.outer_signature (C06); graph-store listings of order links (contracts proved in C04)",
        "the oracle of the bounded run is written from the statement (regions, ports, link names as connectivity, symbols, order hints, metadata, inlined constants)",
    ]
    res.assumptions = ["ModelExport.export_node / export_region_* (the big per-operation translation), link_name and the union-find are not under contract: bounded only",
                       "basic-block port counts (control ports) are outside _num_model_ports' contract (requires not DataflowBlock): bounded only"]
    # link names and order keys are computed from the graph store's listings (contracts shared with C04)
    H = "hugr.hugr.base.Hugr."
    listings = ([os.path.join(VERIF, "contracts", f) for f in ("node_port.py", "utils.py", "base.py")],
                [H + "_linked_ports", H + "linked_ports", H + "outgoing_order_links", H + "incoming_order_links", H + "_node_links", H + "incoming_links", H + "outgoing_links"])
    standard_flow(res, FILES, TARGETS, None, bounded_modules=[("bounded.c12", 900, 1800)], more=[listings])
    ground(res)
    res.level = "other"
    res.explanation = ("Proved from the real source: the number of ports listed for a node is the number of value ports of its signature (the instantiated one for Call; none / one for constant and "
                       "function loads) - not the connected store ports, so static inputs are never listed; a function's symbol is a function of the function's own node index and name; a node gets an "
                       "order key exactly when an order edge joins it to a sibling other than the region's Input / Output. Region structure, link names as connectivity (same name iff joined by an "
                       "edge; never several producer-side and several consumer-side ports), call / load symbols present in the module, order hints on the region, metadata and inlined constants are "
                       "decided by a bounded run over generated modules against an oracle written from the statement; 'the model classes expose exactly the attributes the Rust binding reads' is a "
                       "closed ground statement decided by comparing the class fields with hugr-model/src/v0/ast/python.rs -> category other. Five genuine defects were repaired.")
    return res.finish()
