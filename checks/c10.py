"""C10 - extension definitions round-trip; the bundled standard library matches the specification."""
import json
import os
import subprocess

from checks.common import CheckResult, VERIF, VENV_PY, replay_header, repo_src, standard_flow

C = lambda *fs: [os.path.join(VERIF, "contracts", f) for f in fs]  # noqa: E731
FILES = C("node_port.py", "tys.py", "ops.py", "ext.py")
E = "hugr.ext.Extension."
TARGETS = ["hugr.tys.FunctionType.with_runtime_reqs", "hugr.tys.PolyFuncType.with_runtime_reqs", E + "add_op_def", E + "add_type_def", E + "add_extension_value",
           "hugr.ext.ExtensionObject.get_extension", "code_lemma:rt_ExplicitBound", "code_lemma:rt_FromParamsBound"]
CODEC_FILES = C("node_port.py", "tys.py", "codec.py", "ops.py", "ext.py", "ext_codec.py")
CODEC_LEMMAS = ["code_lemma:rt_TypeDef", "code_lemma:rt_ExtensionValue", "code_lemma:rt_OpDef", "code_lemma:rt_PolyFuncType"]


def ground(res):
    env = dict(os.environ, PYTHONPATH=f"{repo_src()}:{VERIF}", PYTHONDONTWRITEBYTECODE="1")
    p = subprocess.run([VENV_PY, "-m", "ground.c10"], capture_output=True, text=True, env=env, cwd=VERIF, timeout=600)
    lines = [l for l in p.stdout.splitlines() if l.startswith("GROUND-JSON ")]
    if not lines:
        res.errors.append("ground.c10 did not run: " + (p.stdout + p.stderr)[-300:])
        return
    for r in json.loads(lines[-1][len("GROUND-JSON "):])["results"]:
        res.ground.append(r)
        if not r["ok"]:
            d = os.path.join(VERIF, "replays", "C10")
            os.makedirs(d, exist_ok=True)
            fn = os.path.join(d, f"ground_{len(res.violations)}.py")
            open(fn, "w").write(replay_header("C10", r["check"]) + f"""
import json, subprocess
env = dict(os.environ, PYTHONPATH=os.environ.get("VERIF_REPO_SRC", "/repo/hugr-py/src") + ":/verif")
p = subprocess.run([sys.executable, "-m", "ground.c10"], capture_output=True, text=True, env=env, cwd="/verif")
res = json.loads([l for l in p.stdout.splitlines() if l.startswith("GROUND-JSON ")][-1][12:])["results"]
now = [r for r in res if r["check"] == {r['check']!r}]
print("at check time:", {json.dumps(r, default=str)!r})
print("now:", now)
sys.exit(1 if (not now or not now[0]["ok"]) else 0)
""")
            res.violations.append({"clause": r["check"], "replay": fn, "confirmed": True})


def run(tier, seed):
    res = CheckResult("C10", tier, seed)
    res.trusted_base = [
        "pyvc encoding of the supported Python subset (DESIGN 2, A1)",
        "codec interface contracts for constituent types / parameters / values and their round trips as induction hypotheses (C05)",
        "pydantic dump-then-validate is the identity on model instances (exercised by the bounded run)",
        "dict.fromkeys(seq) represented by its key sequence (first occurrences in order)",
    ]
    res.assumptions = ["extensions without lowering functions (the statement's domain)", "OpDefSig class invariant (a scheme or the binary flag) assumed in rt_OpDef - its constructor raises otherwise",
                       "the whole-extension loops (Extension._to_serial / serial Extension.deserialize over the three dictionaries) are not under contract: bounded + ground only"]
    standard_flow(res, FILES, TARGETS, None, bounded_modules=[("bounded.c10", 900, 1800)], more=[(CODEC_FILES, CODEC_LEMMAS)])
    ground(res)
    res.level = "other"
    res.explanation = ("Proved from the real source: with_runtime_reqs keeps the rows, keeps every old requirement, adds the new ones, without duplicates (a genuine ordering defect here was repaired); "
                       "add_op_def / add_type_def / add_extension_value make the extension the owner, hold the definition under its name, keep every other definition, and add_op_def makes the "
                       "signature name the extension; ExplicitBound / FromParamsBound / TypeDef / OpDef / ExtensionValue decode back with the same name, description, parameters, bound, binary flag, "
                       "scheme and value, owned by and held in the target extension. Whole extensions (three dictionaries, version, requirements, misc data; document fixed point under several hash "
                       "seeds) are decided by a bounded run; 'bundled == published byte for byte, each loads, typed helpers denote existing definitions with matching parameters' is a closed ground "
                       "statement decided by evaluation on every run -> category other.")
    return res.finish()
