"""C19 - shot results convert to register bitstrings by the documented convention."""
import os

from checks.common import CheckResult, VERIF, replay_header, standard_flow

FILES = [os.path.join(VERIF, "contracts", "result.py")]
R = "hugr.qsystem.result."
TARGETS = [R + "_cast_primitive_bit", R + "QsysShot.to_register_bits", R + "QsysShot.collate_tags", R + "QsysResult.register_bitstrings", R + "QsysResult.register_counts"]


def _val(x):
    if isinstance(x, dict) and "sym" in x:
        return 0.5  # an abstract float
    if isinstance(x, (list, tuple)):
        return [_val(y) for y in x]
    return x


def concretize(fr, o):
    inp = o["inputs"]
    body = replay_header("C19", f"counterexample to {o['name']} found by {o['backend']}")
    body += """
from specs import replay_spec as S
from hugr.qsystem.result import QsysShot, _cast_primitive_bit
def outcome(f):
    try:
        return ("ok", f())
    except ValueError:
        return ("ValueError", None)
"""
    if fr["target"].endswith(("register_bitstrings", "register_counts")):
        try:
            shots = [[(_val(t), _val(v)) for (t, v) in sh["fields"]["entries"]] for sh in inp["self"]["fields"]["results"]]
        except (KeyError, TypeError):
            return None
        sn, sl = bool(inp.get("strict_names")), bool(inp.get("strict_lengths"))
        body += "from hugr.qsystem.result import QsysResult\nfrom collections import Counter\n"
        body += f"shots = {shots!r}\nsn, sl = {sn!r}, {sl!r}\n"
        if fr["target"].endswith("register_counts"):
            body += ("got = outcome(lambda: QsysResult(shots).register_counts(strict_names=sn, strict_lengths=sl))\n"
                     "exp = outcome(lambda: {r: Counter(v) for r, v in S.register_bitstrings(shots, strict_names=sn, strict_lengths=sl).items()})\n")
        else:
            body += ("got = outcome(lambda: QsysResult(shots).register_bitstrings(strict_names=sn, strict_lengths=sl))\n"
                     "exp = outcome(lambda: S.register_bitstrings(shots, strict_names=sn, strict_lengths=sl))\n")
    elif fr["target"].endswith("_cast_primitive_bit"):
        v = _val(inp["data"])
        body += f"v = {v!r}\ngot = outcome(lambda: _cast_primitive_bit(v)); exp = outcome(lambda: S.bit(v))\n"
    elif "self" in inp and "fields" in inp["self"] and "entries" in inp["self"]["fields"]:
        es = [(_val(t), _val(v)) for (t, v) in inp["self"]["fields"]["entries"]]
        # abstract tags of the model are unknown strings: use a small family that exercises both tag forms
        if fr["target"].endswith("to_register_bits"):
            body += f"es = {es!r}\ngot = outcome(lambda: QsysShot(es).to_register_bits()); exp = outcome(lambda: S.register_bits(es))\n"
        else:
            body += f"es = {es!r}\ngot = outcome(lambda: QsysShot(es).collate_tags()); exp = outcome(lambda: S.collate(es))\n"
    else:
        return None
    body += "print('real code :', got)\nprint('statement :', exp)\nsys.exit(0 if got == exp else 1)\n"
    return body


def run(tier, seed):
    res = CheckResult("C19", tier, seed)
    res.trusted_base = [
        "pyvc encoding of the supported Python subset (DESIGN 2, A1); DataValue as a tagged union (bool distinct from int)",
        "re.match(REG_INDEX_PATTERN, tag): uninterpreted match predicate / groups, int(digits) >= 0 (compared with `re` on all strings over 7 symbols up to length 6/7 by bounded.c19)",
        "str.join with empty separator over 1-character parts: result has one character per part (axiom)",
        "ghost functions replay / collate are defined by primitive recursion on the number of entries; their defining equations are assumed only as instances at the loop cursor (A_* clauses)",
        "every solver verdict cross-checked by a second solver (z3 4.8.12 or cvc5)",
    ]
    res.trusted_base += [
        "ghost shots_with_register(shots, i) (per register, the indices < i of the shots that write it) defined by primitive recursion on i; its defining equation is assumed only as an instance at the loop cursor (A_si_* clauses)",
        "opaque predicates rendered(s, bits) / shot_accepted(entries): uninterpreted in the multi-shot proofs, unfolded to their definitions (renders, shot_ok) only at the return point of to_register_bits and at the loop cursor (D_* clauses)",
        "iteration over dict.items(): keys in some duplicate-free order covering the domain; ghost set of processed keys with only its consequences assumed (subset of the domain, excludes the current key, the whole domain at exit)",
        "collections.Counter: uninterpreted function of the list (assumed library function); the dictionary returned by register_bitstrings is named by a ghost function of (shots, flags) for register_counts (A_named) - consistent because none of these functions writes the heap (frame proved)",
        "strict options: 'register sets / lengths differ' is formalised as 'some shot differs from the registers of the shots before it / from the length in the first shot that wrote the register', which is equivalent to 'not all equal' (argument on paper, stated in contracts/result.py)",
    ]
    res.assumptions = ["entries inhabit list[tuple[str, DataValue]]; floats are an abstract sort (never bits)",
                       "results inhabits list[QsysShot]; the shots' entry lists are not aliased with anything the functions write (they write nothing: modifies = [])"]
    standard_flow(res, FILES, TARGETS, concretize, bounded_modules=[("bounded.c19", 900, 1500)])
    res.level = "other"
    res.explanation = ("Proved deductively for all inputs: _cast_primitive_bit, QsysShot.to_register_bits (= replay of the entries in order; every character 0/1; "
                       "ValueError exactly when some entry's value is not a bit / list of bits), collate_tags, QsysResult.register_bitstrings (one list per register holding, in shot order, the string of "
                       "every shot that writes the register; ValueError exactly when a shot is rejected or a strict option is set and register sets / lengths differ) and register_counts (the counters of "
                       "exactly those lists, same rejections). collated_counts / _flatten / _flat_bitstring (recursive generators) and to_pytket are covered by the bounded exhaustive small-scope run "
                       "against the statement's oracle only - not counted as proved, hence category other.")
    return res.finish()
