"""C01 - builder-constructed HUGRs satisfy the specification's validity rules."""
import os

from checks.common import CheckResult, VERIF, standard_flow

C = lambda *fs: [os.path.join(VERIF, "contracts", f) for f in fs]  # noqa: E731
FILES = C("node_port.py", "wire.py")
TARGETS = ["hugr.build.dfg._ancestral_sibling", "hugr.build.dfg.DfBase._wire_up_port"]
# the typing table the edge-kind and row rules rest on (shared with C06) and the port addressing (shared with C03)
OPS = (C("node_port.py", "tys.py", "ops.py"), ["hugr.ops.DFG.outer_signature", "hugr.ops.DFG.inner_signature", "hugr.ops.Conditional.outer_signature", "hugr.ops.Conditional.nth_inputs",
                                                "hugr.ops.Case.inner_signature", "hugr.ops.TailLoop.outer_signature", "hugr.ops.TailLoop.inner_signature", "hugr.ops.DataflowBlock.inner_signature",
                                                "hugr.ops.DataflowBlock.nth_outputs", "hugr.ops.CFG.outer_signature", "hugr.ops.FuncDefn.inner_signature", "hugr.ops.Call.port_kind",
                                                "hugr.ops.LoadFunc.port_kind", "hugr.ops.LoadConst.port_kind", "hugr.ops.DataflowOp.port_kind"])
SERIAL = (C("node_port.py", "tys.py", "ops.py", "utils.py", "base.py", "serial.py"), ["hugr.hugr.base._order_port_offset", "hugr.hugr.base.Hugr._constrain_offset"])
# creation of a dataflow container: Input then Output under the container, Input row = the container's input row; set_outputs hands the
# wires to the Output node in order and makes the container's output row the Output node's row (graph-store mutators: trusted recorders)
# function calls: one Call / LoadFunc node from the callee's type scheme, the static function edge from the callee's output 0 to the
# operation's function port, value arguments wired in order
CALLS = (C("node_port.py", "build_call.py"), ["hugr.build.dfg.DfBase.call", "hugr.build.dfg.DfBase.load_function"])
IO = (C("node_port.py", "build_io.py"), ["hugr.build.dfg.DfBase._init_io_nodes", "hugr.build.dfg.DfBase.set_outputs", "hugr.build.dfg.DfBase.add_op",
                                             "hugr.build.dfg.DfBase.new_nested", "hugr.build.dfg.DfBase.add_nested", "hugr.build.dfg.DfBase.add_tail_loop",
                                             "hugr.build.cfg.Cfg._init_impl", "hugr.build.cond_loop.Conditional._init_impl",
                                             "hugr.build.cfg.Cfg.new_nested", "hugr.build.dfg.DfBase.add_cfg", "hugr.build.cond_loop.Conditional.new_nested", "hugr.build.dfg.DfBase.add_conditional"])


def run(tier, seed):
    res = CheckResult("C01", tier, seed)
    res.trusted_base = [
        "pyvc encoding of the supported Python subset (DESIGN 2, A1)",
        "graph-store mutators as TRUSTED call recorders in the wiring contracts (ghost traces of add_link / add_state_order); what they do to the store is proved in C04",
        "container creation / set_outputs (contracts/build_io.py): Hugr.add_node and DfBase._wire_up are trusted call recorders; parent_op / _output_op are trusted accessors naming the operation objects of the "
        "container and Output node (assumed stable); DfParentOp._inputs / _set_out_types are interface contracts over ghost rows (the per-class rows are C06); Output.types is a trusted property",
        "ghost relation anc_or_self (reflexive, closed under parent) with its two defining facts assumed at the loop cursor",
        "specs/validate.py: the validity rules R1-R10 transcribed from the statement and the reference validator it cites - the oracle of the bounded run (the Rust validator is not available offline)",
        "specs/validate.py::hugr_from_doc: an independent reader of the serialized document following the reference reader's port rules",
    ]
    res.assumptions = ["the whole-program statement (every well-formed builder program yields a valid HUGR) is NOT proved: it is decided by the bounded run over random well-formed programs only",
                       "Block._wire_up_port (dominator-edge fallback), Cfg._init_impl, set_outputs / _set_out_types and the container output propagation are not under contract: bounded only"]
    standard_flow(res, FILES, TARGETS, None, bounded_modules=[("bounded.c01", 600, 3000)], more=[OPS, SERIAL, IO, CALLS])
    res.level = "other"
    res.explanation = ("Proved from the real source: _ancestral_sibling returns an ancestor-or-self of the target whose parent is the source's parent (or None); DfBase._wire_up_port adds exactly the value "
                       "link source -> target port and, exactly when that ancestor is not the target itself (the wire enters a nested region), the state-order edge from the source's node to that "
                       "ancestor - and raises NoSiblingAncestor exactly when there is none; DfBase._init_io_nodes creates exactly an Input (row = the container's input row, with its count) and then an Output under the container, and DfBase.set_outputs hands "
                       "the wires to the Output node in order and makes the container's output row the Output node's row (over a ghost trace of the graph-store calls, which C04 proves); new_nested / add_nested / add_tail_loop create the container under the requested parent (typed by the wires' types), then its Input and Output, and hand the wires to the container in order; Cfg.new_nested / add_cfg create the CFG node (typed by the wires' types) under the requested parent and hand it the wires; Cfg._init_impl creates the entry block (with the CFG's input row) first and the exit block next under the CFG node; Conditional.new_nested / add_conditional create the Conditional node over the given sum under the requested parent and then the cases; Conditional._init_impl creates, for every variant in order, a Case whose input row is that variant's row followed by the other inputs, with its Input and Output (loop invariant); DfBase.call / load_function create one Call / LoadFunc node from the callee's type scheme and attach the static function edge from the callee's output 0 to the "
                       "operation's function port (input 0 for LoadFunc), wiring the value arguments in order; the container signatures and static-port kinds the row / edge-kind rules rest on (shared with C06) and the "
                       "serialized port offsets (shared with C03). That every well-formed builder program (all builder kinds, nesting, Ext and Dom edges, partially used multi-output operations, "
                       "linear values) yields a HUGR - and a serialized document - satisfying rules R1-R10 is decided by a bounded run of random programs against the transcribed validator -> other.")
    return res.finish()
