"""C07 - a type is reported copyable only if all of its constituents are."""
import json
import os

from checks.common import CheckResult, VERIF, replay_header, repo_src, standard_flow

FILES = [os.path.join(VERIF, "contracts", "tys.py")]
T = "hugr.tys."
TARGETS = ["hugr._serialization.tys.TypeBound.join", T + "Sum.type_bound", T + "Variable.type_bound", T + "RowVariable.type_bound",
           T + "Alias.type_bound", T + "Opaque.type_bound", T + "USize.type_bound", T + "FunctionType.type_bound",
           T + "PolyFuncType.type_bound", T + "_QubitDef.type_bound", T + "ExtType.type_bound", T + "ExtType._to_opaque",
           T + "Tuple.__init__", T + "Option.__init__", T + "Either.__init__", T + "UnitSum.__init__",
           "hugr.std.collections.array.Array.__init__", "hugr.std.collections.array.Array.type_bound",
           "hugr.std.collections.list.List.__init__", "hugr.std.collections.list.List.type_bound",
           "hugr.std.collections.static_array.StaticArray.__init__", "hugr.std.collections.static_array.StaticArray.type_bound",
           "lemma:collection_overrides_agree_with_generic_rule"]


def ground_defs():
    """Facts about the bundled definitions that the trusted _load_extension contract and the lemma
    rely on, read from the JSON files of the working tree."""
    out = []
    base = os.path.join(repo_src(), "hugr", "std", "_json_defs")
    want = {"collections/array.json": ("collections.array", "array", {"b": "FromParams", "indices": [1]}),
            "collections/list.json": ("collections.list", "List", {"b": "FromParams", "indices": [0]}),
            "collections/static_array.json": ("collections.static_array", "static_array", {"b": "Explicit", "bound": "C"})}
    for rel, (ename, tname, bound) in want.items():
        try:
            d = json.load(open(os.path.join(base, rel)))
            got = d["types"].get(tname, {}).get("bound")
            ok = d["name"] == ename and got == bound
        except Exception as e:  # noqa: BLE001
            got, ok = repr(e), False
        out.append({"check": f"{rel}: extension {ename} defines type {tname} with bound {bound}", "observed": got, "ok": ok})
    return out


def class_table_facts():
    """Every class implementing Type either has its own type_bound under contract or inherits one."""
    import sys
    sys.path.insert(0, VERIF)
    from pyvc.front import load_world
    w = load_world(repo_src())
    covered = {t.rsplit(".", 1)[0] for t in TARGETS if t.endswith(".type_bound")}
    missing = []
    for q in w.subclasses("hugr.tys.Type"):
        ci = w.get_class(q)
        if ci.is_protocol:
            continue
        m = w.find_method(q, "type_bound")
        if m is None or m.is_stub:
            missing.append(q + " (no implementation)")
            continue
        owner = f"{m.module}.{m.cls}"
        if owner not in covered:
            missing.append(f"{q} (type_bound defined in {owner}, not under contract)")
    return {"check": "closed world: every Type implementor's type_bound is under contract", "observed": missing, "ok": not missing}


def run(tier, seed):
    res = CheckResult("C07", tier, seed)
    res.trusted_base = [
        "pyvc encoding of the supported Python subset (DESIGN 2, A1)",
        "copyable(t) is defined by structural recursion, one clause per class (contracts/tys.py header); types are finite trees",
        "interface contract of Type.type_bound assumed for constituent types (modular structural induction); closed world of Type implementors read from the AST each run",
        "two-level comprehension in Sum.type_bound abstracted by membership",
        "sequence lemma x in s <=> exists j. s[j] == x, supplied per use",
        "hugr.std._load_extension TRUSTED (returns the bundled definition); the definition facts used are ground-checked against the JSON files",
        "every solver verdict cross-checked by a second solver",
    ]
    res.assumptions = ["ExtType arguments that are not TypeTypeArg (e.g. a VariableArg in a type position) do not contribute to the bound - the statement speaks of type arguments; that shape cannot come from a decoded document"]
    standard_flow(res, FILES, TARGETS, None, bounded_modules=[("bounded.c07", 900, 600)])
    for g in ground_defs() + [class_table_facts()]:
        res.ground.append(g)
        if not g["ok"]:
            p = os.path.join(VERIF, "replays", "C07")
            os.makedirs(p, exist_ok=True)
            fn = os.path.join(p, f"ground_{len(res.violations)}.py")
            open(fn, "w").write(replay_header("C07", g["check"]) + f"\nprint({g!r})\nsys.exit(1)\n")
            res.violations.append({"clause": g["check"], "replay": fn, "confirmed": True})
    res.level = "proof"
    res.explanation = ("Every type_bound override, TypeBound.join, ExtType._to_opaque (written bound = computed bound), the sugar constructors and the standard "
                       "collection types are verified against the per-class clauses of the statement; StaticArray.__init__ raises ValueError exactly for non-copyable elements.")
    return res.finish()
