"""C18 - BiMap stays a bijection: every method of hugr.utils.BiMap under contract."""
import json
import os

from checks.common import CheckResult, VERIF, replay_header, standard_flow

FILES = [os.path.join(VERIF, "contracts", "utils.py")]
TARGETS = ["hugr.utils.BiMap." + m for m in (
    "__init__", "__getitem__", "__setitem__", "__delitem__", "__iter__", "__len__", "items",
    "get_left", "get_right", "insert_left", "insert_right", "delete_left", "delete_right")]

FALSY = [0, "", (), frozenset(), b""]
TRUTHY = [1, "a", (1,), 2, "b", (2,), 3, "c"]


def _concrete_atoms(inputs):
    """Map the model's abstract elements of L / R to concrete hashable Python values that
    respect the model's truthiness predicate."""
    table = {}
    pools = {}

    def visit(x):
        if isinstance(x, dict):
            if "sym" in x:
                s = x["sym"]
                if s not in table:
                    sort = s.split("!")[0]
                    pool = pools.setdefault((sort, x.get("truthy", True)), list(TRUTHY if x.get("truthy", True) else FALSY))
                    table[s] = pool.pop(0)
                return
            for v in x.values():
                visit(v)
        elif isinstance(x, (list, tuple)):
            for v in x:
                visit(v)
    visit(inputs)
    return table


def concretize(fr, o):
    inputs = o["inputs"]
    atoms = _concrete_atoms(inputs)

    def val(x):
        if x is None:
            return None
        if isinstance(x, dict) and "sym" in x:
            return atoms[x["sym"]]
        if isinstance(x, dict) and "dict" in x:
            return {val(k): val(v) for k, v in x["dict"]}
        raise ValueError(f"cannot concretise {x}")
    method = fr["target"].rsplit(".", 1)[1]
    args = {k: val(v) for k, v in inputs.items() if k != "self"}
    body = replay_header("C18", f"counterexample to {o['name']} found by {o['backend']}")
    if method == "__init__":
        body += f"""
from pyvc.rt import load_db, Monitor, ContractViolation
import hugr.utils as U
db = load_db({FILES!r})
uni = {{"L": {list(atoms.values()) + [97, 98]!r}, "R": {list(atoms.values()) + [97, 98]!r}}}
mon = Monitor(db, uni); mon.install({[fr['target']]!r})
print("BiMap(%r)" % ({args.get('fwd')!r},))
try:
    U.BiMap({args.get('fwd')!r})
except ContractViolation as e:
    print("VIOLATED:", e); sys.exit(1)
except Exception as e:
    print("raised", repr(e))
print("clause holds on the real code"); sys.exit(0)
"""
        return body
    selfv = inputs["self"]["fields"]
    fwd = val(selfv["fwd"])
    body += f"""
from pyvc.rt import load_db, Monitor, ContractViolation, PreconditionFailed
import hugr.utils as U
db = load_db({FILES!r})
fwd = {fwd!r}
bm = U.BiMap(fwd)            # the pre-state of the counter-model, rebuilt through the public constructor
atoms = {list(atoms.values())!r}
uni = {{"L": atoms + [97, 98], "R": atoms + [97, 98]}}
mon = Monitor(db, uni); mon.install({[fr['target']]!r})
args = {args!r}
print("state:", bm, " call: {method}(**%r)" % (args,))
try:
    getattr(bm, {method!r})(**args)
except ContractViolation as e:
    print("VIOLATED:", e); sys.exit(1)
except PreconditionFailed as e:
    print("unreplayable witness (precondition false on the rebuilt state):", e); sys.exit(0)
except Exception as e:
    print("raised", repr(e))
print("after:", bm)
print("clause holds on the real code"); sys.exit(0)
"""
    return body


def run(tier, seed):
    res = CheckResult("C18", tier, seed)
    res.trusted_base = [
        "pyvc encoding of the supported Python subset (DESIGN 2, A1)",
        "dict model: (domain, value) arrays; dict comprehension keeps *some* source item per key",
        "lemma card_image: |dom m| = |image m| <=> m injective (Mathlib Finset.card_image_iff; Lean file checked in the thorough tier)",
        "collections.abc.MutableMapping mixins (pop, update, ...) use only the abstract methods under contract",
        "keys/values are hashable with == consistent with hash and are not None",
    ]
    res.assumptions = ["no concurrent mutation; arguments inhabit their annotated types"]
    standard_flow(res, FILES, TARGETS, concretize, bounded_modules=[("bounded.c18", 900, 1800)])
    if tier == "thorough":
        from checks.lean_lemma import check_card_image
        res.ground.append(check_card_image())
        if not res.ground[-1]["ok"]:
            res.errors.append("Lean check of card_image failed: " + res.ground[-1]["detail"][:300])
    res.level = "proof"
    res.explanation = ("All 13 BiMap methods verified deductively against whole-view contracts (class invariant + frame). "
                       "A bounded exhaustive exploration of operation sequences runs alongside as a differential check of the encoding; it is not part of the proof.")
    return res.finish()
