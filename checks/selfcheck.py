"""setup_cmd: verify that the tools the checks need are present (no build step)."""
import os
import shutil
import subprocess
import sys


def main():
    ok = True
    try:
        import z3
        print("z3 api", z3.get_version_string())
    except Exception as e:
        print("z3 api missing", e)
        ok = False
    for tool in ("/usr/bin/cvc5", "/usr/bin/z3", "/venv/bin/python"):
        if not os.path.exists(tool):
            print("missing", tool)
            ok = False
    p = subprocess.run(["/venv/bin/python", "-c", "import sys; sys.path.insert(0, '/repo/hugr-py/src'); import hugr, pydantic; print('hugr importable, pydantic', pydantic.VERSION)"], capture_output=True, text=True)
    print(p.stdout.strip() or p.stderr.strip()[-300:])
    ok = ok and p.returncode == 0
    from pyvc.front import load_world
    w = load_world()
    print("modules parsed:", len(w.modules))
    return 0 if ok else 1
