"""C16 - node handles enumerate exactly their value outputs; ports compare by index and offset."""
import os

from checks.common import CheckResult, VERIF, replay_header, standard_flow

FILES = [os.path.join(VERIF, "contracts", f) for f in ("node_port.py", "utils.py", "base.py")]
NP = "hugr.hugr.node_port."
TARGETS = [NP + "Node._normalize_index", NP + "Node._index#int", NP + "Node._index#slice",
           NP + "Node.__getitem__#int", NP + "Node.__getitem__#slice", NP + "Node.outputs", NP + "Node.__iter__",
           NP + "Node.out_port", NP + "OutPort.out_port", NP + "Node.inp", NP + "Node.out", NP + "Node.to_node",
           "lemma:ports_compare_by_index_and_offset",
           # the count-carrying paths of the graph store (contracts shared with C04)
           "hugr.hugr.base.Hugr._update_port_count", "hugr.hugr.base.Hugr.add_node"]


def concretize(fr, o):
    inp = o["inputs"]
    if "self" not in inp or not isinstance(inp["self"], dict) or inp["self"].get("rec", "").rsplit(".", 1)[-1] != "Node":
        return None
    n = inp["self"]["_num_out_ports"]
    idx = inp["self"]["idx"]
    method = fr["target"].split("#")[0].rsplit(".", 1)[1]
    args = []
    for k, v in inp.items():
        if k == "self":
            continue
        if isinstance(v, dict) and "slice" in v:
            a, b, c = v["slice"]
            args.append(f"slice({a!r}, {b!r}, {c!r})")
        else:
            args.append(repr(v))
    body = replay_header("C16", f"counterexample to {o['name']} found by {o['backend']}")
    body += f"""
from pyvc.rt import load_db, Monitor, ContractViolation, PreconditionFailed
from hugr.hugr.node_port import Node
db = load_db({FILES[:1]!r})
mon = Monitor(db, {{"int": list(range(-2, 40))}}); mon.install()
node = Node({idx}, {{}}, {n!r})
print("call: Node({idx}, {{}}, {n!r}).{method}({', '.join(args)})")
try:
    r = node.{method}({', '.join(args)})
    print("result:", list(r) if hasattr(r, "__iter__") and not hasattr(r, "offset") else r)
except ContractViolation as e:
    print("VIOLATED:", e); sys.exit(1)
except PreconditionFailed as e:
    print("unreplayable witness:", e); sys.exit(0)
except Exception as e:
    print("raised", repr(e))
print("clause holds on the real code"); sys.exit(0)
"""
    return body


def ground_flags():
    """The dataclass flags the key projection is derived from (read from the AST)."""
    import sys
    sys.path.insert(0, VERIF)
    from pyvc.front import load_world
    from checks.common import repo_src
    w = load_world(repo_src())
    out = []
    node = w.get_class(NP + "Node")
    flags = {f.name: f.compare for f in w.all_fields(NP + "Node")}
    ok = node.is_dataclass and node.frozen and node.eq and flags == {"idx": True, "_metadata": False, "_num_out_ports": False}
    out.append({"check": "Node: frozen dataclass, eq, compare flags idx only", "observed": flags, "ok": ok})
    for c in ("InPort", "OutPort"):
        ci = w.get_class(NP + c)
        fl = {f.name: f.compare for f in w.all_fields(NP + c)}
        ok = ci.is_dataclass and ci.frozen and ci.eq and fl == {"node": True, "offset": True} and w.find_method(NP + c, "__eq__") is None and w.find_method(NP + c, "__hash__") is None
        out.append({"check": f"{c}: frozen dataclass, generated __eq__/__hash__ over (node, offset)", "observed": fl, "ok": ok})
    return out


def run(tier, seed):
    res = CheckResult("C16", tier, seed)
    res.trusted_base = [
        "pyvc encoding of the supported Python subset (DESIGN 2, A1); frozen dataclasses as value records",
        "a generator result is abstracted by the sequence it yields; the obligations `purecall:*` show that producing each element cannot raise",
        "match statement: class patterns on int / slice / tuple as isinstance tests (PEP 634)",
        "handle invariant _num_out_ports is None or >= 0 (counts come from len(...) / explicit non-negative arguments)",
    ]
    res.assumptions = ["slice steps are None or positive (the statement's domain); arguments inhabit their annotated types"]
    # the count a handle returned by add_op / call carries is the operation's num_out: the value outputs of its
    # (instantiated) signature - contracts shared with C06
    ops_files = [os.path.join(VERIF, "contracts", f) for f in ("node_port.py", "tys.py", "ops.py")]
    ops_targets = ["hugr.ops." + c + ".num_out" for c in ("Input", "DFG", "CFG", "Conditional", "TailLoop", "DataflowBlock", "CallIndirect", "Call", "UnpackTuple")]
    standard_flow(res, FILES, TARGETS, concretize, bounded_modules=[("bounded.c16", 900, 600)], more=[(ops_files, ops_targets),
                        # the handle add_op returns knows the count the operation reports after the wiring (contract shared with C01)
                        ([os.path.join(VERIF, "contracts", f) for f in ("node_port.py", "build_io.py")], ["hugr.build.dfg.DfBase.add_op"]),
                        ([os.path.join(VERIF, "contracts", f) for f in ("node_port.py", "build_call.py")], ["hugr.build.dfg.DfBase.call"]),
                        # the handle load returns is the one add returned for the LoadConstant: it carries that operation's count (contract shared with C14)
                        ([os.path.join(VERIF, "contracts", f) for f in ("node_port.py", "tys.py", "ops.py", "utils.py", "base.py", "load.py")], ["hugr.build.dfg.DfBase.load#node", "hugr.build.dfg.DfBase.load#value"]),
                        # a container builder's handle knows its count once the outputs are set (over the graph-store contracts of C04)
                        ([os.path.join(VERIF, "contracts", f) for f in ("node_port.py", "utils.py", "base.py", "build_counts.py")],
                         ["hugr.hugr.base.Hugr._update_node_outs", "hugr.build.dfg.DfBase._set_parent_output_count", "hugr.build.dfg.Dfg.set_outputs"])])
    for g in ground_flags():
        res.ground.append(g)
        if not g["ok"]:
            p = os.path.join(VERIF, "replays", "C16")
            os.makedirs(p, exist_ok=True)
            fn = os.path.join(p, "flags.py")
            open(fn, "w").write(replay_header("C16", g["check"]) + f"\nprint({g!r})\nsys.exit(1)\n")
            res.violations.append({"clause": g["check"], "replay": fn, "confirmed": True})
    res.level = "other"
    res.explanation = ("node_port.py (indexing, slicing, iteration, wire meaning, equality/hash projection) is proved deductively for all n, "
                       "indices and slices. Of the clause about handles *returned by the graph and the builders*, these entry points are proved: add_node with a count and _update_port_count (shared with C04), "
                       "DfBase.add_op (the handle is the new node and carries the count the operation reports after the wiring), DfBase.call (the handle carries the Call operation's output count), DfBase.load in both variants (the handle is the one DfBase.add returned for the LoadConstant and carries that operation's count; add is a trusted recorder restating add_op's proved clause), Hugr._update_node_outs, DfBase._set_parent_output_count and "
                       "Dfg.set_outputs (the container's handle knows the number of outputs once they are set), num_out of the operation classes (shared with C06). The other entry points (add, extend, "
                       "insert_*, the other container builders) are covered by the bounded stand-in only (one program per entry point, plus index-reuse histories) - not counted as proved.")
    res.trusted_base += ["add_op (contracts/build_io.py): Hugr.add_node / DfBase._wire_up as trusted call recorders; the count an operation reports is a ghost of the operation and a typing epoch that _wire_up advances",
                         "Dfg.set_outputs (contracts/build_counts.py): the plain DfBase.set_outputs is a trusted callee assumed to keep the container live, well-formed and listed under its parent (what wiring does to the store is C04)"]
    return res.finish()
