"""C14 - constants inhabit the type they report."""
import ast
import json
import os

from checks.common import CheckResult, VERIF, replay_header, repo_src, standard_flow

FILES = [os.path.join(VERIF, "contracts", f) for f in ("node_port.py", "tys.py", "ops.py", "val.py")]
EXTRA = ["hugr.ops.Const.port_kind", "hugr.ops.LoadConst.port_kind", "hugr.ops.LoadConst.outer_signature",
         "hugr.std.collections.array.Array.__init__", "hugr.std.collections.list.List.__init__",
         "hugr.std.collections.static_array.StaticArray.__init__", "hugr.tys.Tuple.__init__", "hugr.tys.Option.__init__",
         "hugr.tys.Either.__init__", "hugr.tys.UnitSum.__init__"]


def targets():
    out = []
    tree = ast.parse(open(FILES[3]).read())
    for st in tree.body:
        if isinstance(st, ast.ClassDef):
            for d in st.decorator_list:
                if isinstance(d, ast.Call) and getattr(d.func, "id", "") == "contract":
                    trusted = any(isinstance(x, ast.Assign) and x.targets[0].id == "trusted" for x in st.body if isinstance(x, ast.Assign))
                    if not trusted:
                        out.append(ast.literal_eval(d.args[0]))
    return out + EXTRA


def ground():
    out = []
    base = os.path.join(repo_src(), "hugr", "std", "_json_defs")
    want = [("arithmetic/int/types.json", "arithmetic.int.types", "int"), ("arithmetic/float/types.json", "arithmetic.float.types", "float64"),
            ("prelude.json", "prelude", "string"), ("collections/array.json", "collections.array", "array"),
            ("collections/list.json", "collections.list", "List"), ("collections/static_array.json", "collections.static_array", "static_array")]
    for rel, ename, tname in want:
        try:
            d = json.load(open(os.path.join(base, rel)))
            ok = d["name"] == ename and tname in d["types"]
            obs = sorted(d["types"])
        except Exception as e:  # noqa: BLE001
            ok, obs = False, repr(e)
        out.append({"check": f"{rel}: extension {ename} defines type {tname}", "observed": obs, "ok": ok})
    try:
        d = json.load(open(os.path.join(base, "arithmetic/int/types.json")))
        p = d["types"]["int"]["params"]
        ok = p == [{"tp": "BoundedNat", "bound": 7}]
        out.append({"check": "int type takes one BoundedNat(7) parameter (widths 0..6)", "observed": p, "ok": ok})
    except Exception as e:  # noqa: BLE001
        out.append({"check": "int type parameter", "observed": repr(e), "ok": False})
    return out


def run(tier, seed):
    res = CheckResult("C14", tier, seed)
    res.trusted_base = [
        "pyvc encoding of the supported Python subset (DESIGN 2, A1)",
        "interface contracts (assumed for elements of unknown class): Value.type_ names the reported type vtype(v); Value._to_serial_root / Type._to_serial_root name the complete serial forms (the codec is C05)",
        "values stored in `Any` fields are injected with an invertible injection (any_as(inj(x)) == x)",
        "hugr.std._load_extension TRUSTED; the definitions used are ground-checked against the JSON files",
        "a raw val.Sum(tag, typ, vals) is a plain dataclass: inhabitation is the caller's obligation (the helpers establish it); UnitSum(tag, size) needs 0 <= tag < size",
        "every solver verdict cross-checked by a second solver",
    ]
    res.assumptions = ["DfBase.load: DfBase.add and Hugr.add_link are trusted call recorders (ghost traces; add_op is proved in C01, add_link in C04); in the proof of load for a bare value DefinitionBuilder.add_const is a recorder whose non-ghost clauses are proved for its real body (contracts/add_const.py)"]
    # "the type it reports is the type its serialized form inhabits": the encoders of sum / extension values and
    # of Const write exactly the reported type, tag and fields (per-class encode/decode lemmas shared with C05)
    codec_files = [os.path.join(VERIF, "contracts", f) for f in ("node_port.py", "tys.py", "codec.py", "ops.py")]
    codec_lemmas = ["code_lemma:rt_val_Sum", "code_lemma:rt_val_Extension", "code_lemma:rt_op_Const", "code_lemma:rt_op_LoadConst"]
    standard_flow(res, FILES, targets(), None, bounded_modules=[("bounded.c14", 900, 1800)], more=[(codec_files, codec_lemmas),
                        # a function-valued constant has the signature of its body; the LoadConstant built for a constant node has the reported type
                        ([os.path.join(VERIF, "contracts", f) for f in ("node_port.py", "tys.py", "ops.py", "utils.py", "base.py", "val_function.py")], ["hugr.val.Function.type_"]),
                        ([os.path.join(VERIF, "contracts", f) for f in ("node_port.py", "tys.py", "ops.py", "utils.py", "base.py", "load.py")], ["hugr.build.dfg.DfBase.load#node", "hugr.build.dfg.DfBase.load#value"]),
                        # the constant definition DfBase.load adds for a bare value: one new node holding Const(value) under the requested parent
                        ([os.path.join(VERIF, "contracts", f) for f in ("node_port.py", "tys.py", "ops.py", "utils.py", "base.py", "add_const.py")], ["hugr.build.dfg.DefinitionBuilder.add_const"])])
    for g in ground():
        res.ground.append(g)
        if not g["ok"]:
            p = os.path.join(VERIF, "replays", "C14")
            os.makedirs(p, exist_ok=True)
            fn = os.path.join(p, f"ground_{len(res.violations)}.py")
            open(fn, "w").write(replay_header("C14", g["check"]) + f"\nprint({g!r})\nsys.exit(1)\n")
            res.violations.append({"clause": g["check"], "replay": fn, "confirmed": True})
    res.level = "other"
    res.explanation = ("Proved: val.Sum.type_, every helper constructor (Tuple/Some/None_/Left/Right/UnitSum/bool_value) builds the stated sum type with the right tag and is well typed "
                       "(field types exactly the tagged variant row), Extension.type_, IntVal/FloatVal/StringVal/ArrayVal/ListVal/StaticArrayVal report the matching standard type, name their "
                       "defining extension and embed elements as complete values with the element type; Const/LoadConst agreement (shared with C06). "
                       "val.Function.type_ (signature of the body's root operation) and DfBase.load for a constant node (the LoadConstant carries the reported type and is linked to the constant's static port; plain builder calls as trusted recorders) are proved as well; DfBase.load of a bare value (one constant node holding exactly that value is added by add_const - proved against the C04 contract of Hugr.add_node - under the requested parent, else under the container; then as for a node); the encoders of nested function values and the whole value expressions are covered by the bounded run, hence category other.")
    return res.finish()
