"""C20 - rendering draws every node, port and link of the HUGR exactly once."""
import os

from checks.common import CheckResult, VERIF, standard_flow

FILES = [os.path.join(VERIF, "contracts", f) for f in ("node_port.py", "tys.py", "ops.py", "utils.py", "base.py", "serial.py", "render.py")]
R = "hugr.hugr.render.DotRenderer."
TARGETS = [R + "_num_cells", R + "_out_port_name", R + "_in_port_name"]


def run(tier, seed):
    res = CheckResult("C20", tier, seed)
    res.trusted_base = [
        "pyvc encoding of the supported Python subset (DESIGN 2, A1); f-strings of int / str pieces are exact (str()), others opaque",
        "ASSUMED for this property's domain (complete operations): _order_port_offset in the form proved for C03 without its may-raise clause",
        "graphviz (the Digraph object and its text output) is outside the verified code: statement emission is decided by parsing the DOT source in the bounded run",
    ]
    res.assumptions = ["DataflowBlock successor counts are named by a ghost function in the cell contract (the block case of _num_cells is bounded only)"]
    # edge colours and type labels come from the port kinds (contracts shared with C06)
    kinds = ([os.path.join(VERIF, "contracts", f) for f in ("node_port.py", "tys.py", "ops.py")],
             ["hugr.ops.DataflowOp.port_kind", "hugr.ops.Call.port_kind", "hugr.ops.LoadFunc.port_kind", "hugr.ops.LoadConst.port_kind", "hugr.ops.Const.port_kind",
              "hugr.ops.FuncDefn.port_kind", "hugr.ops.FuncDecl.port_kind", "hugr.ops.DataflowBlock.port_kind"])
    standard_flow(res, FILES, TARGETS, None, bounded_modules=[("bounded.c20", 900, 1800)], more=[kinds])
    res.level = "other"
    res.explanation = ("Proved from the real source: the number of port cells of a node is the number of ports its operation has per its signature (value ports, static input, the function / constant "
                       "output) and never less than the connected ports (two genuine defects were repaired: cells followed the connected ports only; declaring a function's outputs changed the "
                       "FuncDefn's port count); edge endpoint names are '<node index>:in.<offset>' / '<node index>:out.<offset>'. That the DOT source contains exactly one node statement per node "
                       "with the display name and those cells, clusters nested as the hierarchy, one edge statement per link with its type label, that the HUGR is not modified and that palettes / "
                       "name qualification only change colours and the prefix is decided by parsing the source of 300 generated HUGRs (bounded) -> category other.")
    return res.finish()
