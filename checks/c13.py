"""C13 - builders refuse inconsistent constructions instead of recording them."""
import os

from checks.common import CheckResult, VERIF, standard_flow

C = lambda *fs: [os.path.join(VERIF, "contracts", f) for f in fs]  # noqa: E731
FILES = C("node_port.py", "refuse.py")
TARGETS = ["hugr.ops._CallOrLoad.__init__", "hugr.ops._check_complete", "hugr.build.cond_loop.Conditional.add_case", "hugr.build.cond_loop.Conditional.__exit__",
           "hugr.build.cond_loop.Conditional._update_outputs", "hugr.build.dfg.Function.set_outputs", "hugr.build.cfg.Cfg.branch_exit", "hugr.build.cond_loop.Case.set_outputs"]
TRACKED = (C("tracked.py", "node_port.py"), ["hugr.build.tracked_dfg.TrackedDfg.tracked_wire", "hugr.build.tracked_dfg.TrackedDfg.untrack_wire"])
# incomplete operations: every signature accessor raises IncompleteOp exactly when its row is not set (contracts shared with C06)
OPS = (C("node_port.py", "tys.py", "ops.py"), ["hugr.ops.Output.outer_signature", "hugr.ops.DFG.outer_signature", "hugr.ops.DFG.inner_signature", "hugr.ops.CFG.outer_signature",
                                                "hugr.ops.Conditional.outer_signature", "hugr.ops.MakeTuple.cached_signature", "hugr.ops.UnpackTuple.cached_signature"])


def run(tier, seed):
    res = CheckResult("C13", tier, seed)
    res.trusted_base = ["pyvc encoding of the supported Python subset (DESIGN 2, A1)", "exceptional postconditions: `raises {E: cond}` is checked in both directions (E is raised whenever cond holds, and only then)"]
    res.trusted_base += ["equality of types is the opaque dataclass relation (dc_eq); rows compare element by element and in length",
                         "ParentBuilder.parent_op (read through the graph store) is a trusted accessor naming the root node's operation object, assumed stable while the builder is used; "
                         "_get_dataflow_type names its result (ghost) and may raise ValueError under a condition left open here; the plain DfBase.set_outputs is a trusted callee"]
    res.assumptions = ["the refusals that depend on the graph store (NoSiblingAncestor / NotInSameCfg in _wire_up_port, "
                       "non-function / non-dataflow ports, integers in an untracked builder) are decided by the bounded run only"]
    standard_flow(res, FILES, TARGETS, None, bounded_modules=[("bounded.c13", 900, 1800)], more=[TRACKED, OPS])
    res.level = "other"
    res.explanation = ("Proved with exact raise conditions from the real source: _CallOrLoad.__init__ raises NoConcreteFunc exactly when a polymorphic function is called / loaded without an instantiation or "
                       "with a different number of type arguments than parameters; Conditional.add_case raises ConditionalError exactly for an index outside 0..n-1 (a genuine defect for negative indices "
                       "was repaired) or an already built case, leaving the builder unchanged; Conditional.__exit__ raises exactly when a case is unbuilt; _check_complete and the signature accessors of "
                       "Output / DFG / CFG / Conditional / MakeTuple / UnpackTuple raise IncompleteOp exactly when the row is not set; TrackedDfg.tracked_wire / untrack_wire raise IndexError exactly "
                       "for untracked indices; Conditional._update_outputs raises ConditionalError exactly when a row has been established (an empty row counts) and the case's row differs, recording nothing, and otherwise "
                       "establishes / keeps the row - and Case.set_outputs hands it exactly the row of its wires' types, so a case whose outputs disagree is refused at set_outputs; Function.set_outputs raises ValueError whenever outputs are declared and the row of the wires' types differs from the declaration in length or at some position, "
                       "and never changes the declaration; Cfg.branch_exit raises MismatchedExit exactly when an exit row has been established and the branching block's successor row differs from it (leaving the exit row as it was), "
                       "and the first branch establishes the exit row and the CFG's outputs. The remaining refusals are decided by 78 enumerated one-inconsistency programs (each with a consistent control) - bounded; hence category other.")
    return res.finish()
