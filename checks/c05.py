"""C05 - types, values and operations survive encoding and decoding unchanged."""
import ast
import os

from checks.common import CheckResult, VERIF, standard_flow

FILES = [os.path.join(VERIF, "contracts", f) for f in ("node_port.py", "tys.py", "codec.py")]


def targets():
    tree = ast.parse(open(FILES[2]).read())
    out = []
    for st in tree.body:
        if isinstance(st, ast.FunctionDef) and any(ast.unparse(d).startswith("code_lemma") for d in st.decorator_list):
            out.append("code_lemma:" + st.name)
    return out + ["hugr.tys.ExtType._to_opaque", "hugr.tys.FunctionType.flip"]


def run(tier, seed):
    global FILES
    res = CheckResult("C05", tier, seed)
    res.trusted_base = [
        "pyvc encoding of the supported Python subset (DESIGN 2, A1)",
        "pydantic model instances are immutable records of their declared fields; dump-then-validate (the wire) is the identity on them (assumed library contract, exercised by bounded.c05 on the real stack)",
        "modular structural induction: each per-class lemma assumes the round-trip relation (teq / aeq / peq / veq) for the constituent positions, which are structurally smaller (types, args, params and values are finite trees)",
        "interface contracts only *name* the serial form / decoded object of a constituent (tser, tdes, ...); the closed world of implementing classes is read from the AST",
        "every solver verdict cross-checked by a second solver",
    ]
    res.assumptions = ["function-valued constants (nested HUGR), the document-level direction (foreign schema-valid documents: null-offset order edges, metadata) and "
                       "'same derived facts' for classes that change representation are covered by bounded.c05 on the real pydantic stack, not by the lemmas"]
    FILES2 = FILES + [os.path.join(VERIF, "contracts", "ops.py")]
    # edges of loaded documents are written back at offsets computed by these two functions (contracts shared with C03)
    serial = ([os.path.join(VERIF, "contracts", f) for f in ("node_port.py", "tys.py", "ops.py", "utils.py", "base.py", "serial.py")],
              ["hugr.hugr.base._order_port_offset", "hugr.hugr.base.Hugr._constrain_offset"])
    standard_flow(res, FILES2, targets(), None, bounded_modules=[("bounded.c05", 900, 1800)], more=[serial])
    res.level = "other"
    res.explanation = ("For every class of the data model (6 type parameters, 6 type arguments, 11 types incl. the sugar sums, general sum / extension values, all 21 serialized "
                       "operation kinds incl. sugar tags, Custom and ExtOp) the composition deserialize(_to_serial(x)) is executed symbolically on the real bodies and shown to return an "
                       "object of the expected class with the same attributes (type parameters, extension deltas, names, tags, rows, descriptions; extension types in opaque form). "
                       "Foreign documents, function values and HUGR-level edges/metadata are bounded -> category other. Seven genuine codec defects were repaired.")
    return res.finish()
