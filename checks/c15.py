"""C15 - index-based (tracked) wiring is equivalent to explicit wiring."""
import os

from checks.common import CheckResult, VERIF, replay_header, repo_src, standard_flow

FILES = [os.path.join(VERIF, "contracts", "tracked.py"), os.path.join(VERIF, "contracts", "node_port.py")]
T = "hugr.build.tracked_dfg.TrackedDfg."
TARGETS = [T + "track_wire", T + "tracked_wire", T + "untrack_wire", T + "add", T + "set_indexed_outputs",
           # the port an index is rebound to is built by Node.out (contract shared with C16)
           "hugr.hugr.node_port.Node.out", "hugr.hugr.node_port.Node.inp", "hugr.hugr.node_port.Node.out_port", "hugr.hugr.node_port.OutPort.out_port"]


def ground():
    import sys
    sys.path.insert(0, VERIF)
    from pyvc.front import load_world
    w = load_world(repo_src())
    out = []
    # the plain builder's add passes op, wires and metadata straight to add_op (what the ghost trace records)
    import ast
    fi = w.get_class("hugr.build.dfg.DfBase").methods.get("add")
    src = ast.unparse(fi.node.body[-1]) if fi is not None else ""
    ok2 = src == "return self.add_op(com.op, *wires, metadata=metadata)"
    out.append({"check": "DfBase.add ends in `return self.add_op(com.op, *wires, metadata=metadata)` (the explicit program's call shape)", "observed": src, "ok": ok2})
    return out


def run(tier, seed):
    res = CheckResult("C15", tier, seed)
    res.trusted_base = [
        "pyvc encoding of the supported Python subset (DESIGN 2, A1)",
        "TRUSTED contracts DfBase.add_op and Dfg.set_outputs: they only record the arguments they receive in a ghost call trace; what they build is the subject of C01/C04",
        "ghost function last_naming (position of the last integer argument naming a slot) defined by primitive recursion; its two equations are assumed at the loop cursor",
        "a generator expression consumed by *args is the sequence it yields; an element that raises makes the call raise (first such element)",
    ]
    res.assumptions = ["wires are Node or OutPort values: builder objects also satisfy the Wire protocol (through ToNode) and may be stored in the table, but the table operations never look inside a wire, so the restriction only narrows the type of the stored values", "TrackedDfg.add / set_indexed_outputs are verified under the precondition that every integer argument is tracked; the complementary case is tracked_wire's IndexError (proved) propagating out of the argument generator"]
    standard_flow(res, FILES, TARGETS, None, bounded_modules=[("bounded.c15", 900, 1200)])
    for g in ground():
        res.ground.append(g)
        if not g["ok"]:
            d = os.path.join(VERIF, "replays", "C15")
            os.makedirs(d, exist_ok=True)
            fn = os.path.join(d, f"ground_{len(res.violations)}.py")
            open(fn, "w").write(replay_header("C15", g["check"]) + f"\nprint({g!r})\nsys.exit(1)\n")
            res.violations.append({"clause": g["check"], "replay": fn, "confirmed": True})
    res.level = "other"
    res.explanation = ("Proved from the real source for all tables, commands and metadata: track_wire appends and returns the new slot (freed slots are never reused), tracked_wire / untrack_wire "
                       "denote the most recent wire at the index and raise IndexError exactly for untracked indices (state unchanged), TrackedDfg.add makes exactly the explicit program's call "
                       "(same operation, the wires tracked at the integer arguments in argument order, the same metadata) and rebinds exactly the named slots to the new node's outputs at the "
                       "argument positions (loop invariant over a ghost 'last naming position'), set_indexed_outputs passes the resolved wires in order. track_wires / track_inputs / __init__ / "
                       "set_tracked_outputs / extend and the node-for-node, link-for-link comparison of the two HUGRs are covered by the bounded run only -> category other.")
    return res.finish()
