"""C09 - package envelopes: documented header, round trip, rejection of malformed input."""
import os

from checks.common import CheckResult, VERIF, replay_header, standard_flow

FILES = [os.path.join(VERIF, "contracts", "envelope.py")]
E = "hugr.envelope."
TARGETS = [E + "EnvelopeFormat.ascii_printable", E + "EnvelopeHeader.to_bytes", E + "EnvelopeHeader.from_bytes",
           E + "EnvelopeConfig._make_header", E + "make_envelope", E + "make_envelope_str", E + "read_envelope",
           E + "read_envelope_str", "hugr.package.Package.to_bytes", "hugr.package.Package.to_str",
           "hugr.package.Package.from_bytes", "hugr.package.Package.from_str",
           "lemma:header_round_trip", "lemma:ascii_header", "lemma:envelope_round_trip"]


def _fmt(v):
    return "E.EnvelopeFormat." + v["member"]


def concretize(fr, o):
    inp = o["inputs"]
    t = fr["target"]
    body = replay_header("C09", f"counterexample to {o['name']} found by {o['backend']}")
    body += f"""
from pyvc.rt import load_db, Monitor, ContractViolation, PreconditionFailed
import hugr.envelope as E
db = load_db({FILES!r})
mon = Monitor(db, {{"int": list(range(0, 12))}})
mon.install([{t!r}])
"""
    if t.endswith("EnvelopeHeader.to_bytes"):
        s = inp["self"]
        call = f"E.EnvelopeHeader({_fmt(s['format'])}, {s['zstd']!r}).to_bytes()"
    elif t.endswith("EnvelopeHeader.from_bytes"):
        call = f"E.EnvelopeHeader.from_bytes(bytes({inp['data']['bytes']!r}))"
    elif t.endswith("_make_header"):
        s = inp["self"]
        call = f"E.EnvelopeConfig({_fmt(s['format'])}, {s['zstd']!r})._make_header()"
    elif t.endswith("ascii_printable"):
        call = f"{_fmt(inp['self'])}.ascii_printable()"
    else:
        return None
    body += f"""
print("call:", {call!r})
try:
    r = {call}
    print("result:", r)
except ContractViolation as e:
    print("VIOLATED:", e); sys.exit(1)
except PreconditionFailed as e:
    print("unreplayable witness:", e); sys.exit(0)
except Exception as e:
    print("raised", repr(e))
print("clause holds on the real code"); sys.exit(0)
"""
    return body


def run(tier, seed):
    res = CheckResult("C09", tier, seed)
    res.trusted_base = [
        "pyvc encoding of the supported Python subset (DESIGN 2, A1); bytes as sequences of ints in 0..255",
        "str.encode/bytes.decode('utf-8'): decode(encode(s)) == s, decode raises UnicodeDecodeError exactly on invalid input (uninterpreted utf8_valid)",
        "pyzstd: decompress(compress(b, level)) == b (hypothesis of lemma envelope_round_trip; exercised on the real library by bounded.c09)",
        "pydantic: model_dump_json / model_validate_json are mutually inverse on model instances (exercised by bounded.c09)",
        "Package._to_serial and serialization.extension.Package.deserialize are TRUSTED here (opaque ghost functions); the HUGR and extension codecs are C02 / C10",
        "MODULE / MODULE_WITH_EXTS payloads need the native hugr._hugr module (absent offline): outside 'configurations that can be encoded'",
        "every solver verdict cross-checked by a second solver (z3 4.8.12 or cvc5)",
    ]
    res.assumptions = ["compression levels are None or non-negative ints; arguments inhabit their annotated types"]
    standard_flow(res, FILES, TARGETS, concretize, bounded_modules=[("bounded.c09", 900, 1800)])
    res.level = "proof"
    res.explanation = ("Header encoder/decoder, flag bits, text-only-for-ASCII rule, rejection of short / foreign / unknown-format input and the composition "
                       "read_envelope(make_envelope(p, c)) are proved over symbolic byte sequences; library inverses are assumed (listed) and exercised by the bounded run.")
    return res.finish()
