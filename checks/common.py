"""Shared check driver: prove -> replay counterexamples -> bounded stand-ins -> evidence."""
from __future__ import annotations

import hashlib
import json
import multiprocessing as mp
import os
import subprocess
import sys
import time
import traceback
from typing import Callable, Optional

VERIF = os.path.dirname(os.path.dirname(os.path.abspath(__file__)))
VENV_PY = "/venv/bin/python"


def repo_src() -> str:
    return os.environ.get("VERIF_REPO_SRC", "/repo/hugr-py/src")


class _TargetTimeout(Exception):
    pass


def tree_hash(src: Optional[str] = None) -> str:
    """sha256 over (relative path, content) of every .py file of the package under verification."""
    src = src or repo_src()
    h = hashlib.sha256()
    root = os.path.join(src, "hugr")
    for dp, dn, fn in sorted(os.walk(root)):
        dn.sort()
        for f in sorted(fn):
            if f.endswith(".py"):
                p = os.path.join(dp, f)
                h.update(os.path.relpath(p, root).encode())
                h.update(open(p, "rb").read())
    return h.hexdigest()


def load_baseline(prop: str) -> dict:
    """Obligations that were discharged on the tree the baseline was recorded on (committed file,
    written by tools_baseline.py after a clean run; never written by a check)."""
    p = os.path.join(VERIF, "baseline", "obligations.json")
    if not os.path.exists(p):
        return {}
    d = json.load(open(p))
    return {"tree": d.get("tree"), "proved": set(d.get("properties", {}).get(prop, []))}


def _verify_one(args):
    files, target, tier, src = args
    sys.path.insert(0, VERIF)
    import signal
    from pyvc.vc import FuncReport, Verifier, load_contracts
    from pyvc.front import load_world
    limit = int(os.environ.get("VERIF_TARGET_TIMEOUT", "900" if tier == "quick" else "3600"))

    def on_alarm(signum, frame):
        raise _TargetTimeout()
    signal.signal(signal.SIGALRM, on_alarm)
    signal.alarm(limit)
    try:
        w = load_world(src)
        cdb = load_contracts(w, files)
        v = Verifier(w, cdb, tier)
        rep = v.verify(target)
        return rep.to_dict()
    except _TargetTimeout:
        rep = FuncReport(target)
        rep.error = f"timeout: verification of this function exceeded {limit}s"
        return rep.to_dict()
    finally:
        signal.alarm(0)


def prove(files: list[str], targets: list[str], tier: str, jobs: int = 14) -> list[dict]:
    src = repo_src()
    args = [(files, t, tier, src) for t in targets]
    if len(args) == 1 or jobs == 1:
        return [_verify_one(a) for a in args]
    ctx = mp.get_context("fork")
    with ctx.Pool(min(jobs, len(args))) as pool:
        return pool.map(_verify_one, args, chunksize=1)


def run_script(path: str, timeout=120, extra_env=None) -> tuple[int, str]:
    env = dict(os.environ)
    env["PYTHONPATH"] = f"{repo_src()}:{VERIF}"
    env["PYTHONDONTWRITEBYTECODE"] = "1"
    env.setdefault("PYTHONHASHSEED", "0")
    if extra_env:
        env.update(extra_env)
    try:
        p = subprocess.run([VENV_PY, path], capture_output=True, text=True, timeout=timeout, env=env, cwd=VERIF)
        return p.returncode, (p.stdout + p.stderr)[-4000:]
    except subprocess.TimeoutExpired:
        return 124, "timeout"


def run_bounded(module: str, tier: str, seed: int, timeout: int) -> dict:
    """Run a bounded stand-in (a module under /verif/bounded) against the real code with /venv python."""
    env = dict(os.environ)
    env["PYTHONPATH"] = f"{repo_src()}:{VERIF}"
    env["PYTHONDONTWRITEBYTECODE"] = "1"
    env.setdefault("PYTHONHASHSEED", "0")
    env["VERIF_TIER"] = tier
    env["VERIF_SEED"] = str(seed)
    try:
        p = subprocess.run([VENV_PY, "-m", module], capture_output=True, text=True, timeout=timeout, env=env, cwd=VERIF)
    except subprocess.TimeoutExpired:
        return {"error": "timeout", "violations": []}
    lines = [l for l in p.stdout.splitlines() if l.startswith("BOUNDED-JSON ")]
    if not lines:
        return {"error": f"no result (exit {p.returncode}): {(p.stdout + p.stderr)[-1500:]}", "violations": []}
    return json.loads(lines[-1][len("BOUNDED-JSON "):])


def load_known_findings(prop: str) -> list[dict]:
    p = os.path.join(VERIF, "KNOWN_FINDINGS.jsonl")
    out = []
    if os.path.exists(p):
        for line in open(p):
            line = line.strip()
            if not line or line.startswith("#") or line.startswith("fixed:"):
                continue
            try:
                rec = json.loads(line)
            except json.JSONDecodeError:
                continue
            if rec.get("property") == prop:
                out.append(rec)
    return out


class CheckResult:
    def __init__(self, prop: str, tier: str, seed: int):
        self.prop = prop
        self.tier = tier
        self.seed = seed
        self.t0 = time.time()
        self.func_reports: list[dict] = []
        self.bounded: list[dict] = []
        self.ground: list[dict] = []
        self.violations: list[dict] = []  # {clause, replay, confirmed}
        self.known: list[str] = []
        self.undecided: list[str] = []
        self.errors: list[str] = []
        self.assumptions: list[str] = []
        self.trusted_base: list[str] = []
        self.level = "proof"
        self.explanation = ""
        self.extra: dict = {}

    # ---- bookkeeping
    def all_obligations(self):
        for fr in self.func_reports:
            for o in fr["obligations"]:
                yield fr, o

    def summarize(self):
        n = d = 0
        backends: dict[str, int] = {}
        ms = 0.0
        for fr, o in self.all_obligations():
            n += 1
            ms += o["ms"]
            if o["status"] == "proved":
                d += 1
                backends[o["backend"]] = backends.get(o["backend"], 0) + 1
        return n, d, backends, ms

    def write_evidence(self):
        n, d, backends, ms = self.summarize()
        samples = []
        for fr, o in list(self.all_obligations())[:6]:
            samples.append({"obligation": o["name"], "kind": o["kind"], "status": o["status"], "backend": o["backend"], "ms": o["ms"], "function": fr["location"]})
        for b in self.bounded:
            for s in b.get("samples", [])[:3]:
                samples.append({"bounded": b.get("name"), "case": s})
        for g in self.ground[:3]:
            samples.append({"ground": g})
        funcs = [{"function": fr["target"], "location": fr["location"], "source_hash": fr["source_hash"], "contract_hash": fr["contract_hash"],
                  "paths": fr["paths"], "exits": fr["exits"], "obligations": len(fr["obligations"]),
                  "discharged": sum(1 for o in fr["obligations"] if o["status"] == "proved"),
                  "canary_pre_satisfiable": fr["canary"], "error": fr["error"], "wall_s": round(fr["wall"], 2)} for fr in self.func_reports]
        notes = sorted({x for fr in self.func_reports for x in fr["notes"]})
        cov = {
            "obligations": n,
            "discharged": d,
            "checker_cmd": f"python3-vt -m checks {self.prop} --tier {self.tier}",
            "trusted_base": self.trusted_base,
            "backends": backends,
            "solver_ms": round(ms, 1),
            "functions_under_contract": funcs,
            "undischarged": [o["name"] + " [" + o["status"] + "]" for fr, o in self.all_obligations() if o["status"] != "proved"],
            "engine_notes": notes,
            "bounded": self.bounded,
            "ground_checks": self.ground,
            "samples": samples,
            "known_findings_reported": self.known,
            "undecided": self.undecided,
            "errors": self.errors,
            "explanation": self.explanation,
            "src_root": repo_src(),
        }
        ev = sum(b.get("evaluations", 0) for b in self.bounded) + len(self.ground)
        dn = sum(b.get("distinct_nontrivial", 0) for b in self.bounded) + len(self.ground)
        if ev:
            cov["evaluations"] = ev
            cov["distinct_nontrivial"] = dn
            cov["rule"] = "; ".join(b.get("rule", "") for b in self.bounded if b.get("rule"))
        cov.update(self.extra)
        level = self.level
        if level == "proof" and (n == 0 or d != n):
            level = "other"
            cov["explanation"] = (cov["explanation"] + " " if cov["explanation"] else "") + f"{n - d} of {n} obligations not discharged on this run; not a proof-level result."
        if level == "other" and not cov["explanation"].strip():
            cov["explanation"] = "mixed deductive and bounded evidence"
        doc = {
            "property_id": self.prop,
            "tier": self.tier,
            "seed": self.seed,
            "level": level,
            "coverage": cov,
            "assumptions": self.assumptions + notes,
            "wall_s": round(time.time() - self.t0, 2),
            "violations": len(self.violations),
        }
        evdir = os.environ.get("VERIF_EVIDENCE_DIR") or os.path.join(VERIF, "evidence")
        os.makedirs(evdir, exist_ok=True)
        with open(os.path.join(evdir, f"{self.prop}.json"), "w") as f:
            json.dump(doc, f, indent=1, default=str)
        return doc

    def finish(self) -> int:
        self.write_evidence()
        if os.environ.get("VERIF_DUMP_OBLIGATIONS"):
            by_name: dict = {}
            for fr, o in self.all_obligations():
                if o["kind"] not in ("canary", "prune"):
                    by_name.setdefault(o["name"], []).append(o["status"] == "proved")
            for n, oks in sorted(by_name.items()):
                if all(oks):
                    print("OBLIGATION-PROVED " + n)
        n, d, backends, ms = self.summarize()
        print(f"[{self.prop}] tier={self.tier} obligations={n} discharged={d} backends={backends} solver_ms={ms:.0f} "
              f"bounded_evals={sum(b.get('evaluations', 0) for b in self.bounded)} wall={time.time() - self.t0:.1f}s")
        for k in self.known:
            print(f"KNOWN-FINDING: property={self.prop} {k}")
        if self.violations:
            for v in self.violations:
                tail = "" if v.get("confirmed") else " no-failing-input-found"
                print(f"VIOLATION property={self.prop} replay={v['replay']}{tail}")
            return 1
        if self.errors:
            for e in self.errors:
                print(f"CHECKER-ERROR {self.prop}: {e}")
            return 3
        if self.undecided:
            for u in self.undecided:
                print(f"UNDECIDED {self.prop}: {u}")
            return 2
        return 0


def write_replay(prop: str, name: str, text: str) -> str:
    d = os.path.join(VERIF, "replays", prop)
    os.makedirs(d, exist_ok=True)
    safe = "".join(ch if ch.isalnum() or ch in "._-" else "_" for ch in name)[:120]
    p = os.path.join(d, safe + ".py")
    with open(p, "w") as f:
        f.write(text)
    return p


REPLAY_HEADER = '''#!/venv/bin/python
"""Replay for property {prop}: {what}
Run:  /venv/bin/python {{this file}}     (exit 1 = the property clause is violated by the real code)
Source tree: {src}
"""
import os, sys
sys.path.insert(0, os.environ.get("VERIF_REPO_SRC", "/repo/hugr-py/src"))
sys.path.insert(0, {verif!r})
'''


def replay_header(prop, what):
    return REPLAY_HEADER.format(prop=prop, what=what.replace('"""', "'''"), src=repo_src(), verif=VERIF)


def standard_flow(res: CheckResult, files: list[str], targets: list[str], concretize: Optional[Callable] = None,
                  bounded_modules: Optional[list[tuple[str, int, int]]] = None, known: Optional[list[dict]] = None,
                  more: Optional[list[tuple[list[str], list[str]]]] = None):
    """prove; replay refutations; run bounded stand-ins; classify.
    more: further (contract files, targets) groups proved with their own contract set."""
    reps = prove(files, targets, res.tier)
    for (f2, t2) in (more or []):
        reps += prove(f2, t2, res.tier)
    res.extra["assumption_scan"] = scan_assumptions(sorted({f for f in files} | {f for (f2, _t) in (more or []) for f in f2}))
    res.func_reports = reps
    known = known if known is not None else load_known_findings(res.prop)
    for fr in reps:
        if fr["error"]:
            res.errors.append(f"{fr['target']}: {fr['error'].splitlines()[0][:300]}")
    pending = []
    for fr, o in res.all_obligations():
        if o["status"] == "proved":
            continue
        pending.append((fr, o))
    # bounded stand-ins run always (they are part of the evidence); their violations are replayable
    bviol = []
    for (mod, tq, tt) in (bounded_modules or []):
        b = run_bounded(mod, res.tier, res.seed, tq if res.tier == "quick" else tt)
        b.setdefault("name", mod)
        if b.get("error"):
            res.errors.append(f"bounded {mod}: {b['error'][:300]}")
        bviol += b.pop("violations", [])
        res.bounded.append(b)
    for fr, o in pending:
        confirmed = None
        script = None
        if o["status"] == "refuted" and concretize is not None and o.get("inputs") is not None:
            try:
                text = concretize(fr, o)
            except Exception as e:
                text = None
                res.extra.setdefault("concretize_errors", []).append(f"{o['name']}: {e}")
            if text:
                script = write_replay(res.prop, o["name"].replace("/", "__") + "@" + o.get("path", ""), text)
                rc, out = run_script(script)
                o["replay"] = {"script": script, "exit": rc, "output": out[-600:]}
                confirmed = rc == 1
        is_prop = o["kind"] == "property"
        if confirmed:
            res.violations.append({"clause": o["name"], "replay": script, "confirmed": True})
        elif o["status"] == "refuted" and is_prop:
            # solver counter-model that did not replay (or could not be concretised): reported, never hidden
            text = replay_header(res.prop, f"obligation {o['name']} refuted by {o['backend']}; no concrete failing input was confirmed") + \
                f"\nprint('obligation: {o['name']}')\nprint({json.dumps(o.get('inputs'), default=str)!r})\nprint({o.get('model_text', '')[:2500]!r})\nsys.exit(1)\n"
            p = write_replay(res.prop, o["name"].replace("/", "__") + "@" + o.get("path", "") + "__model", text)
            res.violations.append({"clause": o["name"], "replay": p, "confirmed": False})
        else:
            # not proved and no counterexample to the property itself: an undecided property clause, or a
            # supporting obligation of the proof (loop invariant, callee precondition, safety, frame) that is not
            # discharged - the property clauses proved from it then rest on nothing, so it counts like them
            base = load_baseline(res.prop)
            if not is_prop:
                res.extra.setdefault("unproved_supporting", []).append(o["name"])
                print(f"UNPROVED supporting clause {o['name']} ({o['status']} - {o['backend']})")
            if o["status"] == "refuted" and base and o["name"] in base["proved"] and base["tree"] != tree_hash():
                # the interface's rule for a failed obligation without a replayable input: this obligation was
                # discharged on the tree the baseline was recorded on, the tree has changed since, and the verifier now
                # *refutes* it (a counter-model to the verification condition exists, confirmed by the cross-check).
                # An obligation the solvers merely fail to decide (timeout / unknown) is never an alarm: it is reported
                # as UNDECIDED (exit 2) - a harmless refactoring can make a proof too hard without making it wrong.
                text = replay_header(res.prop, f"obligation {o['name']} was discharged on the baseline tree and is no longer accepted by the verifier ({o['status']}, {o['backend']})") + \
                    f"\nprint('failed obligation: {o['name']}')\nprint('verifier output: status={o['status']} back ends={o['backend']} solver_ms={o['ms']}')\n" \
                    f"print('baseline tree {base['tree'][:16]}, this tree {tree_hash()[:16]}')\nsys.exit(1)\n"
                p = write_replay(res.prop, o["name"].replace("/", "__") + "@" + o.get("path", "") + "__undischarged", text)
                res.violations.append({"clause": o["name"], "replay": p, "confirmed": False})
            else:
                res.undecided.append(f"{o['name']} [{o['status']}]")
    for v in bviol:
        res.violations.append({"clause": v.get("clause", "bounded"), "replay": v["replay"], "confirmed": True})
    # undecided property clauses that the bounded stand-in refuted concretely are violations already;
    # otherwise they stay undecided
    if res.violations:
        res.undecided = []
    return res


def scan_assumptions(contract_files: list[str]) -> dict:
    """Mechanical scan of the contract files a check loads: every contract marked trusted / interface,
    every may_raise clause, every A_ (assumed ghost-definition) clause and every assume(...) in a
    lemma - so that no assumption is left out of the evidence by oversight."""
    import ast
    out = {"trusted_contracts": [], "interface_contracts": [], "may_raise": [], "assumed_clauses": [], "assume_calls": [], "callee_clause_selection": []}
    for f in contract_files:
        try:
            tree = ast.parse(open(f).read())
        except OSError:
            continue
        base = os.path.basename(f)
        for st in tree.body:
            if isinstance(st, ast.ClassDef):
                target = None
                for d in st.decorator_list:
                    if isinstance(d, ast.Call) and getattr(d.func, "id", "") == "contract" and d.args and isinstance(d.args[0], ast.Constant):
                        target = d.args[0].value
                if target is None:
                    continue
                flags = {}
                for x in st.body:
                    if isinstance(x, ast.Assign) and isinstance(x.targets[0], ast.Name):
                        try:
                            flags[x.targets[0].id] = ast.literal_eval(x.value)
                        except ValueError:
                            pass
                if flags.get("interface"):
                    out["interface_contracts"].append(f"{target} ({base})")
                elif flags.get("trusted"):
                    out["trusted_contracts"].append(f"{target} ({base})")
                if flags.get("may_raise"):
                    out["may_raise"].append(f"{target}: {flags['may_raise']} ({base})")
                for x in ast.walk(st):
                    if isinstance(x, ast.Constant) and isinstance(x.value, str) and x.value.startswith(("A_", "D_")):
                        out["assumed_clauses"].append(f"{target}/{x.value} ({base})")
                if flags.get("callee_clauses"):
                    out.setdefault("callee_clause_selection", []).append(f"{target}: {flags['callee_clauses']} ({base})")
            elif isinstance(st, ast.FunctionDef):
                n = sum(1 for x in ast.walk(st) if isinstance(x, ast.Call) and getattr(x.func, "id", "") == "assume")
                if n:
                    out["assume_calls"].append(f"{st.name}: {n} assume(...) ({base})")
    return {k: sorted(set(v)) for k, v in out.items()}


def file_sha(path):
    return hashlib.sha256(open(path, "rb").read()).hexdigest()
