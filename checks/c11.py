"""C11 - extension resolution is conservative, idempotent and invisible on the wire."""
import os

from checks.common import CheckResult, VERIF, standard_flow

FILES = [os.path.join(VERIF, "contracts", f) for f in ("node_port.py", "resolve.py")]
T = "hugr.tys."
TARGETS = ["hugr.ext.ExtensionRegistry.get_extension", "hugr.ext.Extension.get_type", "hugr.ext.Extension.get_op",
           T + "Opaque.resolve", T + "Sum.resolve", T + "UnitSum.resolve", T + "FunctionType.resolve", T + "PolyFuncType.resolve",
           T + "TypeTypeArg.resolve", T + "SequenceArg.resolve", "hugr.ops.Custom.resolve"]


def ground():
    """Closed world: which classes override resolve (everything else inherits `return self`)."""
    import sys
    sys.path.insert(0, VERIF)
    from pyvc.front import load_world
    from checks.common import repo_src
    import ast
    w = load_world(repo_src())
    over = sorted(f"{mn}.{cn}" for mn, mi in w.modules.items() for cn, ci in mi.classes.items() if "resolve" in ci.methods)
    want = sorted(["hugr.tys.TypeArg", "hugr.tys.Type", "hugr.tys.TypeTypeArg", "hugr.tys.SequenceArg", "hugr.tys.Sum", "hugr.tys.UnitSum", "hugr.tys.FunctionType",
                   "hugr.tys.PolyFuncType", "hugr.tys.Opaque", "hugr.ops.Custom"])
    out = [{"check": "classes defining resolve are exactly the ones under contract (plus the two base classes)", "observed": over, "ok": over == want}]
    for base in ("hugr.tys.Type", "hugr.tys.TypeArg"):
        m = w.get_class(base).methods["resolve"]
        body = [s for s in m.node.body if not (isinstance(s, ast.Expr) and isinstance(s.value, ast.Constant))]
        out.append({"check": f"{base}.resolve (inherited by every leaf) is `return self`", "observed": ast.unparse(body[0]) if body else "", "ok": len(body) == 1 and ast.unparse(body[0]) == "return self"})
    return out


def run(tier, seed):
    res = CheckResult("C11", tier, seed)
    res.trusted_base = [
        "pyvc encoding of the supported Python subset (DESIGN 2, A1)",
        "interface contracts of Type.resolve / TypeArg.resolve only *name* the result for a constituent (ghost res_t / res_a); every override is verified against its clause; the closed world of overrides is read from the AST",
        "modular structural induction over finite type expressions",
    ]
    res.assumptions = ["invisibility on the wire / in the exported model, equality of bounds and idempotence follow from the per-class clauses by structural induction on paper; they are decided on the real stack by bounded.c11 only",
                       "Hugr.resolve_extensions is proved over the graph-store contracts of C04 (iteration and node lookup, contracts/base.py): every live node holding an opaque operation gets exactly the result of "
                       "resolving it, every other node keeps its operation object, the node table is unchanged, only NodeData.op is written (frame)"]
    hugr_files = [os.path.join(VERIF, "contracts", f) for f in ("base.py", "resolve.py", "tys.py", "resolve_hugr.py")]
    standard_flow(res, FILES, TARGETS, None, bounded_modules=[("bounded.c11", 900, 1200)],
                  more=[(hugr_files, ["hugr.hugr.base.Hugr.resolve_extensions"])])
    from checks.common import replay_header
    for g in ground():
        res.ground.append(g)
        if not g["ok"]:
            d = os.path.join(VERIF, "replays", "C11")
            os.makedirs(d, exist_ok=True)
            fn = os.path.join(d, f"ground_{len(res.violations)}.py")
            open(fn, "w").write(replay_header("C11", g["check"]) + f"\nprint({g!r})\nsys.exit(1)\n")
            res.violations.append({"clause": g["check"], "replay": fn, "confirmed": True})
    res.level = "other"
    res.explanation = ("Proved from the real source for all registries and expressions: an opaque type / operation is replaced by its definition-backed form exactly when the registry holds an extension "
                       "of that name containing a definition of that name (the definition is the registry's own object), with its type arguments / signature rows / arguments resolved position by "
                       "position, and is returned untouched (the same object) otherwise; sums, function types, type schemes, type and sequence arguments resolve position by position keeping shape, "
                       "requirements and parameters; unit sums and every class that does not override resolve return themselves (closed world read from the AST). Registry / extension lookups raise "
                       "their NotFound exceptions exactly for absent names. The HUGR-level loop (Hugr.resolve_extensions) is proved over the graph-store contracts: it replaces the operation of exactly the nodes holding an opaque operation by that operation's resolution and writes nothing else. "
                       "Wire invisibility, bound and model equality and idempotence are decided by a bounded run on the real stack -> category other. Two genuine defects were repaired (arguments of opaque types were not resolved; opaque types were exported under an unqualified name).")
    return res.finish()
