"""python3-vt -m checks <Cxx> [--tier quick|thorough] [--replay <file>]"""
import argparse
import importlib
import os
import sys

VERIF = os.path.dirname(os.path.dirname(os.path.abspath(__file__)))
sys.path.insert(0, VERIF)


def main():
    ap = argparse.ArgumentParser()
    ap.add_argument("prop", nargs="?")
    ap.add_argument("--tier", default=os.environ.get("VERIF_TIER", "quick"))
    ap.add_argument("--replay")
    ap.add_argument("--selfcheck", action="store_true")
    ap.add_argument("--dump-obligations", action="store_true", help="print the names of the discharged property obligations (for tools_baseline.py)")
    a = ap.parse_args()
    if a.selfcheck:
        from checks import selfcheck
        sys.exit(selfcheck.main())
    if a.replay:
        from checks.common import run_script
        rc, out = run_script(a.replay)
        print(out)
        sys.exit(rc)
    seed = int(os.environ.get("VERIF_SEED", "0") or 0)
    tier = a.tier if a.tier in ("quick", "thorough") else "quick"
    if a.dump_obligations:
        os.environ["VERIF_DUMP_OBLIGATIONS"] = "1"
    mod = importlib.import_module(f"checks.{a.prop.lower()}")
    try:
        rc = mod.run(tier, seed)
    except Exception as e:
        import traceback
        traceback.print_exc()
        where = " <- ".join(f"{os.path.basename(f.filename)}:{f.lineno}" for f in traceback.extract_tb(e.__traceback__)[-4:])
        print(f"CHECKER-ERROR {a.prop}: engine exception ({type(e).__name__}: {str(e)[:200]}) at {where}")
        rc = 3
    sys.exit(rc)


if __name__ == "__main__":
    main()
