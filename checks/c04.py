"""C04 - the HUGR graph store agrees with a sequential port-multigraph model."""
import os

from checks.common import CheckResult, VERIF, standard_flow

FILES = [os.path.join(VERIF, "contracts", f) for f in ("node_port.py", "utils.py", "base.py")]
H = "hugr.hugr.base.Hugr."
QUICK = ["hugr.hugr.node_port._SubPort.next_sub_offset"] + [H + m for m in (
    "_unused_sub_offset", "_linked_ports", "linked_ports", "has_link", "__getitem__", "add_link", "add_order_link",
    "num_nodes", "__len__", "__iter__", "children", "num_in_ports", "num_out_ports", "num_ports", "_update_port_count",
    "add_node", "add_const", "root_op", "outgoing_order_links", "incoming_order_links", "_node_links", "outgoing_links", "incoming_links")]
THOROUGH_EXTRA = []      # Hugr._add_node was attempted here and only partly discharged: no longer a target (an undischarged obligation now counts against the check)


def run(tier, seed):
    res = CheckResult("C04", tier, seed)
    res.trusted_base = [
        "pyvc encoding of the supported Python subset (DESIGN 2, A1); ports and sub-ports as value records, dict keys normalised to their compare=True fields",
        "BiMap used through its C18 contracts only (instantiated at sub-ports); contiguity of sub-offsets stated in closed (downward-closed) form",
        "ghost cnt(d, p) = first unused sub-offset at port p: its defining property is assumed where used (A_cnt clauses) - it exists because link dictionaries are finite",
        "generator functions executed eagerly (result = sequence of yielded values); filtered comprehension by a ghost position function",
        "node indices of handles are non-negative; termination of the sub-offset scans is not proved",
        "Hugr._add_node: its contract is an ASSUMED contract for add_node / add_const (an attempt to discharge it got stuck on re-establishing nodes_wf before _update_port_count: sequence-with-index-store "
        "queries beyond the budgets; it is not a target) - bounded.c04 exercises it on every history",
        "every solver verdict cross-checked by a second solver",
    ]
    res.assumptions = ["delete_link, _close_sub_offset_gap, delete_node and insert_hugr are NOT proved: the contract for the gap-closing loop is stated in contracts/_pending/base_gap.py but exceeds the solver budget; "
                       "they are covered by the bounded model-based run (every query compared with the sequential model after every operation)"]
    targets = QUICK + (THOROUGH_EXTRA if tier == "thorough" else [])
    standard_flow(res, FILES, targets, None, bounded_modules=[("bounded.c04", 900, 1800)])
    res.level = "other"
    res.explanation = ("Proved from the real source for all states: sub-offset allocation, add_link (appended once to the sequences of both ports, invariants bimap/contiguity preserved, counts), "
                       "add_order_link (idempotent, order ports do not count), linked_ports / has_link / order-link listings / outgoing_links / incoming_links as functions of the view "
                       "(one entry per port whatever the rest of the graph), lookup (KeyError exactly for non-live), iteration (live indices ascending), counts, children, add_node / add_const "
                       "(new index was free, others keep index and data), _update_port_count. delete_link / delete_node / insert_hugr are covered by the bounded model-based histories only -> category other. "
                       "Three genuine defects were found and repaired (KNOWN_FINDINGS.jsonl).")
    return res.finish()
