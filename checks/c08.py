"""C08 - inserting a HUGR embeds it isomorphically and disturbs nothing else."""
import os

from checks.common import CheckResult, VERIF, standard_flow

FILES = [os.path.join(VERIF, "contracts", f) for f in ("build.py", "node_port.py")]
D = "hugr.build.dfg.DfBase."
TARGETS = [D + "_insert_nested_impl", D + "insert_nested", D + "insert_cfg", D + "insert_conditional", D + "insert_tail_loop"]


def run(tier, seed):
    res = CheckResult("C08", tier, seed)
    res.trusted_base = [
        "pyvc encoding of the supported Python subset (DESIGN 2, A1)",
        "ASSUMED contract of Hugr.insert_hugr (the mapping is defined on the inserted root; a ghost trace records source, parent and mapping) - the isomorphism itself is decided by bounded.c08",
        "TRUSTED recorder DfBase._wire_up (ghost trace of the node and the wires it is asked to connect, in order); what wiring does is C01 / C04",
    ]
    res.assumptions = ["the inserted builder is a stand-alone one (its parent node is the root of its own HUGR, a different HUGR object)", "the ghost traces are parallel sequences"]
    standard_flow(res, FILES, TARGETS, None, bounded_modules=[("bounded.c08", 900, 1800)])
    res.level = "other"
    res.explanation = ("Proved for all builders, wires and argument counts: insert_nested / insert_cfg / insert_conditional / insert_tail_loop (through _insert_nested_impl) perform exactly one "
                       "insertion of the given builder's HUGR under the inserting builder's own parent node, return the image of its root, and wire that image to exactly the given wires in the "
                       "stated order (branching wire first; loop-only inputs before the rest). The isomorphism clause of Hugr.insert_hugr (operations, hierarchy with child order, metadata, "
                       "port counts, every link with offsets and multiplicity incl. order links, A untouched, B unmodified) is decided by a bounded run over pairs (A, B, parent) with mutation "
                       "histories (index reuse, multi-links, order links) - not proved; hence category other. One genuine defect was repaired (children with smaller indices than their parents).")
    return res.finish()
