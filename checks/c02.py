"""C02 - JSON round trip of a HUGR is lossless and a fixed point."""
import os

from checks.common import CheckResult, VERIF, load_known_findings, replay_header, standard_flow
from checks import c05

FILES = [os.path.join(VERIF, "contracts", f) for f in ("node_port.py", "tys.py", "codec.py", "ops.py", "utils.py", "base.py", "serial.py")]


def apply_known(res, prop):
    """Deviations the bounded oracle classified as instances of a *listed* known finding are reported
    as KNOWN-FINDING; a candidate whose id is not in KNOWN_FINDINGS.jsonl is a violation."""
    listed = {k["id"]: k for k in load_known_findings(prop)}
    for b in res.bounded:
        for c in b.get("known_candidates", []):
            if c["id"] in listed:
                res.known.append(f"{c['id']}: {listed[c['id']]['what']} [{c['count']} generated HUGRs in this run, {c['what']}]")
            else:
                d = os.path.join(VERIF, "replays", prop)
                os.makedirs(d, exist_ok=True)
                fn = os.path.join(d, f"unlisted_{c['id']}.py")
                open(fn, "w").write(replay_header(prop, f"deviation {c['id']} is not a listed known finding: {c['what']}") + f"\nprint({c!r})\nsys.exit(1)\n")
                res.violations.append({"clause": f"{c['id']}: {c['what']}", "replay": fn, "confirmed": True})


def run(tier, seed):
    res = CheckResult("C02", tier, seed)
    res.trusted_base = [
        "pyvc encoding of the supported Python subset (DESIGN 2, A1)",
        "pydantic dump-then-validate (the wire) is the identity on model instances (assumed library contract, exercised on the real stack by the bounded run)",
        "per-class encode/decode lemmas by modular structural induction (shared with C05)",
        "the oracle of the bounded run (listing order, structure comparison) is written from the statement, independently of Hugr._to_serial",
    ]
    res.assumptions = ["Hugr._to_serial / _from_serial (node listing with a heap, edge loops, metadata list) are NOT under contract: the whole-graph clauses are decided by the bounded run only"]
    targets = c05.targets() + ["hugr.hugr.base._order_port_offset", "hugr.hugr.base.Hugr._constrain_offset"]
    standard_flow(res, FILES, targets, None, bounded_modules=[("bounded.c02", 900, 1800)])
    apply_known(res, "C02")
    res.level = "other"
    res.explanation = ("Proved: every operation, type, argument, parameter and value class decodes back to an equal object (per-class lemmas on the real bodies, shared with C05), and the port offsets "
                       "chosen for an edge (_constrain_offset / _order_port_offset: value ports by position, order port after the signature ports) - the same function the loader uses to recognise "
                       "order edges. The whole-graph statement (load succeeds, same document, same operations / hierarchy with child order / metadata / link multisets through the renumbering) is "
                       "decided by a bounded run over builder programs of every kind followed by delete / insert / link histories, against an oracle written from the statement -> category other. "
                       "Two genuine defects found by it were repaired (sibling order, order edges at operations without an order port); the remaining conflict between the licence "
                       "'order-preserving renumbering' and hierarchies that contradict index order is a listed known finding.")
    return res.finish()
