"""C06 - operation signatures and port kinds follow the specification's typing rules."""
import ast
import json
import os

from checks.common import CheckResult, VERIF, replay_header, repo_src, standard_flow

FILES = [os.path.join(VERIF, "contracts", f) for f in ("node_port.py", "tys.py", "ops.py")]


def targets():
    out = []
    tree = ast.parse(open(FILES[2]).read())
    for st in tree.body:
        if isinstance(st, ast.ClassDef):
            for d in st.decorator_list:
                if isinstance(d, ast.Call) and getattr(d.func, "id", "") == "contract":
                    trusted = any(isinstance(x, ast.Assign) and x.targets[0].id == "trusted" for x in st.body if isinstance(x, ast.Assign))
                    if not trusted:
                        out.append(ast.literal_eval(d.args[0]))
    return out


def ground():
    out = []
    p = os.path.join(repo_src(), "hugr", "std", "_json_defs", "prelude.json")
    try:
        d = json.load(open(p))
        ops = set(d["operations"])
        ok = {"MakeTuple", "UnpackTuple", "Noop"} <= ops and d["name"] == "prelude"
        obs = sorted(ops & {"MakeTuple", "UnpackTuple", "Noop"})
    except Exception as e:  # noqa: BLE001
        ok, obs = False, repr(e)
    out.append({"check": "prelude.json defines MakeTuple / UnpackTuple / Noop (precondition of the MakeTuple.outer_signature chain)", "observed": obs, "ok": ok})
    return out


def run(tier, seed):
    res = CheckResult("C06", tier, seed)
    res.trusted_base = [
        "pyvc encoding of the supported Python subset (DESIGN 2, A1); edge kinds as value records, types/ops as heap objects",
        "interface contracts (assumed for receivers of unknown class): DataflowOp.outer_signature names its rows (sig_in / sig_out); Value.type_ names the reported type (refined in C14)",
        "hugr.std._load_extension TRUSTED; prelude facts ground-checked against prelude.json; op definitions loaded from it carry their extension (C10)",
        "cached_property ext_op treated as a pure function of the object (ops are completed once)",
        "objects returned by contracted callees are arbitrary references satisfying the postcondition (may alias: weaker than fresh)",
        "every solver verdict cross-checked by a second solver",
    ]
    res.assumptions = ["ports passed to port_kind belong to the operation (value ports, static port, order port) - other offsets raise IndexError/InvalidPort and are outside the statement",
                       "tags and case / successor indices are within range (negative indices keep Python's meaning and are not claimed)"]
    # the graph-level wrappers: the kind / type of a port of a node is the one its operation reports
    base_files = [os.path.join(VERIF, "contracts", f) for f in ("node_port.py", "utils.py", "base.py", "base_ports.py")]
    standard_flow(res, FILES, targets(), None, bounded_modules=[("bounded.c06", 900, 600)],
                  more=[(base_files, ["hugr.hugr.base.Hugr.port_kind", "hugr.hugr.base.Hugr.port_type"]),
                        ([os.path.join(VERIF, "contracts", f) for f in ("node_port.py", "tys.py", "ops.py", "val.py", "std_ops.py")],
                         ["hugr.std.int._DivModDef.cached_signature", "hugr.std.int._DivModDef.type_args"])])
    for g in ground():
        res.ground.append(g)
        if not g["ok"]:
            p = os.path.join(VERIF, "replays", "C06")
            os.makedirs(p, exist_ok=True)
            fn = os.path.join(p, "ground.py")
            open(fn, "w").write(replay_header("C06", g["check"]) + f"\nprint({g!r})\nsys.exit(1)\n")
            res.violations.append({"clause": g["check"], "replay": fn, "confirmed": True})
    res.level = "other"
    res.explanation = ("Signatures, output counts and port kinds of every operation class in ops.py are proved against the statement's table "
                       "(incl. Call/LoadFunc with arity-changing instantiations, the order port in both directions, MakeTuple/UnpackTuple inverse through the ext_op chain). "
                       "Hugr.port_kind / Hugr.port_type (base.py) are proved to report what the node's operation reports (KeyError exactly for nodes that are not live). "
                       "DivMod of width w takes and returns two integers of width w (its definition's scheme at N = w). That every extension-backed operation's signature is its definition's scheme instantiated with its own type arguments "
                       "(DivMod widths 0..6, Not, Noop, MakeTuple / UnpackTuple) is otherwise decided by the bounded table check, hence category other.")
    return res.finish()
