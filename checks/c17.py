"""C17 - the published JSON schema and the Python codec accept the same documents (ground reduction)."""
import json
import os
import subprocess

from checks.common import CheckResult, VERIF, VENV_PY, replay_header, repo_src


def run(tier, seed):
    res = CheckResult("C17", tier, seed)
    env = dict(os.environ)
    env["PYTHONPATH"] = f"{repo_src()}:{VERIF}"
    env["PYTHONDONTWRITEBYTECODE"] = "1"
    p = subprocess.run([VENV_PY, "-m", "ground.c17"], capture_output=True, text=True, env=env, cwd=VERIF, timeout=600)
    lines = [l for l in p.stdout.splitlines() if l.startswith("GROUND-JSON ")]
    if not lines:
        res.errors.append("schema generation did not run: " + (p.stdout + p.stderr)[-400:])
        res.level = "other"
        res.explanation = "ground comparison could not run"
        return res.finish()
    data = json.loads(lines[-1][len("GROUND-JSON "):])
    if data.get("error"):
        res.errors.append("generate_schema.py failed: " + data["error"][-400:])
    for r in data["results"]:
        res.ground.append({"check": f"published {r['file']} == generated from the models (after normal form)", "ok": r["ok"], **{k: v for k, v in r.items() if k not in ("ok",)}})
        if not r["ok"]:
            d = os.path.join(VERIF, "replays", "C17")
            os.makedirs(d, exist_ok=True)
            fn = os.path.join(d, f"diff_{len(res.violations)}.py")
            open(fn, "w").write(replay_header("C17", f"{r['file']}: {r.get('why')}") + f"""
import json, os, subprocess
env = dict(os.environ, PYTHONPATH=os.environ.get("VERIF_REPO_SRC", "/repo/hugr-py/src") + ":/verif")
p = subprocess.run([sys.executable, "-m", "ground.c17"], capture_output=True, text=True, env=env, cwd="/verif")
data = json.loads([l for l in p.stdout.splitlines() if l.startswith("GROUND-JSON ")][-1][12:])
rec = [r for r in data["results"] if r["file"] == {r['file']!r}]
print("at check time:", {json.dumps(r)!r})
print("now          :", json.dumps(rec))
sys.exit(1 if (not rec or not rec[0]["ok"]) else 0)
""")
            res.violations.append({"clause": f"schema {r['file']}: {r.get('why')}", "replay": fn, "confirmed": True})
    # second ground decision: enumerated positions (the generated schema cannot show validator hooks such as Enum._missing_)
    p2 = subprocess.run([VENV_PY, "-m", "ground.c17_enums"], capture_output=True, text=True, env=env, cwd=VERIF, timeout=900)
    l2 = [l for l in p2.stdout.splitlines() if l.startswith("GROUND-JSON ")]
    if not l2:
        res.errors.append("ground.c17_enums did not run: " + (p2.stdout + p2.stderr)[-300:])
    else:
        for r in json.loads(l2[-1][len("GROUND-JSON "):])["results"]:
            res.ground.append(r)
            if not r["ok"]:
                d = os.path.join(VERIF, "replays", "C17")
                os.makedirs(d, exist_ok=True)
                fn = os.path.join(d, "enum_positions.py")
                open(fn, "w").write(replay_header("C17", r["check"]) + f"""
import json, subprocess
env = dict(os.environ, PYTHONPATH=os.environ.get("VERIF_REPO_SRC", "/repo/hugr-py/src") + ":/verif")
p = subprocess.run([sys.executable, "-m", "ground.c17_enums"], capture_output=True, text=True, env=env, cwd="/verif")
now = json.loads([l for l in p.stdout.splitlines() if l.startswith("GROUND-JSON ")][-1][12:])["results"]
print("at check time:", {json.dumps(r.get("problems"))!r})
print("now:", json.dumps([x.get("problems") for x in now]))
sys.exit(1 if any(not x["ok"] for x in now) else 0)
""")
                w = r["problems"][0] if r.get("problems") else {}
                res.violations.append({"clause": f"enumerated position {w.get('path')}: the decoder {'accepts' if w.get('decoder_accepts') else 'rejects'} {w.get('value')!r}, the published schema lists {w.get('published_enumeration')}", "replay": fn, "confirmed": True})
    res.trusted_base = ["pydantic: validation by a model == validation against the JSON schema generated from that model (assumed; this is the reduction step)",
                        "the repository's own scripts/generate_schema.py is executed as is (real models, real script) into a scratch directory"] + data.get("rules", [])
    res.assumptions = ["this property is decided by a closed ground comparison (equality of two finite JSON values), not by a code contract - see DESIGN 5/C17"]
    res.level = "other"
    res.explanation = ("'for all documents: accepted by the decoder iff accepted by the published schema' reduces, under the assumed pydantic contract, to equality of the generated and the "
                       f"published schema for the four configurations; decided by evaluation: {sum(1 for r in data['results'] if r['ok'])}/{len(data['results'])} comparisons equal. "
                       "Normal-form rules are listed in trusted_base. Enumerated positions are additionally probed on the decoder itself (validator hooks do not show in a generated schema).")
    res.extra["exhaustive"] = True
    res.extra["evaluations"] = len(data["results"])
    res.extra["distinct_nontrivial"] = len(data["results"])
    return res.finish()
