"""C17 - the published JSON schema and the Python codec accept the same documents (ground reduction)."""
import json
import os
import subprocess

from checks.common import CheckResult, VERIF, VENV_PY, replay_header, repo_src


def decoder_vs_schema(res, env, tier):
    """Third ground decision: the decoder configured strict / lax by the repository's own rebuild entry point vs the
    published schema files (a JSON-schema validator), on documents and one-place mutations of them."""
    import jsonschema
    from checks.common import load_known_findings
    from specs.json_mutations import apply
    d = os.path.join(VERIF, "replays", "C17")
    os.makedirs(d, exist_ok=True)
    probes = os.path.join(d, f"decoder_probes_{os.getpid()}.json")
    if os.path.exists(probes):
        os.remove(probes)
    env = dict(env, VERIF_C17_PROBES=probes, VERIF_TIER=tier)
    p = subprocess.run([VENV_PY, "-m", "ground.c17_decoder"], capture_output=True, text=True, env=env, cwd=VERIF, timeout=1800)
    if not os.path.exists(probes):
        res.errors.append("ground.c17_decoder did not run: " + (p.stdout + p.stderr)[-300:])
        return
    data = json.load(open(probes))
    os.remove(probes)
    root = os.path.dirname(os.path.dirname(repo_src().rstrip("/")))       # <repo>/hugr-py/src -> <repo>
    if not os.path.isdir(os.path.join(root, "specification")):
        root = "/repo"          # a scratch copy of the sources only: the published files are the repository's
    validators = {}
    for cfg, fn in (("strict", f"hugr_schema_strict_{data['version']}.json"), ("lax", f"hugr_schema_{data['version']}.json")):
        path = os.path.join(root, "specification", "schema", fn)
        if not os.path.exists(path):
            res.errors.append(f"published schema {fn} not found")
            return
        sch = dict(json.load(open(path)))
        sch["$ref"] = "#/$defs/SerialHugr"
        validators[cfg] = jsonschema.Draft202012Validator(sch)
    # same fields: every field is read from exactly the one key the schema lists for it
    ap = data.get("alias_problems", [])
    res.ground.append({"check": "every field of every serialization model is read from exactly the key the generated schema lists (no further validation aliases, no populate_by_name)",
                       "ok": not ap, "fields": data.get("fields_checked", 0), "problems": ap[:5]})
    for k, pr in enumerate(ap[:3]):
        fn = os.path.join(d, f"alias_{k}.py")
        open(fn, "w").write(replay_header("C17", f"{pr['model']}.{pr['field']}: the decoder reads {pr['decoder_reads']}, the schema lists {pr['schema_lists']!r}") + """
from ground.c17_decoder import accepted_keys
n, problems = accepted_keys()
print(n, "fields;", problems)
sys.exit(1 if problems else 0)
""")
        res.violations.append({"clause": f"{pr['model']}.{pr['field']}: the decoder also reads {pr['decoder_reads'][1:]} which the published schema does not list", "replay": fn, "confirmed": True})
    listed = {k["id"]: k for k in load_known_findings("C17")}
    counts, disagreements, known_hits = {}, [], {}
    for cfg, di, m, dec_ok in data["probes"]:
        doc = data["docs"][di] if m is None else apply(data["docs"][di], tuple(m))
        sch_ok = validators[cfg].is_valid(doc)
        key = f"{cfg}/{m[0] if m else 'unchanged'}"
        counts[key] = counts.get(key, 0) + 1
        if sch_ok == dec_ok:
            continue
        if m is not None and m[0] == "drop" and m[1] == [] and m[2] == "version" and dec_ok and not sch_ok:
            known_hits["C17-version-optional-for-the-decoder"] = known_hits.get("C17-version-optional-for-the-decoder", 0) + 1
            continue
        disagreements.append((cfg, data["names"][di], di, m, dec_ok, sch_ok))
    res.ground.append({"check": "decoder (configured through SerialHugr._pydantic_rebuild) and published schema give the same verdict on documents and their one-place mutations",
                       "ok": not disagreements, "probes": len(data["probes"]), "by_kind": counts, "disagreements": len(disagreements),
                       "first": [list(map(str, x)) for x in disagreements[:3]]})
    for kid, n in known_hits.items():
        if kid in listed:
            res.known.append(f"{kid}: {listed[kid]['what']} [{n} probes in this run]")
        else:
            fn = os.path.join(d, f"unlisted_{kid}.py")
            open(fn, "w").write(replay_header("C17", f"deviation {kid} is not a listed known finding") + "\nsys.exit(1)\n")
            res.violations.append({"clause": f"{kid}: the decoder accepts a document without 'version', the published schema requires it", "replay": fn, "confirmed": True})
    seen = set()
    for (cfg, name, di, m, dec_ok, sch_ok) in disagreements:
        k = (cfg, m[0] if m else None, dec_ok)
        if k in seen or len(seen) >= 4:
            continue
        seen.add(k)
        fn = os.path.join(d, f"decoder_vs_schema_{len(seen)}.py")
        open(fn, "w").write(replay_header("C17", f"{cfg} configuration, document {name!r}, mutation {m}: decoder {'accepts' if dec_ok else 'rejects'}, published schema {'accepts' if sch_ok else 'rejects'}") + f"""
import json, subprocess
from pydantic import ConfigDict
from hugr._serialization.serial_hugr import SerialHugr
from ground.c17_decoder import corpus
from specs.json_mutations import apply
cfg = {cfg!r}
doc = corpus()[{di}][1]
m = {m!r}
doc = doc if m is None else apply(doc, tuple(m))
SerialHugr._pydantic_rebuild(ConfigDict(strict=True, extra="forbid") if cfg == "strict" else ConfigDict(strict=False, extra="allow"), force=True)
try:
    SerialHugr.model_validate_json(json.dumps(doc)); dec = True
except Exception as e:
    dec = False
root = os.path.dirname(os.path.dirname(os.environ.get("VERIF_REPO_SRC", "/repo/hugr-py/src").rstrip("/")))
root = root if os.path.isdir(os.path.join(root, "specification")) else "/repo"
fn = os.path.join(root, "specification", "schema", ("hugr_schema_strict_" if cfg == "strict" else "hugr_schema_") + SerialHugr.get_version() + ".json")
code = "import json,sys,jsonschema; s=dict(json.load(open(sys.argv[1]))); s['$ref']='#/$defs/SerialHugr'; print(jsonschema.Draft202012Validator(s).is_valid(json.loads(sys.stdin.read())))"
sch = subprocess.run(["python3-vt", "-c", code, fn], input=json.dumps(doc), capture_output=True, text=True).stdout.strip() == "True"
print("decoder accepts:", dec, "| published schema accepts:", sch)
sys.exit(0 if dec == sch else 1)
""")
        res.violations.append({"clause": f"{cfg} configuration: the decoder {'accepts' if dec_ok else 'rejects'} and the published schema {'accepts' if sch_ok else 'rejects'} "
                                         f"document {name!r} with mutation {m}", "replay": fn, "confirmed": True})


def run(tier, seed):
    res = CheckResult("C17", tier, seed)
    env = dict(os.environ)
    env["PYTHONPATH"] = f"{repo_src()}:{VERIF}"
    env["PYTHONDONTWRITEBYTECODE"] = "1"
    p = subprocess.run([VENV_PY, "-m", "ground.c17"], capture_output=True, text=True, env=env, cwd=VERIF, timeout=600)
    lines = [l for l in p.stdout.splitlines() if l.startswith("GROUND-JSON ")]
    if not lines:
        res.errors.append("schema generation did not run: " + (p.stdout + p.stderr)[-400:])
        res.level = "other"
        res.explanation = "ground comparison could not run"
        return res.finish()
    data = json.loads(lines[-1][len("GROUND-JSON "):])
    if data.get("error"):
        res.errors.append("generate_schema.py failed: " + data["error"][-400:])
    for r in data["results"]:
        res.ground.append({"check": f"published {r['file']} == generated from the models (after normal form)", "ok": r["ok"], **{k: v for k, v in r.items() if k not in ("ok",)}})
        if not r["ok"]:
            d = os.path.join(VERIF, "replays", "C17")
            os.makedirs(d, exist_ok=True)
            fn = os.path.join(d, f"diff_{len(res.violations)}.py")
            open(fn, "w").write(replay_header("C17", f"{r['file']}: {r.get('why')}") + f"""
import json, os, subprocess
env = dict(os.environ, PYTHONPATH=os.environ.get("VERIF_REPO_SRC", "/repo/hugr-py/src") + ":/verif")
p = subprocess.run([sys.executable, "-m", "ground.c17"], capture_output=True, text=True, env=env, cwd="/verif")
data = json.loads([l for l in p.stdout.splitlines() if l.startswith("GROUND-JSON ")][-1][12:])
rec = [r for r in data["results"] if r["file"] == {r['file']!r}]
print("at check time:", {json.dumps(r)!r})
print("now          :", json.dumps(rec))
sys.exit(1 if (not rec or not rec[0]["ok"]) else 0)
""")
            res.violations.append({"clause": f"schema {r['file']}: {r.get('why')}", "replay": fn, "confirmed": True})
    # second ground decision: enumerated positions (the generated schema cannot show validator hooks such as Enum._missing_)
    p2 = subprocess.run([VENV_PY, "-m", "ground.c17_enums"], capture_output=True, text=True, env=env, cwd=VERIF, timeout=900)
    l2 = [l for l in p2.stdout.splitlines() if l.startswith("GROUND-JSON ")]
    if not l2:
        res.errors.append("ground.c17_enums did not run: " + (p2.stdout + p2.stderr)[-300:])
    else:
        for r in json.loads(l2[-1][len("GROUND-JSON "):])["results"]:
            res.ground.append(r)
            if not r["ok"]:
                d = os.path.join(VERIF, "replays", "C17")
                os.makedirs(d, exist_ok=True)
                fn = os.path.join(d, "enum_positions.py")
                open(fn, "w").write(replay_header("C17", r["check"]) + f"""
import json, subprocess
env = dict(os.environ, PYTHONPATH=os.environ.get("VERIF_REPO_SRC", "/repo/hugr-py/src") + ":/verif")
p = subprocess.run([sys.executable, "-m", "ground.c17_enums"], capture_output=True, text=True, env=env, cwd="/verif")
now = json.loads([l for l in p.stdout.splitlines() if l.startswith("GROUND-JSON ")][-1][12:])["results"]
print("at check time:", {json.dumps(r.get("problems"))!r})
print("now:", json.dumps([x.get("problems") for x in now]))
sys.exit(1 if any(not x["ok"] for x in now) else 0)
""")
                w = r["problems"][0] if r.get("problems") else {}
                res.violations.append({"clause": f"enumerated position {w.get('path')}: the decoder {'accepts' if w.get('decoder_accepts') else 'rejects'} {w.get('value')!r}, the published schema lists {w.get('published_enumeration')}", "replay": fn, "confirmed": True})
    decoder_vs_schema(res, env, tier)
    res.trusted_base = ["pydantic: validation by a model == validation against the JSON schema generated from that model (the reduction step; no longer only assumed: probed on one-place mutations of real documents under both configurations, third ground decision)",
                        "the repository's own scripts/generate_schema.py is executed as is (real models, real script) into a scratch directory"] + data.get("rules", [])
    res.assumptions = ["this property is decided by a closed ground comparison (equality of two finite JSON values), not by a code contract - see DESIGN 5/C17"]
    res.level = "other"
    res.explanation = ("'for all documents: accepted by the decoder iff accepted by the published schema' reduces, under the assumed pydantic contract, to equality of the generated and the "
                       f"published schema for the four configurations; decided by evaluation: {sum(1 for r in data['results'] if r['ok'])}/{len(data['results'])} comparisons equal. "
                       "Normal-form rules are listed in trusted_base. Enumerated positions are additionally probed on the decoder itself (validator hooks do not show in a generated schema).")
    res.extra["exhaustive"] = True
    res.extra["evaluations"] = len(data["results"])
    res.extra["distinct_nontrivial"] = len(data["results"])
    return res.finish()
