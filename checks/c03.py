"""C03 - emitted documents conform to the published wire format."""
import json
import os
import subprocess
import sys

from checks.common import CheckResult, VERIF, replay_header, repo_src, standard_flow
from checks.c02 import apply_known

FILES = [os.path.join(VERIF, "contracts", f) for f in ("node_port.py", "tys.py", "ops.py", "utils.py", "base.py", "serial.py")]
TARGETS = ["hugr.hugr.base._order_port_offset", "hugr.hugr.base.Hugr._constrain_offset", "hugr.ops.Call._function_port_offset",
           "hugr.ops.Call.port_kind", "hugr.ops.LoadFunc.port_kind", "hugr.ops.LoadConst.port_kind"]


def schema_root():
    src = repo_src()
    root = os.path.dirname(os.path.dirname(src))
    if not os.path.isdir(os.path.join(root, "specification")):
        root = "/repo"
    return os.path.join(root, "specification", "schema", "hugr_schema_strict_live.json")


def validate_docs(res):
    """Every emitted document against the published strict schema (jsonschema, tooling python)."""
    import jsonschema
    p = os.environ.get("VERIF_C03_DOCS") or os.path.join(VERIF, "replays", "C03", "docs.jsonl")
    if not os.path.exists(p):
        res.errors.append("bounded.c03 wrote no documents")
        return
    schema = json.load(open(schema_root()))
    defs = schema["$defs"]
    validators = {}
    for kind, name in (("Hugr", "SerialHugr"), ("Package", "Package"), ("Extension", "Extension")):
        validators[kind] = jsonschema.Draft202012Validator({"$ref": f"#/$defs/{name}", "$defs": defs})
    n = bad = 0
    for line in open(p):
        try:
            rec = json.loads(line)
        except json.JSONDecodeError:
            # the bounded run was stopped (time limit) while writing: what it wrote so far is validated, the rest is reported
            res.errors.append("bounded.c03 did not finish writing its documents (stopped by its time limit)")
            break
        n += 1
        errs = list(validators[rec["kind"]].iter_errors(rec["doc"]))
        if errs and bad < 3:
            bad += 1
            e = errs[0]
            d = os.path.join(VERIF, "replays", "C03")
            fn = os.path.join(d, f"schema_{bad}.py")
            open(fn, "w").write(replay_header("C03", f"{rec['kind']} document does not validate against {os.path.basename(schema_root())}: {e.message[:200]} at /{'/'.join(str(x) for x in e.absolute_path)}")
                                + f"\nimport json\ndoc = json.loads({json.dumps(json.dumps(rec['doc']))})\nprint(json.dumps(doc)[:600])\nprint({e.message[:300]!r})\nsys.exit(1)\n")
            res.violations.append({"clause": f"schema: {rec['kind']} document rejected: {e.message[:80]}", "replay": fn, "confirmed": True})
    res.ground.append({"check": f"{n} emitted documents (HUGRs, packages, extensions) validate against the published strict schema", "ok": bad == 0, "documents": n})
    res.extra["schema_documents"] = n


def run(tier, seed):
    res = CheckResult("C03", tier, seed)
    res.trusted_base = [
        "pyvc encoding of the supported Python subset (DESIGN 2, A1)",
        "sig_in / sig_out: the rows an operation's own outer_signature reports (ghost definition; their correctness per class is C06); AsExtOp.outer_signature trusted as that definition",
        "jsonschema Draft 2020-12 validator as the schema oracle",
        "the oracle of the bounded run (listing order, port positions from signatures) is written from the statement",
    ]
    res.assumptions = ["operations are complete (an incomplete operation makes serialization raise: may_raise clauses)",
                       "index sanity (root first, parents earlier, endpoints exist) depends on the heap-ordered listing loop of Hugr._to_serial, which is not under contract: bounded only"]
    standard_flow(res, FILES, TARGETS, None, bounded_modules=[("bounded.c03", 900, 1800)])
    apply_known(res, "C03")
    validate_docs(res)
    res.level = "other"
    res.explanation = ("Proved for all complete operations and all port counts: a value port is addressed by its offset (= its position in the signature), the static function / constant input sits "
                       "immediately after the value inputs (Call._function_port_offset, port_kind of Call / LoadFunc / LoadConst, shared with C06), and a state-order edge is addressed at the first port "
                       "after those in both directions (_order_port_offset, _constrain_offset) - the postconditions mention only the operation's signature, never the number of connected ports. "
                       "Index sanity and schema validity of whole documents (HUGRs after deletion and index reuse, packages, extensions) are decided by a bounded run + jsonschema validation -> other.")
    return res.finish()
