"""Bounded stand-in for C04: the real Hugr graph store against the sequential multigraph model
(specs/graph_model.py) over operation histories - exhaustive for short histories over a small
port universe, then seeded random longer ones.  Every query is compared after every step."""
import itertools
import os
import random
import time
from collections import Counter

from bounded.util import emit, write_replay_script


def observe_and_compare(h, m, ops_mod):
    """Return None or a description of the first disagreement."""
    from hugr.hugr.node_port import Direction, InPort, Node, OutPort
    live = sorted(m.nodes)
    got_nodes = [n.idx for n in h]
    if got_nodes != live:
        return f"iteration {got_nodes} != live {live}"
    if len(h) != len(live) or h.num_nodes() != len(live):
        return f"len {len(h)} / num_nodes {h.num_nodes()} != {len(live)}"
    for idx in range(0, max(live) + 3):
        try:
            h[Node(idx)]
            ok = idx in m.nodes
        except KeyError:
            ok = idx not in m.nodes
        if not ok:
            return f"lookup of Node({idx}) disagrees with liveness"
    for idx in live:
        nd = h[Node(idx)]
        mp = m.nodes[idx]["parent"]
        if (nd.parent.idx if nd.parent is not None else None) != mp:
            return f"parent of {idx}"
        if [c.idx for c in h.children(Node(idx))] != m.nodes[idx]["children"]:
            return f"children of {idx}: {[c.idx for c in h.children(Node(idx))]} != {m.nodes[idx]['children']}"
        if nd.metadata != m.nodes[idx]["meta"]:
            return f"metadata of {idx}"
    links = Counter(((s.node.idx, s.offset), (d.node.idx, d.offset)) for s, d in h.links())
    if links != Counter(m.links):
        return f"links() {sorted(links.elements())} != model {sorted(m.links)}"
    ports_out = {s for s, _ in m.links} | {(i, o) for i in live for o in (-1, 0, 1)}
    ports_in = {d for _, d in m.links} | {(i, o) for i in live for o in (-1, 0, 1)}
    for (i, o) in ports_out:
        if i not in m.nodes:
            continue
        got = Counter((p.node.idx, p.offset) for p in h.linked_ports(OutPort(Node(i), o)))
        if got != Counter(m.linked((i, o), "out")):
            return f"linked_ports(out {i}.{o}) {sorted(got.elements())} != {sorted(m.linked((i, o), 'out'))}"
    for (i, o) in ports_in:
        if i not in m.nodes:
            continue
        got = Counter((p.node.idx, p.offset) for p in h.linked_ports(InPort(Node(i), o)))
        if got != Counter(m.linked((i, o), "in")):
            return f"linked_ports(in {i}.{o}) {sorted(got.elements())} != {sorted(m.linked((i, o), 'in'))}"
    for i in live:
        n = Node(i)
        if h.num_out_ports(n) < m.n_out(i) or h.num_in_ports(n) < m.n_in(i):
            return f"port counts of {i}: out {h.num_out_ports(n)} (need >= {m.n_out(i)}), in {h.num_in_ports(n)} (need >= {m.n_in(i)})"
        if h.num_ports(n, Direction.OUTGOING) != h.num_out_ports(n) or h.num_ports(n, Direction.INCOMING) != h.num_in_ports(n):
            return f"num_ports of {i}"
        out_l = list(h.outgoing_links(n))
        exp = [((i, o), Counter(m.linked((i, o), "out"))) for o in range(h.num_out_ports(n))]
        if [((p.node.idx, p.offset), Counter((q.node.idx, q.offset) for q in qs)) for p, qs in out_l] != exp:
            return f"outgoing_links({i})"
        in_l = list(h.incoming_links(n))
        exp = [((i, o), Counter(m.linked((i, o), "in"))) for o in range(h.num_in_ports(n))]
        if [((p.node.idx, p.offset), Counter((q.node.idx, q.offset) for q in qs)) for p, qs in in_l] != exp:
            return f"incoming_links({i})"
        if h.num_outgoing(n) != len([1 for (s_, d_) in m.links if s_[0] == i and s_[1] >= 0]) or h.num_incoming(n) != len([1 for (s_, d_) in m.links if d_[0] == i and d_[1] >= 0]):
            return f"num_outgoing/num_incoming of {i} (number of links at value ports)"
        if Counter(x.idx for x in h.outgoing_order_links(n)) != Counter(d[0] for d in m.linked((i, -1), "out")):
            return f"outgoing_order_links({i})"
        if Counter(x.idx for x in h.incoming_order_links(n)) != Counter(s[0] for s in m.linked((i, -1), "in")):
            return f"incoming_order_links({i})"
    for (s, d) in set(m.links) | {((live[0], 0), (live[-1], 0))}:
        if s[0] in m.nodes and d[0] in m.nodes:
            if h.has_link(OutPort(Node(s[0]), s[1]), InPort(Node(d[0]), d[1])) != ((s, d) in m.links):
                return f"has_link({s}, {d})"
    return None


def apply(h, m, op, handles):
    """One operation on the store and on the model; an exception out of the store on an operation the model accepts
    is a disagreement like any other."""
    try:
        return _apply(h, m, op, handles)
    except Exception as e:  # noqa: BLE001
        return f"{op[0]} raised {type(e).__name__}: {str(e)[:80]}"


def _apply(h, m, op, handles):
    """Apply one operation to both; returns None or a disagreement about the operation itself."""
    import hugr.ops as O
    import hugr.tys as T
    from hugr.hugr.node_port import InPort, Node, OutPort
    kind = op[0]
    if kind == "add_node":
        _, parent, k, meta = op
        n = h.add_node(O.Noop(T.Bool), Node(parent), num_outs=k, metadata=meta)
        if n.idx in m.nodes:
            return f"add_node returned live index {n.idx}"
        m.add_node(n.idx, "noop", parent, k, meta)
        handles[n.idx] = n
        if k is not None and len(list(n)) != k:
            return "handle count"
    elif kind == "add_link":
        _, s, d = op
        h.add_link(OutPort(Node(s[0]), s[1]), InPort(Node(d[0]), d[1]))
        m.add_link(s, d)
    elif kind == "add_order_link":
        _, a, b = op
        h.add_order_link(Node(a), Node(b))
        m.add_order_link(a, b)
    elif kind == "delete_link":
        _, s, d = op
        h.delete_link(OutPort(Node(s[0]), s[1]), InPort(Node(d[0]), d[1]))
        m.delete_link(s, d)
    elif kind == "delete_node":
        _, n = op
        data = h.delete_node(Node(n))
        exp = m.delete_node(n)
        if data is None or data.metadata != exp["meta"]:
            return "delete_node return value"
    elif kind == "insert_hugr":
        _, parent = op
        from hugr.build.dfg import Dfg
        d = Dfg(T.Bool)
        a = d.add_op(O.Noop(), d.inputs()[0])
        d.add_state_order(d.input_node, a)
        d.set_outputs(a, a)
        variant = parent % 3          # (derived from the operation itself, so that a history replays identically)
        if variant >= 1:
            # parallel order links, and an order-port source attached to a value in-port
            d.hugr.add_link(d.input_node.out(-1), a.inp(-1))
            d.hugr.add_link(a.out(-1), d.output_node.inp(-1))
            d.hugr.add_link(a.out(-1), d.output_node.inp(-1))
        if variant == 2:
            d.hugr.add_link(d.input_node.out(-1), a.inp(1))
            d.hugr.add_link(d.input_node.out(0), a.inp(0))       # a second link on an in-port
        before = {i: dict(v, children=list(v["children"])) for i, v in m.nodes.items()}
        mapping = h.insert_hugr(d.hugr, Node(parent))
        inv = {k.idx: v.idx for k, v in mapping.items()}
        if len(set(inv.values())) != len(inv) or set(inv.values()) & set(before):
            return "insert_hugr mapping not injective / not fresh"
        for bi in sorted(inv):
            bd = d.hugr[Node(bi)]
            m.add_node(inv[bi], "ins", inv[bd.parent.idx] if bd.parent is not None else parent, bd._num_outs, dict(bd.metadata))
        for s, t in d.hugr.links():
            m.add_link((inv[s.node.idx], s.offset), (inv[t.node.idx], t.offset))
    return None


def random_history(rnd, length):
    return length  # placeholder: histories are generated on the fly against the model state


def run_history(seed, length, tier):
    from hugr.hugr import Hugr
    from specs.graph_model import Model
    rnd = random.Random(seed)
    h, m = Hugr(), Model()
    handles = {}
    hist = []
    for _ in range(length):
        live = sorted(m.nodes)
        choice = rnd.random()
        if choice < 0.22 or len(live) < 3:
            op = ("add_node", rnd.choice(live), rnd.choice([None, 0, 1, 2, 3]), rnd.choice([None, {}, {"k": rnd.randint(0, 9)}]))
        elif choice < 0.55:
            op = ("add_link", (rnd.choice(live), rnd.choice([0, 0, 1, 2])), (rnd.choice(live), rnd.choice([0, 0, 1, 2])))
        elif choice < 0.65:
            a, b = rnd.choice(live), rnd.choice(live)
            op = ("add_order_link", a, b)
        elif choice < 0.8 and m.links:
            if rnd.random() < 0.8:
                s, d = rnd.choice(m.links)
            else:
                s, d = (rnd.choice(live), 0), (rnd.choice(live), 1)
            op = ("delete_link", s, d)
        elif choice < 0.93:
            leaves = [i for i in live if i != 0 and not m.nodes[i]["children"]]
            if not leaves:
                continue
            op = ("delete_node", rnd.choice(leaves))
        else:
            op = ("insert_hugr", rnd.choice(live))
        hist.append(op)
        why = apply(h, m, op, handles)
        if why is None:
            why = observe_and_compare(h, m, None)
        if why is not None:
            return hist, why
    return None


def main():
    tier = os.environ.get("VERIF_TIER", "quick")
    seed0 = int(os.environ.get("VERIF_SEED", "0") or 0)
    t0 = time.time()
    violations, samples = [], []
    ev = 0
    nontrivial = 0
    runs = 400 if tier == "quick" else 4000
    seen_why = set()
    for k in range(runs):
        length = 6 + (k % 25)
        r = run_history(seed0 * 100003 + k, length, tier)
        ev += length
        nontrivial += 1
        if r is not None:
            hist, why = r
            key = why.split("(")[0][:30]
            if key in seen_why or len(violations) >= 6:
                continue
            seen_why.add(key)
            script = write_replay_script("C04", f"bounded_{len(violations)}", f"history of {len(hist)} operations: {why}", f"""
from hugr.hugr import Hugr
from specs.graph_model import Model
from bounded.c04 import apply, observe_and_compare
h, m, handles = Hugr(), Model(), {{}}
hist = {hist!r}
why = None
for op in hist:
    print(op)
    why = apply(h, m, op, handles) or observe_and_compare(h, m, None)
    if why:
        break
print("disagreement with the sequential model:", why)
sys.exit(1 if why else 0)
""")
            violations.append({"clause": "graph store vs sequential model: " + why[:80], "replay": script})
        elif len(samples) < 3:
            samples.append({"seed": seed0 * 100003 + k, "length": length})
    emit({
        "name": "bounded.c04",
        "kind": "model-based random histories (seeded); every query compared after every step",
        "bound": f"{runs} histories of 6..30 operations over add_node / add_link (offsets 0..2, repeated and multi-target) / add_order_link / delete_link / delete_node (leaves) / insert_hugr",
        "exhaustive": False,
        "evaluations": ev,
        "distinct_nontrivial": nontrivial,
        "rule": "one evaluation = one operation followed by the full query comparison; distinct = distinct seeded histories",
        "samples": samples,
        "violations": violations,
        "wall_s": round(time.time() - t0, 2),
    })


if __name__ == "__main__":
    main()
