"""Bounded stand-in for C13: builder programs containing exactly one inconsistency, at several
nesting depths / positions and over several type rows; each must raise the documented error.
A control without the inconsistency must build (so an over-eager refusal is noticed too)."""
import itertools
import os
import time

from bounded.util import emit, write_replay_script


def scenarios(tier):
    import hugr.ops as O
    import hugr.tys as T
    import hugr.val as V
    from hugr.build.cfg import Cfg
    from hugr.build.cond_loop import Conditional, ConditionalError, TailLoop
    from hugr.build.dfg import Dfg
    from hugr.build.function import Module
    from hugr.build.tracked_dfg import TrackedDfg
    from hugr.exceptions import MismatchedExit, NoSiblingAncestor, NotInSameCfg
    from hugr.ops import IncompleteOp, NoConcreteFunc
    from hugr.std.int import INT_T, IntVal
    A = T.TypeBound.Any
    rows = [[], [T.Bool], [T.Qubit], [T.Bool, INT_T], [T.Tuple(T.Bool, T.Qubit)], [T.Option(INT_T), T.Bool]]
    if tier != "quick":
        rows += [[T.FunctionType([T.Bool], [T.Bool])], [T.UnitSum(3), T.Unit], [INT_T, INT_T, INT_T]]
    out = []

    def add(name, exc, fn, control):
        out.append((name, exc, fn, control))

    def nest(d, depth, wires):
        """builders nested `depth` levels below d, each passing `wires` through"""
        cur = d
        chain = []
        for _ in range(depth):
            inner = cur.add_nested(*wires)
            chain.append(inner)
            wires = inner.inputs()
            cur = inner
        return cur, chain

    # 1. no ancestor-sibling relation
    for depth in (1, 2, 3):
        def bad(depth=depth):
            d = Dfg(T.Bool)
            (b,) = d.inputs()
            side = d.add_nested(b)
            hidden = side.add_op(O.Noop(), side.inputs()[0])     # lives inside `side`
            cur, _ = nest(d, depth - 1, [b])
            cur.add_op(O.Noop(), hidden)                          # not an ancestor's sibling

        def good(depth=depth):
            d = Dfg(T.Bool)
            (b,) = d.inputs()
            shown = d.add_op(O.Noop(), b)
            cur, _ = nest(d, depth, [b])
            cur.add_op(O.Noop(), shown)                           # non-local but legal
        add(f"wire from an unrelated region, target depth {depth}", NoSiblingAncestor, bad, good)
    # 2. outside the enclosing CFG
    for depth in (0, 1):
        def bad(depth=depth):
            d = Dfg(T.Bool)
            (b,) = d.inputs()
            side = d.add_nested(b)
            hidden = side.add_op(O.Noop(), side.inputs()[0])      # inside a sibling region, outside the CFG
            cfg = d.add_cfg(b)
            with cfg.add_entry() as entry:
                cur, _ = nest(entry, depth, list(entry.inputs()))
                cur.add_op(O.Noop(), hidden)

        def good(depth=depth):
            cfg = Cfg(T.Bool)
            with cfg.add_entry() as entry:
                entry.set_block_outputs(*entry.inputs())
            with cfg.add_successor(entry[0]) as nxt:
                nxt.add_op(O.Noop(), entry.inputs()[0])           # dominator edge inside the same CFG (the builder supports it directly in a block)
        # directly in a block the documented error is NotInSameCfg; in a region nested in the block it is NoSiblingAncestor
        add(f"wire from outside the control-flow graph, depth {depth}", NotInSameCfg if depth == 0 else (NotInSameCfg, NoSiblingAncestor), bad, good)
    # 3. conditionals
    for r1, r2 in itertools.permutations(rows[:4], 2):
        def bad(r1=r1, r2=r2):
            c = Conditional(T.Bool, r1 + r2)
            with c.add_case(0) as c0:
                c0.set_outputs(*c0.inputs()[:len(r1)])
            with c.add_case(1) as c1:
                c1.set_outputs(*c1.inputs()[len(r1):])

        def good(r1=r1, r2=r2):
            c = Conditional(T.Bool, r1 + r2)
            with c.add_case(0) as c0:
                c0.set_outputs(*c0.inputs()[:len(r1)])
            with c.add_case(1) as c1:
                c1.set_outputs(*c1.inputs()[:len(r1)])
        add(f"cases disagree on outputs {r1} vs {r2}", ConditionalError, bad, good)
    for n, idx in ((2, 2), (2, 5), (2, -1), (2, -3), (1, 1), (3, -4)):
        def bad(n=n, idx=idx):
            Conditional(T.UnitSum(n), []).add_case(idx)

        def good(n=n):
            Conditional(T.UnitSum(n), []).add_case(n - 1)
        add(f"case index {idx} of {n} cases", ConditionalError, bad, good)

    def twice():
        c = Conditional(T.Bool, [])
        c.add_case(1)
        c.add_case(1)

    def once():
        c = Conditional(T.Bool, [])
        c.add_case(1)
        c.add_case(0)
    add("case built twice", ConditionalError, twice, once)
    for missing in (0, 1):
        def bad(missing=missing):
            with Conditional(T.Bool, [T.Bool]) as c:
                with c.add_case(1 - missing) as k:
                    k.set_outputs(*k.inputs())

        def good():
            with Conditional(T.Bool, [T.Bool]) as c:
                for i in (0, 1):
                    with c.add_case(i) as k:
                        k.set_outputs(*k.inputs())
        add(f"conditional context left with case {missing} unbuilt", ConditionalError, bad, good)
    # 4. exit type
    for r1, r2 in itertools.permutations(rows[:4], 2):
        def bad(r1=r1, r2=r2):
            cfg = Cfg(*(r1 + r2))
            with cfg.add_entry() as entry:
                entry.set_block_outputs(entry.load(V.TRUE), *entry.inputs())
            with cfg.add_successor(entry[0]) as m1:
                m1.set_single_succ_outputs(*m1.inputs()[:len(r1)])
            with cfg.add_successor(entry[1]) as m2:
                m2.set_single_succ_outputs(*m2.inputs()[len(r1):])
            cfg.branch_exit(m1[0])
            cfg.branch_exit(m2[0])

        def good(r1=r1, r2=r2):
            cfg = Cfg(*(r1 + r2))
            with cfg.add_entry() as entry:
                entry.set_block_outputs(entry.load(V.TRUE), *entry.inputs())
            with cfg.add_successor(entry[0]) as m1:
                m1.set_single_succ_outputs(*m1.inputs()[:len(r1)])
            with cfg.add_successor(entry[1]) as m2:
                m2.set_single_succ_outputs(*m2.inputs()[:len(r1)])
            cfg.branch_exit(m1[0])
            cfg.branch_exit(m2[0])
        add(f"exit branch {r2} after exit type {r1}", MismatchedExit, bad, good)
    # 5. declared function outputs
    for decl, given in itertools.permutations(rows[:4], 2):
        def bad(decl=decl, given=given):
            f = Module().define_function("f", decl + given, decl)
            f.set_outputs(*f.inputs()[len(decl):])

        def good(decl=decl, given=given):
            f = Module().define_function("f", decl + given, decl)
            f.set_outputs(*f.inputs()[:len(decl)])
        add(f"function declared {decl} given {given}", ValueError, bad, good)
    # 6. polymorphic functions
    poly = T.PolyFuncType([T.TypeTypeParam(A)], T.FunctionType.endo([T.Variable(0, A)]))
    inst = T.FunctionType.endo([T.Qubit])
    for how in ("call", "load"):
        for targs in (None, [], [T.Qubit.type_arg(), T.Bool.type_arg()]):
            for with_inst in ((False, True) if targs is not None else (False,)):
                def bad(how=how, targs=targs, with_inst=with_inst):
                    m = Module()
                    fd = m.declare_function("id", poly)
                    main = m.define_main([T.Qubit])
                    kw = {"instantiation": inst if with_inst else None, "type_args": targs}
                    if how == "call":
                        main.call(fd, main.inputs()[0], **kw)
                    else:
                        main.load_function(fd, **kw)

                def good(how=how):
                    m = Module()
                    fd = m.declare_function("id", poly)
                    main = m.define_main([T.Qubit])
                    kw = {"instantiation": inst, "type_args": [T.Qubit.type_arg()]}
                    if how == "call":
                        main.call(fd, main.inputs()[0], **kw)
                    else:
                        main.load_function(fd, **kw)
                add(f"{how} of a polymorphic function, type_args={targs}, instantiation given={with_inst}", NoConcreteFunc, bad, good)
    # 7. wrong kind of port
    def call_non_function():
        d = Dfg(T.Bool)
        n = d.add_op(O.Noop(), d.inputs()[0])
        d.call(n, d.inputs()[0])

    def call_function():
        m = Module()
        f = m.define_function("f", [T.Bool])
        f.set_outputs(*f.inputs())
        g = m.define_main([T.Bool])
        g.call(f, *g.inputs())
    add("call of a node that is not a function", ValueError, call_non_function, call_function)

    def load_non_function():
        d = Dfg(T.Bool)
        n = d.add_op(O.Noop(), d.inputs()[0])
        d.load_function(n)
    add("load_function of a node that is not a function", ValueError, load_non_function, call_function)

    def wire_function_port():
        m = Module()
        f = m.define_function("f", [T.Bool])
        f.set_outputs(*f.inputs())
        g = m.define_main([T.Bool])
        g.add_op(O.Noop(), f.parent_node.out(0))     # the function port is not a dataflow port

    def wire_const_port():
        d = Dfg(T.Bool)
        c = d.add_const(V.TRUE)
        d.add_op(O.Noop(), c.out(0))                 # a constant must be loaded first
    add("function port used as a dataflow wire", ValueError, wire_function_port, call_function)
    add("constant port used as a dataflow wire", ValueError, wire_const_port, call_function)
    # 8. integer wire indices
    def int_in_plain():
        d = Dfg(T.Bool)
        d.add(O.Noop()(0))

    def int_in_tracked():
        d = TrackedDfg(T.Bool, track_inputs=True)
        d.add(O.Noop()(0))
    add("integer wire index in an untracked builder", ValueError, int_in_plain, int_in_tracked)
    for idx in (1, 5, -2):
        def bad(idx=idx):
            d = TrackedDfg(T.Bool, track_inputs=True)
            d.add(O.Noop()(idx))
        add(f"integer wire index {idx} names an untracked wire", IndexError, bad, int_in_tracked)

    def untracked_again():
        d = TrackedDfg(T.Bool, track_inputs=True)
        d.untrack_wire(0)
        d.add(O.Noop()(0))
    add("integer wire index after untracking", IndexError, untracked_again, int_in_tracked)
    # untracking one of several wires: that index is refused from then on, through every entry point,
    # whatever else is tracked at higher indices (a table compacted in place would let it name a neighbour)
    for width in (2, 3, 4):
        for victim in range(width):
            for how in ("add", "tracked_wire", "extend", "set_indexed_outputs", "untrack_wire"):
                def stale(width=width, victim=victim, how=how):
                    d = TrackedDfg(*([T.Bool] * width), track_inputs=True)
                    d.untrack_wire(victim)
                    if how == "add":
                        d.add(O.Noop()(victim))
                    elif how == "tracked_wire":
                        d.tracked_wire(victim)
                    elif how == "extend":
                        d.extend(O.Noop()(victim))
                    elif how == "untrack_wire":
                        d.untrack_wire(victim)
                    else:
                        d.set_indexed_outputs(victim)

                def live(width=width, victim=victim):
                    d = TrackedDfg(*([T.Bool] * width), track_inputs=True)
                    d.untrack_wire(victim)
                    for i in range(width):
                        if i != victim:
                            d.add(O.Noop()(i))
                add(f"index {victim} of {width} tracked wires used through {how} after it was untracked", IndexError, stale, live)
    # 9. incomplete operations cannot be serialized
    def incomplete(make):
        def run():
            from hugr.hugr import Hugr
            h = Hugr(O.DFG([T.Bool], [T.Bool]))
            h.add_node(make(), h.root)
            h.to_json()
        return run

    def complete():
        d = Dfg(T.Bool)
        d.set_outputs(*d.inputs())
        d.hugr.to_json()
    for nm, mk in (("Output()", lambda: O.Output()), ("MakeTuple()", lambda: O.MakeTuple()), ("UnpackTuple()", lambda: O.UnpackTuple()), ("Noop()", lambda: O.Noop()),
                   ("DFG without outputs", lambda: O.DFG([T.Bool])), ("Conditional without outputs", lambda: O.Conditional(T.Bool, [])), ("CFG without outputs", lambda: O.CFG([T.Bool])),
                   ("FuncDefn without outputs", lambda: O.FuncDefn("f", [T.Bool])), ("Case without outputs", lambda: O.Case([T.Bool]))):
        add(f"serializing an incomplete {nm}", IncompleteOp, incomplete(mk), complete)
    return out


def run_one(fn):
    try:
        fn()
        return None
    except Exception as e:  # noqa: BLE001
        return e


def main():
    tier = os.environ.get("VERIF_TIER", "quick")
    t0 = time.time()
    sc = scenarios(tier)
    violations = []
    ev = 0
    kinds = {}
    for i, (name, exc, bad, good) in enumerate(sc):
        ev += 2
        en = exc.__name__ if isinstance(exc, type) else "/".join(x.__name__ for x in exc)
        kinds[en] = kinds.get(en, 0) + 1
        e = run_one(bad)
        why = None
        if e is None:
            why = f"silently accepted: {name} (expected {en})"
        elif not isinstance(e, exc):
            why = f"{name}: raised {type(e).__name__} ({str(e)[:60]}) instead of the documented {en}"
        g = run_one(good)
        if why is None and g is not None:
            why = f"the consistent control for '{name}' was refused: {type(g).__name__}: {str(g)[:60]}"
        if why and len(violations) < 8:
            script = write_replay_script("C13", f"bounded_{len(violations)}", why, f"""
from bounded.c13 import scenarios, run_one
name, exc, bad, good = scenarios({tier!r})[{i}]
e, g = run_one(bad), run_one(good)
print(name, "->", repr(e), "| control ->", repr(g))
sys.exit(0 if (isinstance(e, exc) and g is None) else 1)
""")
            violations.append({"clause": "refusal: " + why[:110], "replay": script})
    emit({
        "name": "bounded.c13",
        "kind": "enumerated builder programs with exactly one inconsistency (and a consistent control each)",
        "bound": f"{len(sc)} scenarios by expected error: {kinds}; nesting depths 0..3, type rows incl. the empty row",
        "exhaustive": False,
        "evaluations": ev,
        "distinct_nontrivial": len(sc),
        "rule": "evaluation = one program run (inconsistent or control)",
        "samples": [{"scenario": sc[i][0]} for i in (0, len(sc) // 2, len(sc) - 1)],
        "violations": violations,
        "wall_s": round(time.time() - t0, 2),
    })


if __name__ == "__main__":
    main()
