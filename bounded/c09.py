"""Bounded stand-in / differential check for C09 on the real library stack (pydantic, pyzstd):
(a) header decoder on all 2^16 format/flag pairs, all truncations and corrupted magic numbers,
    under the run-time contracts (differential check of the proof);
(b) package round trips through bytes and text for every encodable configuration - this is the
    part that exercises the *assumed* library contracts (pydantic / pyzstd / utf-8 inverses)."""
import itertools
import json
import os
import time

from bounded.util import emit, write_replay_script

FILES = [os.path.join(os.path.dirname(os.path.dirname(os.path.abspath(__file__))), "contracts", "envelope.py")]


def packages():
    import hugr.ops as ops
    import hugr.tys as tys
    import hugr.val as val
    from hugr.build.dfg import Dfg
    from hugr.build.function import Module
    from hugr.ext import Extension, OpDef, OpDefSig, TypeDef, ExplicitBound
    from hugr.package import Package
    import semver
    from hugr.std.int import INT_T, DivMod
    from hugr.std.logic import Not
    from hugr.std import int as std_int, logic as std_logic

    def mod(name, meta=None):
        m = Module()
        f = m.define_function(name, [tys.Bool, INT_T])
        b, x = f.inputs()
        n = f.add_op(Not, b, metadata=meta)
        f.set_outputs(n, x)
        return m.hugr

    ext = Extension("my.exté", semver.Version(0, 1, 0))
    ext.add_type_def(TypeDef("Tü", description="typ ∀", params=[], bound=ExplicitBound(tys.TypeBound.Copyable)))
    ext.add_op_def(OpDef("op", description="an op ☃", signature=OpDefSig(tys.FunctionType([tys.Bool], [tys.Bool]))))
    out = [
        ("empty", Package([], [])),
        ("one module", Package([mod("main")], [])),
        ("two modules + extension, non-ascii", Package([mod("föö", {"k": "väl 世界", "n": [1, 2, {"x": None}]}), mod("g")], [ext])),
        ("extensions only", Package([], [std_logic.EXTENSION, ext])),
    ]
    # versions with pre-release and build parts (documents are compared, semver equality ignores build metadata)
    for ver in ("1.2.3-rc.1", "2.0.0+build.5", "0.3.0-alpha.2+exp.sha.5114f85"):
        e2 = Extension("ver.ext", semver.Version.parse(ver))
        e2.add_op_def(OpDef("op", description="", signature=OpDefSig(tys.FunctionType([tys.Bool], [tys.Bool]))))
        out.append((f"extension version {ver}", Package([mod("h")], [e2])))
    return out


def docs(p):
    return ([json.loads(m.to_json()) for m in p.modules], [json.loads(e.to_json()) for e in p.extensions])


def main():
    tier = os.environ.get("VERIF_TIER", "quick")
    t0 = time.time()
    from pyvc.rt import ContractViolation, Monitor, load_db
    import hugr.envelope as E
    from hugr.package import Package
    violations, samples = [], []
    evaluations = 0
    db = load_db(FILES)
    mon = Monitor(db, {"int": list(range(0, 10))})
    mon.install(["hugr.envelope.EnvelopeHeader.from_bytes", "hugr.envelope.EnvelopeHeader.to_bytes",
                 "hugr.envelope.EnvelopeConfig._make_header", "hugr.envelope.EnvelopeFormat.ascii_printable"])

    def fail(clause, what, body):
        script = write_replay_script("C09", f"bounded_{len(violations)}", what, body)
        violations.append({"clause": clause, "replay": script})

    MAGIC = b"HUGRiHJv"
    valid = {1: E.EnvelopeFormat.MODULE, 2: E.EnvelopeFormat.MODULE_WITH_EXTS, 63: E.EnvelopeFormat.JSON}

    def check_header(data, note):
        nonlocal evaluations
        evaluations += 1
        exp_err = len(data) < 10 or data[:8] != MAGIC or data[8] not in valid
        try:
            h = E.EnvelopeHeader.from_bytes(data)
            ok = (not exp_err) and h.format is valid[data[8]] and h.zstd == bool(data[9] & 1)
            got = repr(h)
        except ValueError as e:
            ok, got = exp_err, "ValueError"
        except ContractViolation as e:
            ok, got = False, str(e)[:200]
        except Exception as e:  # noqa: BLE001
            ok, got = False, repr(e)
        if not ok and len(violations) < 5:
            fail("header decoder: " + note, f"from_bytes({data!r}) -> {got}", f"""
import hugr.envelope as E
data = {data!r}
try:
    h = E.EnvelopeHeader.from_bytes(data); print("decoded", h)
    bad = {exp_err!r} or h.format.value != data[8] or h.zstd != bool(data[9] & 1)
except ValueError as e:
    print("ValueError", e); bad = not {exp_err!r}
except Exception as e:
    print("raised", repr(e)); bad = True
sys.exit(1 if bad else 0)
""")

    for f in range(256):
        for fl in range(256):
            check_header(MAGIC + bytes([f, fl]) + b"{}", "format/flag pair")
    full = MAGIC + bytes([63, 64]) + b"{}"
    for n in range(0, 13):
        check_header(full[:n], "truncation")
    for i in range(8):
        for delta in (1, 32, 255):
            bad = bytearray(full)
            bad[i] = (bad[i] + delta) % 256
            check_header(bytes(bad), "corrupted magic")
    # encoder: every header
    for fmt in E.EnvelopeFormat:
        for z in (False, True):
            evaluations += 1
            b = E.EnvelopeHeader(fmt, z).to_bytes()
            ok = len(b) == 10 and b[:8] == MAGIC and b[8] == fmt.value and (b[9] & 1) == int(z) and (b[9] >> 6) == 1 and (b[9] & 0b00111110) == 0
            if fmt.ascii_printable():
                ok = ok and all(0x20 <= c <= 0x7E for c in b)
            ok = ok and E.EnvelopeHeader.from_bytes(b + b"xyz") == E.EnvelopeHeader(fmt, z)
            if not ok:
                fail("header encoder", f"EnvelopeHeader({fmt}, {z}).to_bytes() = {b!r}", f"""
import hugr.envelope as E
b = E.EnvelopeHeader(E.{fmt}, {z}).to_bytes(); print(b)
ok = len(b) == 10 and b[:8] == b"HUGRiHJv" and b[8] == {fmt.value} and (b[9] & 1) == {int(z)} and (b[9] >> 6) == 1 and (b[9] & 62) == 0
sys.exit(0 if ok else 1)
""")
    mon.uninstall()
    header_evals = evaluations
    # (b) package round trips
    levels = [None, 0, 1, 3] + ([9, 19, 22] if tier == "thorough" else [])
    rt = 0
    for name, p in packages():
        want = docs(p)
        for lvl in levels:
            cfg = E.EnvelopeConfig(format=E.EnvelopeFormat.JSON, zstd=lvl)
            evaluations += 1
            rt += 1
            try:
                data = p.to_bytes(cfg)
                q = Package.from_bytes(data)
                got = docs(q)
                hdr_ok = data[:8] == MAGIC and data[8] == 63 and (data[9] & 1) == int(lvl is not None) and (data[9] >> 6) == 1
                ok = got == want and hdr_ok and len(q.modules) == len(p.modules) and len(q.extensions) == len(p.extensions)
                detail = "documents differ" if got != want else "header"
            except Exception as e:  # noqa: BLE001
                ok, detail = False, repr(e)
            if not ok and len(violations) < 6:
                fail("package round trip (bytes)", f"{name}, zstd={lvl}: {detail}", f"""
import json
from bounded.c09 import packages, docs
import hugr.envelope as E
from hugr.package import Package
p = dict(packages())[{name!r}]
cfg = E.EnvelopeConfig(format=E.EnvelopeFormat.JSON, zstd={lvl!r})
data = p.to_bytes(cfg); print(data[:10])
q = Package.from_bytes(data)
ok = docs(q) == docs(p) and data[:8] == b"HUGRiHJv" and data[8] == 63 and (data[9] & 1) == {int(lvl is not None)} and (data[9] >> 6) == 1
print("round trip equal:", docs(q) == docs(p))
sys.exit(0 if ok else 1)
""")
            elif len(samples) < 3:
                samples.append({"package": name, "zstd": lvl, "bytes": len(data), "header": list(data[:10])})
        # one configuration object used for several encodings, its fields changed in between (EnvelopeConfig is a
        # mutable dataclass): every envelope describes the configuration it was written with
        evaluations += 1
        try:
            cfg = E.EnvelopeConfig(format=E.EnvelopeFormat.JSON, zstd=None)
            seq = []
            for lvl in (None, 3, None, 0, 1):
                cfg.zstd = lvl
                data = p.to_bytes(cfg)
                seq.append((lvl, data[:10], docs(Package.from_bytes(data)) == want, (data[9] & 1) == int(lvl is not None)))
            data_t = p.to_bytes(E.EnvelopeConfig.TEXT)
            data_b = p.to_bytes(E.EnvelopeConfig.BINARY)
            ok = all(a and b for (_l, _h, a, b) in seq) and docs(Package.from_bytes(data_t)) == want and docs(Package.from_bytes(data_b)) == want
            detail = str([(l, list(h), a, b) for (l, h, a, b) in seq])
        except Exception as e:  # noqa: BLE001
            ok, detail = False, repr(e)
        if not ok and len(violations) < 6:
            fail("package round trip with a reused configuration object", f"{name}: {detail}"[:600], f"""
from bounded.c09 import packages, docs
import hugr.envelope as E
from hugr.package import Package
p = dict(packages())[{name!r}]
cfg = E.EnvelopeConfig(format=E.EnvelopeFormat.JSON, zstd=None)
bad = 0
for lvl in (None, 3, None, 0, 1):
    cfg.zstd = lvl
    data = p.to_bytes(cfg)
    try:
        same = docs(Package.from_bytes(data)) == docs(p)
    except Exception as e:
        same = repr(e)
    print(lvl, list(data[:10]), same)
    bad += same is not True or (data[9] & 1) != int(lvl is not None)
sys.exit(1 if bad else 0)
""")
        # text form
        evaluations += 1
        try:
            s = p.to_str()
            q = Package.from_str(s)
            ok = docs(q) == want and s.startswith("HUGRiHJv?@")
        except Exception as e:  # noqa: BLE001
            ok = False
        if not ok:
            fail("package round trip (text)", f"{name}: to_str/from_str", f"""
from bounded.c09 import packages, docs
from hugr.package import Package
p = dict(packages())[{name!r}]
s = p.to_str(); q = Package.from_str(s)
sys.exit(0 if docs(q) == docs(p) and s.startswith("HUGRiHJv?@") else 1)
""")
        for fmt in (E.EnvelopeFormat.MODULE, E.EnvelopeFormat.MODULE_WITH_EXTS):
            evaluations += 1
            try:
                p.to_str(E.EnvelopeConfig(format=fmt))
                ok = False
            except ValueError:
                ok = True
            except Exception:  # noqa: BLE001
                ok = False
            if not ok:
                fail("text only for ASCII-printable formats", f"to_str with {fmt}", f"""
import hugr.envelope as E
from bounded.c09 import packages
p = packages()[0][1]
try:
    p.to_str(E.EnvelopeConfig(format=E.{fmt})); print("accepted"); sys.exit(1)
except ValueError as e:
    print("ValueError", e); sys.exit(0)
""")
    emit({
        "name": "bounded.c09",
        "kind": "exhaustive header space under the run-time contracts (differential check) + package round trips on the real pydantic/pyzstd stack (bounded evidence for the assumed library contracts)",
        "bound": f"all 65536 format/flag pairs, truncations 0..12, 24 magic corruptions, 6 headers; {rt} package/config round trips over 4 packages and zstd levels {levels}",
        "exhaustive": False,
        "evaluations": evaluations,
        "distinct_nontrivial": evaluations,
        "rule": "distinct inputs; each is executed against the real code and compared with the documented format",
        "monitor": mon.stats,
        "samples": samples,
        "violations": violations,
        "wall_s": round(time.time() - t0, 2),
    })


if __name__ == "__main__":
    main()
