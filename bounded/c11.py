"""Bounded stand-in for C11: extension resolution is conservative, idempotent and invisible on the
wire.  Type expressions with opaque types at every kind of position (sum rows, function types, type
arguments, sequence arguments, arguments of opaque types) x registries (empty / partial /
complete); HUGRs loaded from serialized form with extension operations."""
import itertools
import json
import os
import time

from bounded.util import emit, write_replay_script


def registries():
    from hugr.ext import ExtensionRegistry
    import hugr.std.int as I
    import hugr.std.float as F
    import hugr.std.logic as L
    import hugr.std.prelude as P
    from hugr.std.collections.array import EXTENSION as ARR
    from hugr.std.collections.list import EXTENSION as LST
    out = {}
    for name, exts in (("empty", []), ("int-types-only", [I.INT_TYPES_EXTENSION]), ("no-int-types", [F.FLOAT_TYPES_EXTENSION, ARR, LST, L.EXTENSION, P.PRELUDE_EXTENSION, I.INT_OPS_EXTENSION]),
                       ("complete", [I.INT_TYPES_EXTENSION, I.INT_OPS_EXTENSION, F.FLOAT_TYPES_EXTENSION, ARR, LST, L.EXTENSION, P.PRELUDE_EXTENSION])):
        r = ExtensionRegistry()
        for e in exts:
            r.add_extension(e)
        out[name] = r
    return out


def type_pool(tier):
    import hugr.tys as T
    C, A = T.TypeBound.Copyable, T.TypeBound.Any
    op_int = T.Opaque("int", C, [T.BoundedNatArg(5)], "arithmetic.int.types")
    op_flt = T.Opaque("float64", C, [], "arithmetic.float.types")
    op_unknown = T.Opaque("mystery", A, [T.TypeTypeArg(op_int)], "no.such.ext")
    op_wrong_name = T.Opaque("nope", C, [], "arithmetic.int.types")
    atoms = [T.Bool, T.Qubit, op_int, op_flt, op_unknown, op_wrong_name, T.Variable(0, A), T.USize(), T.UnitSum(3), T.Alias("a", C)]

    def arr(t):
        return T.Opaque("array", t.type_bound(), [T.BoundedNatArg(2), T.TypeTypeArg(t)], "collections.array")

    def lst(t):
        return T.Opaque("List", t.type_bound(), [T.TypeTypeArg(t)], "collections.list")
    l1 = []
    for a in atoms:
        l1 += [arr(a), lst(a), T.Tuple(a, T.Bool), T.Option(a), T.Either([a], [T.Qubit, a]), T.Sum([[a], [], [a, a]]), T.FunctionType([a], [T.Bool, a], ["x"]),
               T.PolyFuncType([T.TypeTypeParam(A)], T.FunctionType([a], [T.Variable(0, A)])),
               T.Opaque("weird", A, [T.SequenceArg([T.TypeTypeArg(a), T.StringArg("s"), T.SequenceArg([T.TypeTypeArg(a)])]), T.BoundedNatArg(1)], "no.such.ext")]
    step = 3 if tier == "quick" else 1
    l2 = []
    for a in [x for x in l1 if not isinstance(x, T.PolyFuncType)][::step]:      # a type scheme is not nestable inside other types
        l2 += [arr(a), T.Tuple(a), T.FunctionType([a], [a]), lst(arr(a))]
    return atoms + l1 + l2


def ser(t):
    import hugr.tys as T
    if isinstance(t, T.PolyFuncType):      # a type scheme is not a member of the Type union on the wire
        return json.loads(t._to_serial().model_dump_json())
    return json.loads(t._to_serial_root().model_dump_json())


def walk_pairs(a, b, reg, path="t"):
    """Parallel walk of a type and its resolved form; yields problems."""
    import hugr.tys as T
    from hugr.ext import ExtensionRegistry, Extension
    if isinstance(a, T.Opaque):
        try:
            td = reg.get_extension(a.extension).get_type(a.id)
            found = True
        except (ExtensionRegistry.ExtensionNotFound, Extension.TypeNotFound):
            found = False
        if found:
            if not isinstance(b, T.ExtType) or b.type_def is not td:
                yield f"{path}: opaque {a.extension}.{a.id} is defined in the registry but was not replaced by its definition-backed form"
                return
            if len(b.args) != len(a.args):
                yield f"{path}: argument count changed"
                return
            for i, (x, y) in enumerate(zip(a.args, b.args)):
                yield from walk_args(x, y, reg, f"{path}.args[{i}]")
        else:
            if b is not a:
                yield f"{path}: opaque {a.extension}.{a.id} has no definition in the registry but was not left untouched"
        return
    if isinstance(a, T.UnitSum):
        if b is not a and ser(a) != ser(b):
            yield f"{path}: unit sum changed"
        return
    if isinstance(a, T.Sum):
        if not isinstance(b, T.Sum) or [len(r) for r in a.variant_rows] != [len(r) for r in b.variant_rows]:
            yield f"{path}: sum shape changed"
            return
        for i, (ra, rb) in enumerate(zip(a.variant_rows, b.variant_rows)):
            for j, (x, y) in enumerate(zip(ra, rb)):
                yield from walk_pairs(x, y, reg, f"{path}.rows[{i}][{j}]")
        return
    if isinstance(a, T.FunctionType):
        if not isinstance(b, T.FunctionType) or len(a.input) != len(b.input) or len(a.output) != len(b.output) or list(a.runtime_reqs) != list(b.runtime_reqs):
            yield f"{path}: function type shape / requirements changed"
            return
        for i, (x, y) in enumerate(zip(a.input + a.output, b.input + b.output)):
            yield from walk_pairs(x, y, reg, f"{path}.io[{i}]")
        return
    if isinstance(a, T.PolyFuncType):
        if not isinstance(b, T.PolyFuncType) or a.params != b.params:
            yield f"{path}: type scheme parameters changed"
            return
        yield from walk_pairs(a.body, b.body, reg, path + ".body")
        return
    if isinstance(a, T.ExtType):
        return
    if type(a) is not type(b) or a != b:
        yield f"{path}: a {type(a).__name__} without opaque parts changed"


def walk_args(x, y, reg, path):
    import hugr.tys as T
    if isinstance(x, T.TypeTypeArg):
        if not isinstance(y, T.TypeTypeArg):
            yield f"{path}: type argument kind changed"
            return
        yield from walk_pairs(x.ty, y.ty, reg, path + ".ty")
    elif isinstance(x, T.SequenceArg):
        if not isinstance(y, T.SequenceArg) or len(x.elems) != len(y.elems):
            yield f"{path}: sequence argument changed"
            return
        for i, (p, q) in enumerate(zip(x.elems, y.elems)):
            yield from walk_args(p, q, reg, f"{path}[{i}]")
    elif x != y:
        yield f"{path}: argument {x!r} changed to {y!r}"


def check_type(t, reg):
    t1 = t.resolve(reg)
    for why in walk_pairs(t, t1, reg):
        return why
    if ser(t1) != ser(t):
        return "the serialized form changed"
    if t1.type_bound() != t.type_bound():
        return f"the type bound changed from {t.type_bound()} to {t1.type_bound()}"
    try:
        m0, m1 = t.to_model(), t1.to_model()
    except (NotImplementedError, TypeError):     # not exportable on its own (type variables' base class, type schemes)
        m0 = m1 = None
    if m0 != m1:
        return f"the exported model changed: {m0} vs {m1}"
    t2 = t1.resolve(reg)
    if ser(t2) != ser(t1) or repr(t2) != repr(t1):
        return "resolving twice differs from resolving once"
    # the resolved objects have now been used several times: they still say what the original says
    for k, x in (("once", t1), ("twice", t2)):
        if ser(x) != ser(t):
            return f"the serialized form of the type resolved {k} changed after it had been used (second serialization differs)"
        if x.type_bound() != t.type_bound():
            return f"the bound of the type resolved {k} changed after it had been used"
    return None


def hugr_docs():
    """Serialized HUGRs containing extension operations (they load as Custom ops)."""
    import hugr.ops as O
    import hugr.tys as T
    from hugr.build.dfg import Dfg
    from hugr.std.int import INT_T, DivMod, IntVal
    from hugr.std.logic import Not
    from hugr.std.float import FLOAT_T, FloatVal
    from hugr.std.collections.array import Array
    out = []
    d = Dfg(T.Bool, INT_T)
    b, i = d.inputs()
    n = d.add(Not(b))
    dm = d.add(DivMod(i, i))
    t = d.add(O.MakeTuple()(n, dm[0]))
    u = d.add(O.UnpackTuple()(t))
    unk = d.add(O.Custom("mystery", T.FunctionType([INT_T], [Array(INT_T, 2), FLOAT_T]), extension="no.such.ext", args=[T.TypeTypeArg(INT_T)], description="who knows")(u[1]))
    unk2 = d.add(O.Custom("NotReally", T.FunctionType([T.Bool], [T.Bool]), extension="logic")(u[0]))
    d.set_outputs(unk2, unk[0], unk[1], d.load(IntVal(3, 5)), d.load(FloatVal(0.5)))
    out.append(("dfg with logic / int / prelude / unknown ops", d.hugr.to_json()))
    return out


def check_hugr(doc, reg):
    from hugr.hugr import Hugr
    from hugr.ext import ExtensionRegistry, Extension
    import hugr.ops as O

    def norm(js):
        d = json.loads(js)
        for n in d["nodes"]:
            n.pop("description", None)
        return d
    h = Hugr.load_json(doc)
    before = {n.idx: h[n].op for n in h}
    sigs = {n.idx: (repr(h[n].op.outer_signature()) if isinstance(h[n].op, O.DataflowOp) else None) for n in h}
    try:
        m_before = str(h.to_model()) if isinstance(h.root_op(), O.Module) else None
    except Exception:  # noqa: BLE001
        m_before = None
    h.resolve_extensions(reg)
    if norm(h.to_json()) != norm(doc):
        return "the serialized document changed (beyond operation descriptions)"
    for n in h:
        op0, op1 = before[n.idx], h[n].op
        if isinstance(op0, O.Custom):
            try:
                reg.get_extension(op0.extension).get_op(op0.op_name)
                found = True
            except (ExtensionRegistry.ExtensionNotFound, Extension.OperationNotFound):
                found = False
            if found and not isinstance(op1, O.ExtOp):
                return f"node {n.idx}: {op0.extension}.{op0.op_name} is defined but was not resolved"
            if not found and op1 is not op0:
                return f"node {n.idx}: {op0.extension}.{op0.op_name} is not defined but was replaced"
            if found:
                s0, s1 = op0.outer_signature(), op1.outer_signature()
                for a, b in zip(s0.input + s0.output, s1.input + s1.output):
                    for why in walk_pairs(a, b, reg, f"node {n.idx} signature"):
                        return why
                if json.loads(s0._to_serial().model_dump_json()) != json.loads(s1._to_serial().model_dump_json()):
                    return f"node {n.idx}: signature changed on the wire"
        elif op1 is not op0:
            return f"node {n.idx}: a non-custom operation was replaced"
    js1 = h.to_json()
    if norm(js1) != norm(doc):
        return "the serialized document of the resolved HUGR changed on its second serialization"
    h.resolve_extensions(reg)
    if h.to_json() != js1:
        return "resolving the HUGR twice differs from resolving once"
    if norm(h.to_json()) != norm(doc):
        return "the serialized document changed after resolving twice and serializing again"
    return None


def main():
    tier = os.environ.get("VERIF_TIER", "quick")
    t0 = time.time()
    regs = registries()
    pool = type_pool(tier)
    violations, seen = [], set()
    ev = nontrivial = 0
    for i, t in enumerate(pool):
        for rname, reg in regs.items():
            ev += 1
            try:
                why = check_type(t, reg)
            except Exception as e:  # noqa: BLE001
                why = f"raised {type(e).__name__}: {str(e)[:80]}"
            if "Opaque" in repr(t):
                nontrivial += 1
            if why:
                key = why.split(":")[-1][:40]
                if key in seen or len(violations) >= 6:
                    continue
                seen.add(key)
                script = write_replay_script("C11", f"bounded_{len(violations)}", f"type #{i} {t!r} with registry '{rname}': {why}"[:800], f"""
from bounded.c11 import registries, type_pool, check_type
t = type_pool({tier!r})[{i}]
print(repr(t))
why = check_type(t, registries()[{rname!r}])
print("result:", why)
sys.exit(1 if why else 0)
""")
                violations.append({"clause": "resolution of a type expression: " + why[:100], "replay": script})
    for k, (name, doc) in enumerate(hugr_docs()):
        for rname, reg in regs.items():
            ev += 1
            nontrivial += 1
            try:
                why = check_hugr(doc, reg)
            except Exception as e:  # noqa: BLE001
                why = f"raised {type(e).__name__}: {str(e)[:80]}"
            if why and len(violations) < 8:
                script = write_replay_script("C11", f"hugr_{len(violations)}", f"HUGR '{name}' with registry '{rname}': {why}", f"""
from bounded.c11 import registries, hugr_docs, check_hugr
why = check_hugr(hugr_docs()[{k}][1], registries()[{rname!r}])
print("result:", why)
sys.exit(1 if why else 0)
""")
                violations.append({"clause": "resolution of a loaded HUGR: " + why[:100], "replay": script})
    emit({
        "name": "bounded.c11",
        "kind": "enumerated type expressions x registries; loaded HUGRs x registries; compared structurally, on the wire, in the exported model and after a second resolution",
        "bound": f"{len(pool)} type expressions (opaque types in sum rows, function types, schemes, type / sequence arguments, arguments of opaque types, 3 nesting levels) x {len(regs)} registries; {len(hugr_docs())} HUGRs",
        "exhaustive": False,
        "evaluations": ev,
        "distinct_nontrivial": nontrivial,
        "rule": "evaluation = one (expression or HUGR, registry) pair; non-trivial = the expression contains an opaque type",
        "samples": [{"type": repr(pool[i])[:100]} for i in (10, 40, 90) if i < len(pool)],
        "violations": violations,
        "wall_s": round(time.time() - t0, 2),
    })


if __name__ == "__main__":
    main()
