"""Bounded stand-in for C10: seeded random extensions (explicit / from-params bounds, monomorphic,
polymorphic and binary-computed signatures with several runtime requirements, values, misc data)
are serialized, loaded and compared field by field; the document must be a fixed point.  The run
repeats itself under different PYTHONHASHSEEDs (set-ordered data must not leak into the document)."""
import json
import os
import random
import subprocess
import sys
import time

from bounded.util import emit, write_replay_script


def gen_ext(seed):
    import semver
    import hugr.tys as T
    import hugr.val as V
    from hugr.ext import ExplicitBound, Extension, ExtensionValue, FromParamsBound, OpDef, OpDefSig, TypeDef
    from hugr.std.int import IntVal
    rnd = random.Random(seed)
    A, C = T.TypeBound.Any, T.TypeBound.Copyable
    name = rnd.choice(["my.ext", "a", "x.y.z"])
    ver = rnd.choice([semver.Version(0, 1, 0), semver.Version(1, 2, 3), semver.Version.parse("2.0.0-alpha.3+build.7"), semver.Version.parse("1.2.3-rc.1")])
    e = Extension(name, ver, runtime_reqs=set(rnd.sample(["r1", "r2.x", "prelude", "zz"], rnd.randint(0, 3))))
    params_pool = [T.TypeTypeParam(A), T.TypeTypeParam(C), T.BoundedNatParam(5), T.BoundedNatParam(None), T.StringParam(), T.ListParam(T.TypeTypeParam(A)), T.TupleParam([T.StringParam(), T.BoundedNatParam(2)])]
    for i in range(rnd.randint(0, 3)):
        ps = [rnd.choice(params_pool) for _ in range(rnd.randint(0, 3))]
        tidx = [j for j, p in enumerate(ps) if isinstance(p, T.TypeTypeParam)]
        bound = FromParamsBound(rnd.sample(tidx, rnd.randint(0, len(tidx)))) if rnd.random() < 0.5 else ExplicitBound(rnd.choice([A, C]))
        e.add_type_def(TypeDef(f"T{i}", rnd.choice(["", "a type", "ünï"]), ps, bound))
    tys_pool = [T.Bool, T.Qubit, T.Unit, T.Variable(0, A), T.Tuple(T.Bool, T.Qubit), T.Option(T.Bool), T.FunctionType([T.Bool], [T.Bool], ["q"]), T.USize()]
    for i in range(rnd.randint(0, 4)):
        kind = rnd.choice(["mono", "poly", "binary", "binary+sig"])
        reqs = rnd.sample(["e1", "e2.b", "zeta", "alpha", name, "m.n", "k"], rnd.randint(0, 5))
        ft = T.FunctionType([rnd.choice(tys_pool) for _ in range(rnd.randint(0, 2))], [rnd.choice(tys_pool) for _ in range(rnd.randint(0, 2))], reqs)
        if kind == "mono":
            sig = OpDefSig(ft)
        elif kind == "poly":
            sig = OpDefSig(T.PolyFuncType([rnd.choice(params_pool) for _ in range(rnd.randint(1, 2))], ft))
        elif kind == "binary":
            sig = OpDefSig(None, binary=True)
        else:
            sig = OpDefSig(T.PolyFuncType([], ft), binary=True)
        e.add_op_def(OpDef(f"op{i}", sig, rnd.choice(["", "does it"]), rnd.choice([{}, {"k": 1}, {"a": [1, {"b": None}], "s": "x"}])))
    for i in range(rnd.randint(0, 2)):
        e.add_extension_value(ExtensionValue(f"v{i}", rnd.choice([V.TRUE, V.Tuple(V.TRUE, V.FALSE), IntVal(3, 4).to_value(), V.Some(V.TRUE), V.UnitSum(1, 3)])))
    return e


def compare(e):
    """None or the first difference after a serialize / load cycle."""
    from hugr.ext import Extension
    s1 = e.to_json()
    try:
        e2 = Extension.from_json(s1)
    except Exception as ex:  # noqa: BLE001
        return f"from_json(to_json()) raised {type(ex).__name__}: {str(ex)[:80]}"
    if (e2.name, str(e2.version), set(e2.runtime_reqs)) != (e.name, str(e.version), set(e.runtime_reqs)):
        return f"name / version / requirements: {(e2.name, str(e2.version), sorted(e2.runtime_reqs))} != {(e.name, str(e.version), sorted(e.runtime_reqs))}"
    if list(e2.types) != list(e.types) or list(e2.operations) != list(e.operations) or list(e2.values) != list(e.values):
        return "definition names differ"
    for k, t in e.types.items():
        u = e2.types[k]
        if (u.name, u.description, u.params, u.bound) != (t.name, t.description, t.params, t.bound) or u.get_extension() is not e2:
            return f"type definition {k}: {(u.description, u.params, u.bound)} != {(t.description, t.params, t.bound)}"
    for k, o in e.operations.items():
        p = e2.operations[k]
        if p.get_extension() is not e2:
            return f"operation {k}: owner is not the loaded extension"
        if (p.name, p.description, p.misc, p.signature.binary) != (o.name, o.description, o.misc, o.signature.binary):
            return f"operation {k}: description / misc / binary flag differ: {(p.description, p.misc, p.signature.binary)}"
        if (p.signature.poly_func is None) != (o.signature.poly_func is None):
            return f"operation {k}: signature presence differs"
        if o.signature.poly_func is not None:
            a, b = o.signature.poly_func, p.signature.poly_func
            if (a.params, a.body.input, a.body.output, a.body.runtime_reqs) != (b.params, b.body.input, b.body.output, b.body.runtime_reqs):
                return f"operation {k}: signature differs: reqs {b.body.runtime_reqs} vs {a.body.runtime_reqs}"
            if e.name not in a.body.runtime_reqs or e2.name not in b.body.runtime_reqs:
                return f"operation {k}: extension not among the runtime requirements"
    for k, v in e.values.items():
        w = e2.values[k]
        # values are compared by their encoded form (an extension type decodes in its opaque form: C05)
        if w.name != v.name or json.loads(w.val._to_serial_root().model_dump_json()) != json.loads(v.val._to_serial_root().model_dump_json()) or w.get_extension() is not e2:
            return f"value {k} differs"
    d1, d2 = json.loads(s1), json.loads(e2.to_json())
    for d in (d1, d2):
        d["runtime_reqs"] = sorted(d["runtime_reqs"])     # a set in the schema (uniqueItems)
    if d1 != d2:
        return "re-serialization gives a different document"
    return None


def run_range(lo, hi):
    out = []
    for seed in range(lo, hi):
        try:
            e = gen_ext(seed)
        except Exception as ex:  # noqa: BLE001
            out.append((seed, f"constructing the extension raised {type(ex).__name__}: {str(ex)[:80]}"))
            continue
        why = compare(e)
        if why:
            out.append((seed, why))
    return out


def main():
    if len(sys.argv) > 1 and sys.argv[1] == "--range":
        print("RANGE-JSON " + json.dumps(run_range(int(sys.argv[2]), int(sys.argv[3]))))
        return
    tier = os.environ.get("VERIF_TIER", "quick")
    seed0 = int(os.environ.get("VERIF_SEED", "0") or 0)
    t0 = time.time()
    runs = 400 if tier == "quick" else 4000
    hash_seeds = ["0", "1", "7"] if tier == "quick" else ["0", "1", "2", "3", "7", "11"]
    bad = []
    ev = 0
    for hs in hash_seeds:
        env = dict(os.environ, PYTHONHASHSEED=hs)
        p = subprocess.run([sys.executable, "-m", "bounded.c10", "--range", str(seed0 * 100000), str(seed0 * 100000 + runs)], capture_output=True, text=True, env=env, cwd=os.path.dirname(os.path.dirname(os.path.abspath(__file__))))
        lines = [l for l in p.stdout.splitlines() if l.startswith("RANGE-JSON ")]
        if not lines:
            bad.append((None, hs, "sub-run failed: " + (p.stderr or p.stdout)[-200:]))
            continue
        ev += runs
        for seed, why in json.loads(lines[-1][len("RANGE-JSON "):]):
            bad.append((seed, hs, why))
    violations, seen = [], set()
    for seed, hs, why in bad:
        key = why.split(":")[0][:30]
        if key in seen or len(violations) >= 5:
            continue
        seen.add(key)
        script = write_replay_script("C10", f"bounded_{len(violations)}", f"extension seed {seed}, PYTHONHASHSEED={hs}: {why}", f"""
import subprocess
if os.environ.get("PYTHONHASHSEED") != {hs!r}:
    sys.exit(subprocess.run([sys.executable, __file__], env=dict(os.environ, PYTHONHASHSEED={hs!r})).returncode)
from bounded.c10 import gen_ext, compare
e = gen_ext({seed})
print(e.to_json()[:600])
why = compare(e)
print("result:", why)
sys.exit(1 if why else 0)
""")
        violations.append({"clause": "extension round trip: " + why[:100], "replay": script})
    emit({
        "name": "bounded.c10",
        "kind": "seeded random extensions, serialized / loaded / compared field by field and as documents, under several hash seeds",
        "bound": f"{runs} extensions x hash seeds {hash_seeds}: up to 3 type definitions (explicit / from-params bounds), 4 operation definitions (mono / poly / binary, up to 5 runtime requirements), 2 values, pre-release versions",
        "exhaustive": False,
        "evaluations": ev,
        "distinct_nontrivial": runs,
        "rule": "evaluation = one extension through to_json / from_json / to_json",
        "samples": [{"seed": seed0 * 100000 + i} for i in range(3)],
        "violations": violations,
        "wall_s": round(time.time() - t0, 2),
    })


if __name__ == "__main__":
    main()
