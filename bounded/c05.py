"""Bounded stand-in / differential check for C05: every class of the data model over small
attribute values is encoded, decoded and re-encoded on the real pydantic stack.  Checks: same
document, attribute-by-attribute equality (dataclass fields read by reflection, so a field added
later is part of the check), same derived facts; sugar = general forms; foreign documents
(schema-valid, hand-written) keep nodes, attributes, null-offset order edges and metadata."""
import dataclasses
import itertools
import json
import os
import time

from bounded.util import emit, write_replay_script


def doc(m):
    return json.loads(m.model_dump_json())


def main():
    tier = os.environ.get("VERIF_TIER", "quick")
    t0 = time.time()
    import hugr.ops as O
    import hugr.tys as T
    import hugr.val as V
    import hugr._serialization.ops as SO
    import hugr._serialization.tys as ST
    from hugr.hugr.node_port import InPort, Node, OutPort
    from hugr.std.collections.array import Array, ArrayVal
    from hugr.std.collections.list import List, ListVal
    from hugr.std.float import FLOAT_T, FloatVal
    from hugr.std.int import INT_T, IntVal, DivMod, int_t
    from hugr.std.logic import Not
    from hugr.std.prelude import STRING_T, StringVal
    C, A = T.TypeBound.Copyable, T.TypeBound.Any
    violations, samples = [], []
    ev = 0
    n0 = Node(0)

    def fail(clause, what):
        script = write_replay_script("C05", f"bounded_{len(violations)}", what, f"\nprint({what!r})\nsys.exit(1)\n")
        if len(violations) < 14:
            violations.append({"clause": clause, "replay": script})

    # ---- parameters and arguments
    params = [T.TypeTypeParam(C), T.TypeTypeParam(A), T.BoundedNatParam(7), T.BoundedNatParam(None), T.StringParam(), T.ExtensionsParam(),
              T.ListParam(T.TypeTypeParam(A)), T.TupleParam([T.StringParam(), T.BoundedNatParam(3)]), T.ListParam(T.TupleParam([]))]
    for p in params:
        ev += 1
        s = p._to_serial_root()
        q = ST.TypeParam.model_validate_json(s.model_dump_json()).deserialize()
        if q != p or doc(q._to_serial_root()) != doc(s):
            fail("type parameter round trip", f"{p!r} -> {q!r}")
    atoms = [T.Bool, T.Unit, T.Qubit, T.USize(), T.Variable(1, C), T.RowVariable(0, A), T.Alias("al", A), T.Opaque("op", C, [T.BoundedNatArg(3)], "ext"),
             INT_T, FLOAT_T, T.FunctionType([T.Bool], [T.Qubit], ["e1"]), T.Sum([[T.Bool], [], [T.Qubit, T.Bool]]), T.UnitSum(3), T.Sum([])]
    lvl1 = []
    for a, b in itertools.product(atoms[:8], repeat=2):
        lvl1 += [T.Tuple(a, b), T.Either([a], [b]), T.FunctionType([a, b], [b]), T.Sum([[a], [b, a]])]
    for a in atoms:
        lvl1 += [T.Option(a), T.Tuple(a), Array(a, 2), List(a), T.Opaque("o2", A, [T.TypeTypeArg(a), T.SequenceArg([T.TypeTypeArg(a), T.StringArg("s")])], "e")]
    types = atoms + lvl1

    def deep(x):
        """extension types in their opaque form, at every depth"""
        if isinstance(x, T.ExtType):
            o = x._to_opaque()
            return T.Opaque(o.id, o.bound, [deep(a) for a in o.args], o.extension)
        if isinstance(x, T.Opaque):
            return T.Opaque(x.id, x.bound, [deep(a) for a in x.args], x.extension)
        if isinstance(x, T.UnitSum):
            return x
        if isinstance(x, T.Sum):
            return T.Sum([[deep(t) for t in r] for r in x.variant_rows])
        if isinstance(x, T.FunctionType):
            return T.FunctionType([deep(t) for t in x.input], [deep(t) for t in x.output], list(x.runtime_reqs))
        if isinstance(x, T.PolyFuncType):
            return T.PolyFuncType(list(x.params), deep(x.body))
        if isinstance(x, T.TypeTypeArg):
            return T.TypeTypeArg(deep(x.ty))
        if isinstance(x, T.SequenceArg):
            return T.SequenceArg([deep(e) for e in x.elems])
        return x

    def type_equiv(a, b):
        return deep(a) == deep(b)
    for t in types:
        ev += 1
        s = t._to_serial_root()
        u = ST.Type.model_validate_json(s.model_dump_json()).deserialize()
        ok = type_equiv(u, t) and doc(u._to_serial_root()) == doc(s) and u.type_bound() == t.type_bound()
        if isinstance(t, T.Sum) and type(t) is not T.Sum:
            ok = ok and t == T.Sum(t.variant_rows) and T.Sum(t.variant_rows).type_bound() == t.type_bound()   # sugar = general form
        if not ok:
            fail("type round trip / sugar = general form", f"{t!r} -> {u!r}")
        elif len(samples) < 3 and isinstance(t, T.Either):
            samples.append({"type": repr(t)[:80], "doc": json.dumps(doc(s))[:120]})
    from bounded.reuse import iterable_constructor_checks
    ev += iterable_constructor_checks(fail, doc)
    args = [T.TypeTypeArg(T.Bool), T.BoundedNatArg(5), T.StringArg("x"), T.ExtensionsArg(["a", "b"]), T.VariableArg(2, T.BoundedNatParam(4)),
            T.SequenceArg([T.TypeTypeArg(T.Qubit), T.BoundedNatArg(1)]), T.SequenceArg([]), T.TypeTypeArg(T.Tuple(T.Bool, INT_T))]
    for a in args:
        ev += 1
        s = a._to_serial_root()
        b = ST.TypeArg.model_validate_json(s.model_dump_json()).deserialize()
        if not type_equiv(a, b):
            fail("type argument round trip", f"{a!r} -> {b!r}")
        if doc(b._to_serial_root()) != doc(s):
            fail("type argument re-encodes differently", f"{a!r}")
    # ---- values
    from hugr.build.dfg import Dfg
    fd = Dfg(T.Bool)
    fd.set_outputs(*fd.inputs())
    vals = [V.TRUE, V.Unit, V.UnitSum(2, 4), V.Tuple(V.TRUE, V.FALSE), V.Some(V.TRUE), V.None_(T.Bool), V.Left([V.TRUE], [T.Qubit]), V.Right([T.Bool], [V.Unit]),
            V.Sum(1, T.Sum([[T.Qubit], [T.Bool]]), [V.TRUE]), IntVal(7, 3), FloatVal(0.5), StringVal("h"), ArrayVal([V.TRUE, V.FALSE], T.Bool), ListVal([IntVal(1)], INT_T),
            V.Extension("n", T.Opaque("o", C), {"k": [1, 2]}, ["x"]), V.Tuple(V.Tuple(), V.Some(IntVal(2))), V.Function(fd.hugr)]
    for v in vals:
        ev += 1
        s = v._to_serial_root()
        w = SO.Value.model_validate_json(s.model_dump_json()).deserialize()
        ok = doc(w._to_serial_root()) == doc(s) and type_equiv(w.type_(), v.type_())
        if isinstance(v, V.Sum):
            ok = ok and isinstance(w, V.Sum) and w.tag == v.tag and type_equiv(w.typ, v.typ) and [doc(x._to_serial_root()) for x in w.vals] == [doc(x._to_serial_root()) for x in v.vals]
            ok = ok and v == V.Sum(v.tag, v.typ, v.vals)
        if not ok:
            fail("value round trip / sugar = general sum", f"{v!r} -> {w!r}")
    # ---- operations: all 21 serialized kinds (+ sugar, AsExtOps)
    B, Q = T.Bool, T.Qubit
    poly = T.PolyFuncType([T.TypeTypeParam(A), T.BoundedNatParam(3)], T.FunctionType([T.Variable(0, A)], [T.Variable(0, A)], ["r"]))
    ops_list = [
        O.Module(), O.Input([B, Q]), O.Output([Q]), O.DFG([B], [Q], ["ed"]), O.CFG([B], [B, Q]), O.Conditional(T.Sum([[B], []]), [Q], [B]),
        O.Case([B, Q], [B]), O.TailLoop([B], [Q], [B], ["tl"]), O.DataflowBlock([B], T.Sum([[B], [Q]]), [Q], ["bd"]), O.ExitBlock([B]),
        O.Tag(1, T.Sum([[B], [Q, B]])), O.Some(B, Q), O.Left(T.Either([B], [Q])), O.Right(T.Either([B], [Q])), O.Continue(T.Either([B], [Q])), O.Break(T.Either([B], [Q])),
        O.MakeTuple([B, Q]), O.UnpackTuple([B, Q]), O.Noop(B), O.Custom("myop", T.FunctionType([B], [Q], ["ex"]), "some description", "ex", [T.BoundedNatArg(2)]),
        Not, DivMod, O.Const(V.Tuple(V.TRUE, IntVal(3))), O.LoadConst(T.Tuple(B, INT_T)),
        O.Call(T.PolyFuncType([], T.FunctionType([B], [Q]))), O.Call(poly, T.FunctionType([B], [B]), [T.TypeTypeArg(B), T.BoundedNatArg(1)]),
        O.CallIndirect(T.FunctionType([B], [Q])), O.LoadFunc(poly, T.FunctionType([Q], [Q]), [T.TypeTypeArg(Q), T.BoundedNatArg(0)]),
        O.FuncDefn("f", [B], [], [Q]), O.FuncDefn("g", [T.Variable(0, A)], [T.TypeTypeParam(A), T.StringParam()], [T.Variable(0, A)]),
        O.FuncDecl("h", poly), O.AliasDecl("ad", C), O.AliasDefn("af", T.Tuple(B)),
    ]

    def derived(op):
        out = {}
        for name, f in (("num_out", lambda: op.num_out), ("outer", lambda: op.outer_signature() if hasattr(op, "outer_signature") else None),
                        ("inner", lambda: op.inner_signature() if hasattr(op, "inner_signature") else None)):
            try:
                out[name] = f()
            except Exception as e:  # noqa: BLE001
                out[name] = type(e).__name__
        kinds = []
        for p in [OutPort(n0, 0), InPort(n0, 0), OutPort(n0, -1), InPort(n0, 1)]:
            try:
                kinds.append(op.port_kind(p))
            except Exception as e:  # noqa: BLE001
                kinds.append(type(e).__name__)
        out["kinds"] = kinds
        return out

    def same_derived(a, b):
        def eqv(x, y):
            if isinstance(x, T.Type) or isinstance(y, T.Type):
                return isinstance(x, T.Type) and isinstance(y, T.Type) and type_equiv(x, y)
            if isinstance(x, (T.ValueKind, T.ConstKind, T.FunctionKind)):
                return type(x) is type(y) and type_equiv(x.ty, y.ty)
            if isinstance(x, list):
                return isinstance(y, list) and len(x) == len(y) and all(eqv(p, q) for p, q in zip(x, y))
            return x == y
        return all(eqv(a[k], b[k]) for k in a)

    def fields_equal(a, b):
        if type(a) is not type(b):
            return f"class {type(a).__name__} -> {type(b).__name__}"
        for f in dataclasses.fields(a):
            x, y = getattr(a, f.name), getattr(b, f.name)
            if isinstance(x, list) and isinstance(y, list) and len(x) == len(y) and all(type_equiv(p, q) if isinstance(p, T.Type) else p == q for p, q in zip(x, y)):
                continue
            if isinstance(x, T.Type) and type_equiv(x, y):
                continue
            if isinstance(x, V.Value):
                if doc(x._to_serial_root()) == doc(y._to_serial_root()):
                    continue
            if x != y:
                return f"field {f.name}: {x!r} -> {y!r}"
        return None
    for op in ops_list:
        ev += 1
        s = SO.OpType(root=op._to_serial(n0))
        op2 = SO.OpType.model_validate_json(s.model_dump_json()).root.deserialize()
        d1 = doc(s)
        d2 = doc(SO.OpType(root=op2._to_serial(n0)))
        why = None
        if d1 != d2:
            why = "re-encodes to a different document"
        elif isinstance(op, O.AsExtOp) and not isinstance(op, O.Custom):
            e = op.ext_op
            if not (isinstance(op2, O.Custom) and op2.extension == e._op_def.get_extension().name and op2.op_name == e._op_def.name and type_equiv(op2.signature, op.outer_signature())
                    and op2.args == e.args and op2.description == e._op_def.description):
                why = f"extension op comes back as {op2!r} (extension, name, signature, args, description must be kept)"
        elif isinstance(op, O.Tag) and type(op) is not O.Tag:
            g = O.Tag(op.tag, op.sum_ty)
            if not (isinstance(op2, O.Tag) and op2.tag == op.tag and op2.sum_ty == op.sum_ty and op.outer_signature() == g.outer_signature() and doc(SO.OpType(root=g._to_serial(n0))) == d1):
                why = "sugar tag differs from the general Tag"
        else:
            why = fields_equal(op, op2)
        if why is None and not same_derived(derived(op), derived(op2)) and not isinstance(op, O.AsExtOp):
            why = f"derived facts differ: {derived(op)} vs {derived(op2)}"
        if why is None and isinstance(op, O.AsExtOp):
            a, b = derived(op), derived(op2)
            if a["num_out"] != b["num_out"] or not type_equiv(a["outer"], b["outer"]):
                why = f"derived facts of extension op differ: {a} vs {b}"
        if why:
            fail("operation round trip", f"{op!r}: {why}")
    # ---- foreign documents (not produced by this library)
    f = foreign_documents()
    ev += f["evaluations"]
    for v in f["violations"]:
        fail(v[0], v[1])
    emit({
        "name": "bounded.c05",
        "kind": "small-scope enumeration of the data model on the real pydantic stack (differential check of the per-class lemmas; stands in for value / Function round trips and foreign documents)",
        "bound": f"{len(params)} params, {len(types)} types (2 levels), {len(args)} args, {len(vals)} values, {len(ops_list)} operations (all 21 serialized kinds), {f['evaluations']} foreign documents",
        "exhaustive": False,
        "evaluations": ev,
        "distinct_nontrivial": len(lvl1) + len(vals) + len(ops_list) + f["evaluations"],
        "rule": "distinct objects; non-trivial = composite types, all values, all operations, foreign documents",
        "samples": samples,
        "violations": violations,
        "wall_s": round(time.time() - t0, 2),
    })


def foreign_documents():
    """Schema-valid documents written by hand in the writer's conventions of serialize.rs: explicit
    metadata for every node, a state-order edge without port offsets, polymorphic FuncDefn,
    extension delta, description."""
    import json as _json
    from hugr.hugr import Hugr
    out = {"evaluations": 0, "violations": []}
    B = {"t": "Sum", "s": "Unit", "size": 2}
    ft = lambda i, o, r=None: {"t": "G", "input": i, "output": o, "runtime_reqs": r or []}  # noqa: E731
    docs = {
        "order edge without offsets + metadata": {
            "version": "live", "encoder": "foreign",
            "nodes": [
                {"parent": 0, "op": "DFG", "signature": ft([B], [B])},
                {"parent": 0, "op": "Input", "types": [B]},
                {"parent": 0, "op": "Output", "types": [B]},
                {"parent": 0, "op": "Extension", "extension": "logic", "name": "Not", "signature": ft([B], [B], ["logic"]), "description": "negation", "args": []},
                {"parent": 0, "op": "Extension", "extension": "logic", "name": "Not", "signature": ft([B], [B], ["logic"]), "description": "", "args": []},
            ],
            "edges": [[[1, 0], [3, 0]], [[3, 0], [4, 0]], [[4, 0], [2, 0]], [[3, None], [4, None]]],
            "metadata": [{"name": "root"}, None, None, {"k": [1, {"x": None}]}, None],
        },
        "polymorphic function, block delta": {
            "version": "live", "encoder": None,
            "nodes": [
                {"parent": 0, "op": "Module"},
                {"parent": 0, "op": "FuncDefn", "name": "poly", "signature": {"params": [{"tp": "Type", "b": "A"}], "body": ft([{"t": "V", "i": 0, "b": "A"}], [{"t": "V", "i": 0, "b": "A"}])}},
                {"parent": 1, "op": "Input", "types": [{"t": "V", "i": 0, "b": "A"}]},
                {"parent": 1, "op": "Output", "types": [{"t": "V", "i": 0, "b": "A"}]},
                {"parent": 0, "op": "FuncDecl", "name": "decl", "signature": {"params": [{"tp": "BoundedNat", "bound": 4}], "body": ft([], [B])}},
            ],
            "edges": [[[2, 0], [3, 0]]],
            "metadata": [None, {"m": 1}, None, None, None],
        },
    }
    fsig = {"params": [], "body": ft([B, B], [B, B])}
    docs["order edges at function loads, calls and constant loads"] = {
        "version": "live", "encoder": "foreign",
        "nodes": [
            {"parent": 0, "op": "Module"},
            {"parent": 0, "op": "FuncDecl", "name": "f", "signature": fsig},
            {"parent": 0, "op": "FuncDefn", "name": "main", "signature": {"params": [], "body": ft([B], [B])}},
            {"parent": 2, "op": "Input", "types": [B]},
            {"parent": 2, "op": "Output", "types": [B]},
            {"parent": 2, "op": "LoadFunction", "func_sig": fsig, "type_args": [], "instantiation": ft([B, B], [B, B])},
            {"parent": 2, "op": "Call", "func_sig": fsig, "type_args": [], "instantiation": ft([B, B], [B, B])},
            {"parent": 2, "op": "Const", "v": {"v": "Sum", "tag": 1, "typ": {"t": "Sum", "s": "Unit", "size": 2}, "vs": []}},
            {"parent": 2, "op": "LoadConstant", "datatype": B},
        ],
        "edges": [[[1, 0], [5, 0]], [[1, 0], [6, 2]], [[3, 0], [6, 0]], [[3, 0], [6, 1]], [[6, 0], [4, 0]], [[7, 0], [8, 0]],
                  [[3, None], [5, None]], [[5, None], [6, None]], [[6, None], [8, None]], [[8, None], [4, None]]],
        "metadata": [None, None, None, None, None, None, None, None, None],
    }

    def order_offsets(nd):
        """(order input offset, order output offset) of a node of the document, from its signature"""
        op = nd["op"]
        if op == "Call":
            return len(nd["instantiation"]["input"]) + 1, len(nd["instantiation"]["output"])
        if op in ("LoadFunction", "LoadConstant"):
            return 1, 1
        if op == "Extension":
            return len(nd["signature"]["input"]), len(nd["signature"]["output"])
        if op == "Input":
            return 0, len(nd["types"])
        if op == "Output":
            return len(nd["types"]), 0
        return None, None
    for name, d in docs.items():
        out["evaluations"] += 1
        try:
            h = Hugr.load_json(_json.dumps(d))
            d2 = _json.loads(h.to_json())
        except Exception as e:  # noqa: BLE001
            out["violations"].append(("foreign document", f"{name}: {type(e).__name__}: {e}"))
            continue
        why = None
        if len(d2["nodes"]) != len(d["nodes"]):
            why = "node count"
        else:
            for a, b in zip(d["nodes"], d2["nodes"]):
                for k, v in a.items():
                    if b.get(k) != v and not (k == "signature" and _sig_eq(b.get(k), v)):
                        why = f"node attribute {k}: {v!r} -> {b.get(k)!r}"
        want_edges = sorted(_json.dumps(e) for e in d["edges"] if e[0][1] is not None)
        got_edges = sorted(_json.dumps(e) for e in d2["edges"])
        n_order = len([e for e in d["edges"] if e[0][1] is None])
        if why is None and len(got_edges) != len(d["edges"]):
            why = f"edge count {len(got_edges)} != {len(d['edges'])} (state-order edges written without offsets must be kept)"
        if why is None and not set(want_edges) <= set(got_edges):
            why = "value edges changed"
        if why is None and n_order:
            order = [(s.idx, t.idx) for s in h for t in h.outgoing_order_links(s)]
            if len(order) != n_order:
                why = f"order links after load: {order}"
        if why is None and n_order:
            # re-saved state-order edges: without offsets, or at the port after the signature's ports of both operations
            want_order = sorted((e[0][0], e[1][0]) for e in d["edges"] if e[0][1] is None)
            got_order = []
            for (sn, so), (tn, to) in d2["edges"]:
                if _json.dumps([[sn, so], [tn, to]]) in want_edges:
                    continue
                if so is None and to is None:
                    got_order.append((sn, tn))
                elif order_offsets(d["nodes"][sn])[1] == so and order_offsets(d["nodes"][tn])[0] == to:
                    got_order.append((sn, tn))
                else:
                    why = f"state-order edge {sn} -> {tn} re-saved at offsets ({so}, {to}), the signatures put the order ports at ({order_offsets(d['nodes'][sn])[1]}, {order_offsets(d['nodes'][tn])[0]})"
            if why is None and sorted(got_order) != want_order:
                why = f"state-order edges {want_order} re-saved as {sorted(got_order)}"
        md = [m or None for m in d2.get("metadata") or []]
        if why is None and md != [m or None for m in d["metadata"]]:
            why = f"metadata {d['metadata']!r} -> {d2.get('metadata')!r}"
        if why:
            out["violations"].append(("foreign document is not preserved", f"{name}: {why}"))
    return out


def _sig_eq(a, b):
    return a == b


if __name__ == "__main__":
    main()
