"""Seeded generators of HUGRs for the bounded stand-ins (C02, C03, C01, C12, C20): well-formed
builder programs over all builder kinds, followed by mutation histories through the public graph
API (deletions, index reuse, insertions, extra links).  Runs under /venv/bin/python on the real code.

gen(rnd) -> (hugr, info)   info["tame"]: links attach only to ports the operations have
                           info["program"]: name of the builder program, info["history"]: mutation log
"""
import random


def jsonish(rnd, depth=0):
    c = rnd.random()
    if depth > 2 or c < 0.5:
        return rnd.choice([None, True, False, 0, 7, -3, 1.5, "", "s", "ünï", [], {}])
    if c < 0.75:
        return [jsonish(rnd, depth + 1) for _ in range(rnd.randint(0, 3))]
    return {rnd.choice(["a", "b", "k y", ""]): jsonish(rnd, depth + 1) for _ in range(rnd.randint(0, 3))}


def meta(rnd):
    if rnd.random() < 0.5:
        return None
    return {rnd.choice(["name", "m", "x.y", "0"]): jsonish(rnd) for _ in range(rnd.randint(0, 2))}


# ------------------------------------------------------------------------------------------ programs
def prog_dfg(rnd):
    import hugr.ops as O
    import hugr.tys as T
    import hugr.val as V
    from hugr.build.dfg import Dfg
    from hugr.std.int import INT_T, DivMod, IntVal
    d = Dfg(T.Bool, INT_T)
    b, i = d.inputs()
    n1 = d.add_op(O.Noop(), b, metadata=meta(rnd))
    dm = d.add(DivMod(i, i), metadata=meta(rnd))
    use = rnd.choice([0, 1, 2])          # which outputs of the two-output op are used
    outs = [n1]
    if use in (0, 2):
        outs.append(dm[0])
    if use in (1, 2):
        outs.append(dm[1])
    if rnd.random() < 0.5:
        d.add_state_order(dm, d.output_node)     # order edge at a partially connected node
    if rnd.random() < 0.6:
        with d.add_nested(n1) as inner:
            (x,) = inner.inputs()
            k = inner.add_op(O.Noop(), i)        # non-local edge: the builder adds an order edge
            inner.set_outputs(x, k)
        outs += [inner[0], inner[1]]
    if rnd.random() < 0.6:
        v = rnd.choice([IntVal(3, 5), V.TRUE, V.Tuple(V.TRUE, IntVal(1)), V.Some(IntVal(2)), V.None_(INT_T), V.Left([V.TRUE], [INT_T]), V.UnitSum(1, 3)])
        outs.append(d.load(v))
    if rnd.random() < 0.3:
        # an extension constant whose payload is null, of an opaque type
        ot = T.Opaque("thing", T.TypeBound.Copyable, [T.BoundedNatArg(2)], "my.ext")
        outs.append(d.load(V.Extension("blank", ot, None, ["my.ext"])))
    if rnd.random() < 0.3:
        f = Dfg(T.Qubit)
        f.set_outputs(f.add(O.Noop()(f.input_node[0])))
        outs.append(d.load(V.Function(f.hugr)))
    if rnd.random() < 0.4:
        t = d.add(O.MakeTuple()(n1, i))
        u = d.add(O.UnpackTuple()(t))
        outs += [u[0], u[1]]
    d.set_outputs(*outs)
    return d.hugr


def prog_cfg(rnd):
    import hugr.ops as O
    import hugr.tys as T
    import hugr.val as V
    from hugr.build.cfg import Cfg
    from hugr.std.int import INT_T, DivMod, IntVal
    kind = rnd.choice(["basic", "branch", "dom", "asymm", "nested"])
    if kind == "basic":
        cfg = Cfg(T.Bool)
        with cfg.add_entry() as entry:
            entry.set_single_succ_outputs(*entry.inputs())
        cfg.branch(entry[0], cfg.exit)
        return cfg.hugr
    if kind == "branch":
        cfg = Cfg(T.Bool, INT_T)
        entry = cfg.add_entry()
        entry.set_block_outputs(*entry.inputs())
        m1 = cfg.add_successor(entry[0])
        m1.set_single_succ_outputs(*m1.inputs())
        m2 = cfg.add_successor(entry[1])
        (i,) = m2.inputs()
        n = m2.add(DivMod(i, i))
        m2.set_single_succ_outputs(n[0])
        cfg.branch_exit(m1[0])
        cfg.branch_exit(m2[0])
        return cfg.hugr
    if kind == "dom":
        cfg = Cfg(T.Bool, T.Unit, INT_T)
        with cfg.add_entry() as entry:
            b, u, i = entry.inputs()
            entry.set_block_outputs(b, i)
        with cfg.add_successor(entry[0]) as m1:
            m1.set_block_outputs(u, *m1.inputs())
        with cfg.add_successor(entry[1]) as m2:
            m2.set_block_outputs(u, *m2.inputs())
        cfg.branch_exit(m1[0])
        cfg.branch_exit(m2[0])
        return cfg.hugr
    if kind == "asymm":
        with Cfg() as cfg:
            with cfg.add_entry() as entry:
                il = entry.load(IntVal(34))
                st = T.Sum([[INT_T], [T.Bool]])
                entry.set_block_outputs(entry.add(O.Tag(0, st)(il)))
            with cfg.add_successor(entry[0]) as middle:
                middle.set_single_succ_outputs(middle.load(V.TRUE))
            cfg.branch_exit(entry[1])
            cfg.branch_exit(middle[0])
        return cfg.hugr
    from hugr.build.dfg import Dfg
    d = Dfg(T.Bool)
    cfg = d.add_cfg(*d.inputs())
    with cfg.add_entry() as entry:
        entry.set_single_succ_outputs(*entry.inputs())
    cfg.branch(entry[0], cfg.exit)
    d.set_outputs(cfg)
    return d.hugr


def prog_cond(rnd):
    import hugr.ops as O
    import hugr.tys as T
    import hugr.val as V
    from hugr.build.cond_loop import Conditional
    from hugr.build.dfg import Dfg
    from hugr.std.int import INT_T, IntVal
    either = T.Either([T.Qubit], [T.Qubit, INT_T])

    def build_cond(h):
        with h.add_case(0) as case:
            q, b = case.inputs()
            case.set_outputs(q, b)
        with h.add_case(1) as case:
            q, _i, b = case.inputs()
            case.set_outputs(q, b)
    kind = rnd.choice(["root", "nested", "inserted", "ifelse"])
    if kind == "root":
        h = Conditional(either, [T.Bool])
        build_cond(h)
        return h.hugr
    d = Dfg(T.Qubit)
    (q,) = d.inputs()
    if kind == "ifelse":
        with d.add_if(d.load(V.TRUE), q) as if_:
            if_.set_outputs(if_.add(O.Noop()(if_.input_node[0])))
        with if_.add_else() as else_:
            else_.set_outputs(else_.input_node[0])
        d.set_outputs(else_.conditional_node)
        return d.hugr
    tq = d.add(O.Left(either)(q))
    if kind == "nested":
        with d.add_conditional(tq, d.load(V.TRUE)) as cond:
            build_cond(cond)
        d.set_outputs(*cond[:2])
    else:
        con = Conditional(either, [T.Bool])
        build_cond(con)
        cn = d.insert_conditional(con, tq, d.load(V.TRUE))
        d.set_outputs(*cn[:2])
    return d.hugr


def prog_loop(rnd):
    import hugr.ops as O
    import hugr.tys as T
    import hugr.val as V
    from hugr.build.cond_loop import TailLoop
    from hugr.build.dfg import Dfg
    from hugr.std.int import INT_T, IntVal
    either = T.Either([T.Qubit], [T.Qubit, INT_T])
    d = Dfg(T.Qubit)
    (q,) = d.inputs()
    if rnd.random() < 0.5:
        with d.add_tail_loop([q], [d.load(V.TRUE)]) as tl:
            q2, b = tl.inputs()
            with tl.add_if(b, q2) as if_:
                (q3,) = if_.inputs()
                if_.set_outputs(if_.add(O.Continue(either)(q3)))
            with if_.add_else() as else_:
                (q3,) = else_.inputs()
                else_.set_outputs(else_.add(O.Break(either)(q3, else_.load(IntVal(1)))))
            tl.set_loop_outputs(else_.conditional_node, b)
        d.set_outputs(*tl[:3])
    else:
        tl = TailLoop([T.Bool], [T.Qubit])
        j, r = tl.inputs()
        t = tl.add_op(O.Tag(0, T.Sum([[T.Bool], []])), j)
        tl.set_loop_outputs(t, r)
        n = d.insert_tail_loop(tl, [d.load(V.TRUE)], [q])
        d.set_outputs(n[0])
    return d.hugr


def prog_module(rnd):
    import hugr.ops as O
    import hugr.tys as T
    import hugr.val as V
    from hugr.build.function import Module
    from hugr.std.int import INT_T, IntVal
    A, C = T.TypeBound.Any, T.TypeBound.Copyable
    mod = Module()
    if rnd.random() < 0.5:
        mod.metadata["name"] = "mod"
    f_decl = mod.declare_function("id_decl", T.PolyFuncType([T.TypeTypeParam(A)], T.FunctionType.endo([T.Variable(0, A)])))
    extra_params = rnd.choice([[], [T.BoundedNatParam(4)], [T.BoundedNatParam(None)]])       # incl. a bounded-nat parameter without an upper bound
    f_poly = mod.define_function("id_poly", [T.Variable(0, C)], type_params=[T.TypeTypeParam(C)] + extra_params)
    f_poly.set_outputs(f_poly.input_node[0])
    f_mono = mod.define_function("two", [T.Bool], [T.Bool, T.Bool] if rnd.random() < 0.5 else None)
    f_mono.set_outputs(f_mono.input_node[0], f_mono.input_node[0])
    if rnd.random() < 0.5:
        mod.add_alias_defn("al", T.Bool)
        mod.add_alias_decl("ad", A)
    c = mod.add_const(IntVal(7, 4)) if rnd.random() < 0.5 else None
    main = mod.define_main([T.Qubit, T.Bool])
    q, b = main.inputs()
    outs = []
    call1 = main.call(f_decl, q, instantiation=T.FunctionType.endo([T.Qubit]), type_args=[T.Qubit.type_arg()])
    outs.append(call1)
    targs = [T.Bool.type_arg()] + ([T.BoundedNatArg(2)] if len(mod.hugr[f_poly.parent_node].op.params) == 2 else [])
    call2 = main.call(f_poly, b, instantiation=T.FunctionType.endo([T.Bool]), type_args=targs)
    call3 = main.call(f_mono, call2)
    outs += [call3[0]] if rnd.random() < 0.5 else [call3[0], call3[1]]
    if rnd.random() < 0.6:
        main.add_state_order(call1, call3)
    if rnd.random() < 0.6:
        load = main.load_function(f_mono)
        ci = main.add(O.CallIndirect()(load, b))
        outs.append(ci[1])
        if rnd.random() < 0.5:
            main.add_state_order(load, main.output_node)
    if rnd.random() < 0.5:
        # a polymorphic function loaded at an instantiation and called indirectly
        lp = main.load_function(f_decl, instantiation=T.FunctionType.endo([T.Bool]), type_args=[T.Bool.type_arg()])
        outs.append(main.add(O.CallIndirect()(lp, b))[0])
    if c is not None:
        outs.append(main.load(c))
    if rnd.random() < 0.4:
        rec = mod.define_function("recurse", [T.Qubit])
        rec.declare_outputs([T.Qubit])
        rec.set_outputs(rec.call(rec, rec.input_node[0]))
    main.set_outputs(*outs)
    return mod.hugr


def prog_tracked(rnd):
    import hugr.ops as O
    import hugr.tys as T
    from hugr.build.tracked_dfg import TrackedDfg
    from hugr.std.logic import Not
    d = TrackedDfg(T.Bool, T.Bool, track_inputs=True)
    for _ in range(rnd.randint(1, 4)):
        d.add(Not(rnd.choice([0, 1])), metadata=meta(rnd))
    if rnd.random() < 0.5:
        d.untrack_wire(1)
    d.set_tracked_outputs()
    return d.hugr


def prog_custom(rnd):
    import hugr.ops as O
    import hugr.tys as T
    from hugr.build.dfg import Dfg
    d = Dfg(T.Bool, T.Qubit)
    b, q = d.inputs()
    sig = T.FunctionType([T.Bool, T.Qubit], [T.Qubit, T.Bool, T.Bool], runtime_reqs=rnd.choice([[], ["ext.a"], ["ext.a", "ext.b"]]))
    op = O.Custom("weird", sig, extension="ext.a", args=rnd.choice([[], [T.BoundedNatArg(3)], [T.TypeTypeArg(T.Bool), T.StringArg("s")]]),
                  description=rnd.choice(["", "does things"]))
    n = d.add(op(b, q), metadata=meta(rnd))
    inner_sig = (([T.Bool], [T.Bool], rnd.choice([[], ["ext.d"]])))
    dn = d.hugr.add_node(O.DFG(inner_sig[0], inner_sig[1], inner_sig[2]), d.parent_node, num_outs=1)
    i_n = d.hugr.add_node(O.Input([T.Bool]), dn, num_outs=1)
    o_n = d.hugr.add_node(O.Output([T.Bool]), dn)
    d.hugr.add_link(i_n.out(0), o_n.inp(0))
    d.hugr.add_link(n.out(1), dn.inp(0))
    outs = [n[0], dn.out(0)]
    if rnd.random() < 0.5:
        outs.append(n[2])
        d.add_state_order(n, d.output_node)
    d.set_outputs(*outs)
    return d.hugr


PROGRAMS = [("dfg", prog_dfg), ("cfg", prog_cfg), ("cond", prog_cond), ("loop", prog_loop), ("module", prog_module), ("tracked", prog_tracked), ("custom", prog_custom)]


# ------------------------------------------------------------------------------------------ mutations
def subtree(h, n):
    out = [n]
    for c in h[n].children:
        out += subtree(h, c)
    return out


def mutate(h, rnd, steps, wild):
    """Mutation history through the public graph API.  Tame steps keep every link on a port the
    operation has; wild ones add arbitrary links / nodes."""
    import hugr.ops as O
    import hugr.tys as T
    from hugr.build.dfg import Dfg
    log = []
    tame = True
    for _ in range(steps):
        live = [n for n in h]
        c = rnd.random()
        if c < 0.35:
            # delete a whole subtree (children first), not the root, not Input/Output-like first children of a kept parent
            cands = [n for n in live if n != h.root and h[n].parent is not None and h[h[n].parent].children.index(n) >= 2]
            if not cands:
                continue
            n = rnd.choice(cands)
            for x in reversed(subtree(h, n)):
                h.delete_node(x)
            log.append(("delete_subtree", n.idx))
        elif c < 0.7:
            # insert a small graph: reuses freed indices (LIFO), so children may get smaller indices than parents / earlier siblings
            parents = [n for n in live if isinstance(h[n].op, (O.DFG, O.FuncDefn, O.Case, O.DataflowBlock, O.TailLoop))]
            if not parents:
                continue
            p = rnd.choice(parents)
            small = Dfg(T.Bool)
            k = small.add_op(O.Noop(), small.inputs()[0], metadata=meta(rnd))
            if rnd.random() < 0.5:
                small.add_state_order(small.input_node, k)
            small.set_outputs(k)
            m = h.insert_hugr(small.hugr, p)
            log.append(("insert_dfg", p.idx, sorted(v.idx for v in m.values())))
        elif c < 0.8:
            n = rnd.choice(live)
            h[n].metadata[rnd.choice(["m", "z"])] = jsonish(rnd)
            log.append(("metadata", n.idx))
        elif wild:
            tame = False
            if rnd.random() < 0.5:
                a, b = rnd.choice(live), rnd.choice(live)
                h.add_link(a.out(rnd.choice([0, 1, 3])), b.inp(rnd.choice([0, 2])))
                log.append(("add_link", a.idx, b.idx))
            elif rnd.random() < 0.5:
                a, b = rnd.choice(live), rnd.choice(live)
                if rnd.random() < 0.5:
                    h.add_order_link(a, b)
                    log.append(("add_order_link", a.idx, b.idx))
                else:
                    k = rnd.choice([1, 2])
                    for _ in range(k):
                        h.add_link(a.out(-1), b.inp(-1))       # parallel order links
                    log.append(("raw_order_links", a.idx, b.idx, k))
            else:
                p = rnd.choice(live)
                n = h.add_node(O.Noop(T.Bool), p, num_outs=rnd.choice([None, 1, 2]), metadata=meta(rnd))
                log.append(("add_node", p.idx, n.idx))
    return log, tame


def gen(seed, wild_ok=True):
    rnd = random.Random(seed)
    name, prog = rnd.choice(PROGRAMS)
    h = prog(rnd)
    steps = rnd.choice([0, 0, 1, 2, 4, 6])
    wild = wild_ok and rnd.random() < 0.3
    log, tame = mutate(h, rnd, steps, wild)
    # link deletions, drawn from a stream of their own (the histories above stay what they were): prefer a
    # link that is not the last one on a port carrying several, at either end
    rnd2 = random.Random(seed * 7919 + 13)
    if rnd2.random() < 0.35:
        for _ in range(rnd2.choice([1, 1, 2])):
            links = list(h.links())
            if not links:
                break
            lp = lambda p: list(h.linked_ports(p))  # noqa: E731
            multi = [(s, t) for (s, t) in links
                     if (len(lp(t)) > 1 and lp(t)[-1] != s) or (len(lp(s)) > 1 and lp(s)[-1] != t)]
            s_, t_ = rnd2.choice(multi) if multi and rnd2.random() < 0.7 else rnd2.choice(links)
            h.delete_link(s_, t_)
            log.append(("delete_link", (s_.node.idx, s_.offset), (t_.node.idx, t_.offset)))
    return h, {"program": name, "history": log, "tame": tame}
