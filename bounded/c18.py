"""Bounded stand-in / differential check for C18: exhaustive state-space exploration of the real
BiMap over a small universe that includes falsy keys and values, under the run-time contracts
and against an independent set-of-pairs model."""
import itertools
import json
import os
import sys
import time

from bounded.util import emit, write_replay_script

FILES = [os.path.join(os.path.dirname(os.path.dirname(os.path.abspath(__file__))), "contracts", "utils.py")]


def model_apply(pairs: frozenset, op):
    name, a, b = op
    if name in ("insert_left", "__setitem__"):
        k, v = a, b
    elif name == "insert_right":
        v, k = a, b
    if name in ("insert_left", "__setitem__", "insert_right"):
        return frozenset({(x, y) for (x, y) in pairs if x != k and y != v} | {(k, v)}), None
    if name in ("delete_left", "__delitem__"):
        hit = [(x, y) for (x, y) in pairs if x == a]
        if not hit:
            return pairs, KeyError
        return frozenset(pairs - set(hit)), None
    if name == "delete_right":
        hit = [(x, y) for (x, y) in pairs if y == a]
        if not hit:
            return pairs, KeyError
        return frozenset(pairs - set(hit)), None
    raise AssertionError(name)


def observe(bm, KS, VS):
    """Everything a client can see."""
    pairs = frozenset(bm.items())
    obs = {
        "pairs": pairs,
        "len": len(bm),
        "iter": frozenset(iter(bm)),
        "right": {k: bm.get_right(k) for k in KS},
        "left": {v: bm.get_left(v) for v in VS},
        "fwd": dict(bm.fwd),
        "bck": dict(bm.bck),
    }
    return obs


def consistent(obs, pairs, KS, VS):
    if obs["pairs"] != pairs or obs["len"] != len(pairs) or obs["iter"] != {k for k, _ in pairs}:
        return "items/len/iter disagree with the model"
    d = dict(pairs)
    inv = {v: k for k, v in pairs}
    for k in KS:
        if obs["right"][k] != d.get(k):
            return f"get_right({k!r})"
    for v in VS:
        if obs["left"][v] != inv.get(v):
            return f"get_left({v!r})"
    if obs["fwd"] != d or obs["bck"] != inv:
        return "fwd/bck are not exact inverses of the model"
    return None


def main():
    tier = os.environ.get("VERIF_TIER", "quick")
    t0 = time.time()
    from pyvc.rt import ContractViolation, Monitor, load_db
    import hugr.utils as U
    KS = [0, "", 1] if tier == "quick" else [0, "", (), 1]
    VS = [0, "", "a"] if tier == "quick" else [0, "", (), "a"]
    db = load_db(FILES)
    mon = Monitor(db, {"L": KS + [99], "R": VS + [99]})
    mon.install()
    ops = []
    for k in KS:
        for v in VS:
            ops += [("insert_left", k, v), ("insert_right", v, k), ("__setitem__", k, v)]
    for k in KS:
        ops += [("delete_left", k, None), ("__delitem__", k, None)]
    for v in VS:
        ops += [("delete_right", v, None)]
    violations = []
    evaluations = 0
    samples = []

    def fail(clause, history, detail):
        script = write_replay_script("C18", f"bounded_{len(violations)}", f"BiMap history {history!r}: {detail}", f"""
import hugr.utils as U
from pyvc.rt import load_db, Monitor, ContractViolation
db = load_db({FILES!r})
mon = Monitor(db, {{"L": {KS + [99]!r}, "R": {VS + [99]!r}}}); mon.install()
history = {history!r}
bm = U.BiMap()
try:
    for (name, a, b) in history:
        try:
            if name == "init":
                bm = U.BiMap(a)
            elif b is None and name in ("delete_left", "delete_right", "__delitem__"):
                getattr(bm, name)(a)
            else:
                getattr(bm, name)(a, b)
        except KeyError:
            print("KeyError from", name, a)
        except U.NotBijection:
            print("NotBijection from", name, a)
except ContractViolation as e:
    print("VIOLATED:", e); sys.exit(1)
inv = {{v: k for k, v in bm.fwd.items()}}
ok = inv == bm.bck and len(inv) == len(bm.fwd)
print("final:", bm, "bck:", bm.bck)
print("expected: {detail}")
sys.exit(0 if ok and {clause!r} == "" else 1)
""")
        violations.append({"clause": clause, "replay": script})

    # constructor: every mapping KS -> VS u {absent}
    for combo in itertools.product([None] + list(range(len(VS))), repeat=len(KS)):
        m = {k: VS[i] for k, i in zip(KS, combo) if i is not None}
        evaluations += 1
        injective = len(set(m.values())) == len(m)
        try:
            bm = U.BiMap(m if (m or evaluations % 2) else None)
            if not injective:
                fail("constructor accepts a non-injective mapping", [("init", m, None)], "NotBijection expected")
                continue
            why = consistent(observe(bm, KS, VS), frozenset(m.items()), KS, VS)
            if why:
                fail("constructor state: " + why, [("init", m, None)], why)
        except U.NotBijection:
            if injective:
                fail("constructor rejects an injective mapping", [("init", m, None)], "no exception expected")
        except ContractViolation as e:
            fail(e.clause, [("init", m, None)], str(e)[:300])
    # reachable state space
    start = frozenset()
    seen = {start: []}
    frontier = [start]
    transitions = 0
    while frontier and len(violations) < 5:
        nxt = []
        for st in frontier:
            hist = seen[st]
            for op in ops:
                bm = U.BiMap(dict(st))
                exp, exc = model_apply(st, op)
                evaluations += 1
                transitions += 1
                name, a, b = op
                got_exc = None
                try:
                    if b is None and name in ("delete_left", "delete_right", "__delitem__"):
                        getattr(bm, name)(a)
                    else:
                        getattr(bm, name)(a, b)
                except KeyError:
                    got_exc = KeyError
                except ContractViolation as e:
                    fail(e.clause, [("init", dict(st), None), op], str(e)[:300])
                    continue
                if got_exc is not exc:
                    fail(f"{name}: exception behaviour", [("init", dict(st), None), op], f"expected {exc} got {got_exc}")
                    continue
                why = consistent(observe(bm, KS, VS), exp, KS, VS)
                if why:
                    fail(f"{name}: {why}", [("init", dict(st), None), op], f"model state {sorted(map(repr, exp))}")
                    continue
                if len(samples) < 4 and exp != st:
                    samples.append({"state": sorted(map(repr, st)), "op": repr(op), "result": sorted(map(repr, exp))})
                if exp not in seen:
                    seen[exp] = hist + [op]
                    nxt.append(exp)
        frontier = nxt
    mon.uninstall()
    emit({
        "name": "bounded.c18",
        "kind": "exhaustive state-space exploration (differential check of the proof, not part of it)",
        "bound": f"keys {KS!r} x values {VS!r}; all reachable states; every operation from every state; all constructor arguments",
        "exhaustive": True,
        "evaluations": evaluations,
        "distinct_nontrivial": len(seen) + transitions,
        "states": len(seen),
        "transitions": transitions,
        "monitor": mon.stats,
        "rule": "distinct (state, operation) pairs over the finite universe; non-trivial = every pair (all are executed against the model and the run-time contracts)",
        "samples": samples,
        "violations": violations,
        "wall_s": round(time.time() - t0, 2),
    })


if __name__ == "__main__":
    main()
