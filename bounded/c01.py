"""Bounded stand-in for C01: random well-formed builder programs (every input wired once, every
non-copyable value consumed exactly once, no builder call raises) over all builder kinds; the HUGR
built - and the HUGR read back from its serialized form - must satisfy the validity rules of
specs/validate.py (the rules the statement lists, transcribed from the reference validator)."""
import os
import random
import time

from bounded.util import emit, write_replay_script


class Scope:
    """Typed wires available in one dataflow builder: local ones (any type) and copyable ones of
    enclosing scopes (usable through non-local edges)."""

    def __init__(self, builder, wires, outer=()):
        self.b = builder
        self.local = list(wires)          # [(wire, type)]
        self.outer = list(outer)          # copyable wires of enclosing regions [(wire, type)]
        self.nodes = []                   # nodes added here, in order (for state-order edges)

    def linear(self):
        import hugr.tys as T
        return [(w, t) for w, t in self.local if t.type_bound() != T.TypeBound.Copyable]

    def copyable(self, ty=None, with_outer=True):
        import hugr.tys as T
        pool = self.local + (self.outer if with_outer else [])
        return [(w, t) for w, t in pool if t.type_bound() == T.TypeBound.Copyable and (ty is None or t == ty)]

    def take(self, w):
        self.local = [(x, t) for x, t in self.local if x is not w]


def build_region(sc, rnd, depth, funcs):
    """Add a few operations to the builder of `sc`; returns nothing (sc.local holds the live wires)."""
    import hugr.ops as O
    import hugr.tys as T
    import hugr.val as V
    from hugr.build.cfg import Cfg
    from hugr.build.cond_loop import Conditional, TailLoop
    from hugr.build.dfg import Dfg
    from hugr.std.int import INT_T, DivMod, IntVal
    from hugr.std.logic import Not
    b = sc.b
    for _ in range(rnd.randint(1, 5)):
        act = rnd.random()
        bools = sc.copyable(T.Bool)
        ints = sc.copyable(INT_T)
        lin = sc.linear()
        if act < 0.12 and bools:
            w, _t = rnd.choice(bools)
            n = b.add(Not(w)) if rnd.random() < 0.5 else b.add_op(O.Noop(), w)
            sc.nodes.append(n)
            sc.local.append((n[0], T.Bool))
        elif act < 0.22 and ints:
            (x, _), (y, _) = rnd.choice(ints), rnd.choice(ints)
            (n,) = b.extend(DivMod(x, y))
            sc.nodes.append(n)
            sc.local.append((n[rnd.choice([0, 1])], INT_T))          # the other output stays unused (copyable)
        elif act < 0.30:
            v = rnd.choice([V.TRUE, IntVal(rnd.randint(0, 9), 5), V.Tuple(V.TRUE, IntVal(1, 5)), V.Some(V.TRUE), V.None_(INT_T), V.UnitSum(1, 3)])
            w = b.load(v)
            sc.nodes.append(w)
            sc.local.append((w[0] if hasattr(w, "__getitem__") else w, v.type_()))
        elif act < 0.38 and lin:
            w, t = rnd.choice(lin)
            n = b.add_op(O.Noop(), w)
            sc.take(w)
            sc.nodes.append(n)
            sc.local.append((n[0], t))
        elif act < 0.46 and len(sc.local) >= 2:
            (w1, t1), (w2, t2) = rnd.sample(sc.local, 2)
            n = b.add(O.MakeTuple()(w1, w2))
            for w, t in ((w1, t1), (w2, t2)):
                if t.type_bound() != T.TypeBound.Copyable:
                    sc.take(w)
            sc.nodes.append(n)
            if rnd.random() < 0.6:
                u = b.add(O.UnpackTuple()(n))
                sc.nodes.append(u)
                sc.local += [(u[0], t1), (u[1], t2)]
            else:
                sc.local.append((n[0], T.Tuple(t1, t2)))
        elif act < 0.54 and bools:
            w, _t = rnd.choice(bools)
            st = T.Either([T.Bool], [INT_T, T.Bool])
            n = b.add(O.Left(st)(w))
            sc.nodes.append(n)
            sc.local.append((n[0], st))
        elif act < 0.64 and depth > 0:
            # nested dataflow graph: all linear wires go in, plus some copyable; non-local use of an outer copyable wire
            ins = sc.linear() + rnd.sample(sc.copyable(with_outer=False), min(len(sc.copyable(with_outer=False)), rnd.randint(0, 2)))
            if rnd.random() < 0.5:
                with b.add_nested(*[w for w, _ in ins]) as inner:
                    isc = Scope(inner, list(zip(inner.inputs(), [t for _, t in ins])), sc.copyable())
                    build_region(isc, rnd, depth - 1, funcs)
                    finish(isc, rnd)
                node = inner
                outs_t = [t for _, t in isc.result]
            else:
                inner = Dfg(*[t for _, t in ins])
                isc = Scope(inner, list(zip(inner.inputs(), [t for _, t in ins])), [])
                build_region(isc, rnd, depth - 1, [])       # a stand-alone builder cannot see the module's functions
                finish(isc, rnd)
                node = b.insert_nested(inner, *[w for w, _ in ins])
                outs_t = [t for _, t in isc.result]
            for w, t in ins:
                if t.type_bound() != T.TypeBound.Copyable:
                    sc.take(w)
            sc.nodes.append(node.parent_node if hasattr(node, "parent_node") else node)
            sc.local += [(node[i], t) for i, t in enumerate(outs_t)]
        elif act < 0.72 and depth > 0 and bools:
            # conditional on a Bool, passing the linear wires through
            cw, _ = rnd.choice(bools)
            ins = sc.linear()
            with b.add_conditional(cw, *[w for w, _ in ins]) as cond:
                for i in (0, 1):
                    with cond.add_case(i) as case:
                        csc = Scope(case, list(zip(case.inputs(), [t for _, t in ins])), sc.copyable())
                        if rnd.random() < 0.5 and csc.outer:
                            w, t = rnd.choice(csc.outer)
                            k = case.add_op(O.Noop(), w)          # non-local edge into the case
                        case.set_outputs(*[w for w, _ in csc.local])
            for w, _t in ins:
                sc.take(w)
            sc.nodes.append(cond.parent_node)
            sc.local += [(cond[i], t) for i, (_, t) in enumerate(ins)]
        elif act < 0.75 and depth > 0 and [x for x in sc.copyable(with_outer=False) if isinstance(x[1], T.Either)]:
            # conditional on a sum whose variants have *different* rows: case i receives variant i, then the other inputs
            cw, st = rnd.choice([x for x in sc.copyable(with_outer=False) if isinstance(x[1], T.Either)])
            ins = sc.linear()
            with b.add_conditional(cw, *[w for w, _ in ins]) as cond:
                for i in (0, 1):
                    with cond.add_case(i) as case:
                        nvar = len(st.variant_rows[i])
                        cins = case.inputs()
                        if nvar and rnd.random() < 0.7:
                            case.add_op(O.Noop(), cins[rnd.randrange(nvar)])          # uses a field of its own variant
                        case.set_outputs(*cins[nvar:])
            for w, _t in ins:
                sc.take(w)
            sc.nodes.append(cond.parent_node)
            sc.local += [(cond[i], t) for i, (_, t) in enumerate(ins)]
        elif act < 0.78 and depth > 0 and bools:
            # if / else
            cw, _ = rnd.choice(bools)
            ins = sc.linear()
            with b.add_if(cw, *[w for w, _ in ins]) as if_:
                if_.set_outputs(*if_.inputs())
            with if_.add_else() as else_:
                else_.set_outputs(*else_.inputs())
            for w, _t in ins:
                sc.take(w)
            sc.nodes.append(else_.conditional_node)
            sc.local += [(else_.conditional_node[i], t) for i, (_, t) in enumerate(ins)]
        elif act < 0.84 and depth > 0:
            # tail loop: rest = linear wires; terminates immediately (Break)
            ins = sc.linear()
            st = T.Sum([[], []])
            with b.add_tail_loop([], [w for w, _ in ins]) as tl:
                t = tl.add(O.Tag(1, st)())
                tl.set_loop_outputs(t, *tl.inputs())
            for w, _t in ins:
                sc.take(w)
            sc.nodes.append(tl.parent_node)
            sc.local += [(tl[i], t) for i, (_, t) in enumerate(ins)]
        elif act < 0.90 and depth > 0 and bools:
            # control-flow graph with a branch and a dominator edge
            cw, _ = rnd.choice(bools)
            ins = sc.linear()
            if rnd.random() < 0.5:
                cfg = b.add_cfg(cw, *[w for w, _ in ins])
                inserted = None
            else:
                cfg = Cfg(T.Bool, *[t for _, t in ins])
                inserted = True
            with cfg.add_entry() as entry:
                eins = entry.inputs()
                entry.set_block_outputs(eins[0], *eins[1:])
            with cfg.add_successor(entry[0]) as m1:
                m1.set_single_succ_outputs(*m1.inputs())
            with cfg.add_successor(entry[1]) as m2:
                if rnd.random() < 0.5:
                    m2.add_op(O.Noop(), eins[0])                      # dominator edge from the entry block
                m2.set_single_succ_outputs(*m2.inputs())
            cfg.branch_exit(m1[0])
            cfg.branch_exit(m2[0])
            node = b.insert_cfg(cfg, cw, *[w for w, _ in ins]) if inserted else cfg.parent_node
            for w, _t in ins:
                sc.take(w)
            sc.nodes.append(node)
            sc.local += [(node[i], t) for i, (_, t) in enumerate(ins)]
        elif act < 0.96 and funcs and bools:
            f, kind = rnd.choice(funcs)
            w, _t = rnd.choice(bools)
            if kind == "mono":
                if rnd.random() < 0.5:
                    n = b.call(f, w)
                else:
                    lf = b.load_function(f)
                    sc.nodes.append(lf)
                    n = b.add(O.CallIndirect()(lf, w))
            else:
                n = b.call(f, w, instantiation=T.FunctionType.endo([T.Bool]), type_args=[T.Bool.type_arg()])
            sc.nodes.append(n)
            sc.local.append((n[0], T.Bool))
        elif len(sc.nodes) >= 2:
            i, j = sorted(rnd.sample(range(len(sc.nodes)), 2))
            b.add_state_order(sc.nodes[i], sc.nodes[j])                   # earlier -> later: keeps the region acyclic


def finish(sc, rnd):
    """Outputs: every linear wire exactly once + a random selection of local copyable ones."""
    import hugr.tys as T
    outs = sc.linear()
    cop = [(w, t) for w, t in sc.local if t.type_bound() == T.TypeBound.Copyable]
    outs += rnd.sample(cop, min(len(cop), rnd.randint(0, 2)))
    rnd.shuffle(outs)
    sc.result = outs
    sc.b.set_outputs(*[w for w, _ in outs])


def gen_program(seed):
    import hugr.tys as T
    from hugr.build.dfg import Dfg
    from hugr.build.function import Module
    from hugr.build.tracked_dfg import TrackedDfg
    from hugr.std.int import INT_T
    rnd = random.Random(seed)
    A = T.TypeBound.Any
    in_types = rnd.choice([[T.Bool, INT_T], [T.Qubit, T.Bool], [T.Qubit, T.Qubit, INT_T, T.Bool], [T.Bool], [T.Tuple(T.Bool, T.Qubit), T.Bool, INT_T]])
    shape = rnd.choice(["dfg", "dfg", "module", "module", "tracked"])
    if shape == "dfg":
        d = Dfg(*in_types)
        sc = Scope(d, list(zip(d.inputs(), in_types)))
        build_region(sc, rnd, 2, [])
        finish(sc, rnd)
        return d.hugr
    if shape == "tracked":
        d = TrackedDfg(*in_types, track_inputs=True)
        sc = Scope(d, list(zip(d.inputs(), in_types)))
        build_region(sc, rnd, 1, [])
        finish(sc, rnd)
        return d.hugr
    mod = Module()
    f_decl = mod.declare_function("ident", T.PolyFuncType([T.TypeTypeParam(A)], T.FunctionType.endo([T.Variable(0, A)])))
    f_mono = mod.define_function("neg", [T.Bool], [T.Bool] if rnd.random() < 0.5 else None)
    fsc = Scope(f_mono, [(f_mono.inputs()[0], T.Bool)])
    build_region(fsc, rnd, 1, [])
    f_mono.set_outputs(fsc.copyable(T.Bool, with_outer=False)[-1][0])
    funcs = [(f_mono, "mono"), (f_decl, "poly")]
    main = mod.define_main(in_types)
    sc = Scope(main, list(zip(main.inputs(), in_types)))
    build_region(sc, rnd, 2, funcs)
    finish(sc, rnd)
    return mod.hugr


def gen_risky(seed):
    """Programs that *may* be refused by the builders (declared outputs, recursion, case / exit rows chosen
    at random): when a builder call raises the program is outside the property's domain; when none
    does, the HUGR must be valid."""
    import hugr.ops as O
    import hugr.tys as T
    import hugr.val as V
    from hugr.build.cfg import Cfg
    from hugr.build.cond_loop import Conditional
    from hugr.build.function import Module
    from hugr.std.int import INT_T
    rnd = random.Random(seed)
    rows = [[], [T.Bool], [T.Bool, T.Bool], [INT_T]]
    kind = rnd.choice(["function", "function", "conditional", "cfg"])
    if kind == "function":
        mod = Module()
        ins = rnd.choice([[T.Bool], [T.Bool, INT_T]])
        declared = rnd.choice(rows + [None])
        f = mod.define_function("f", ins, declared)
        if declared is not None and rnd.random() < 0.7:
            # a (recursive) use of the declaration before the body is finished
            r = f.call(f, *f.inputs())
        given = rnd.choice(rows)
        pool = {repr(T.Bool): f.inputs()[0]}
        if len(ins) > 1:
            pool[repr(INT_T)] = f.inputs()[1]
        f.set_outputs(*[pool[repr(t)] for t in given if repr(t) in pool])
        main = mod.define_main([T.Bool] + ([INT_T] if len(ins) > 1 else []))
        c = main.call(f, *main.inputs())
        main.set_outputs(*[c[i] for i in range(len(given))])
        return mod.hugr
    if kind == "conditional":
        r0, r1 = rnd.choice(rows[:3]), rnd.choice(rows[:3])
        c = Conditional(T.Bool, [T.Bool])
        with c.add_case(0) as k0:
            k0.set_outputs(*[k0.inputs()[0]] * len(r0))
        with c.add_case(1) as k1:
            k1.set_outputs(*[k1.inputs()[0]] * len(r1))
        return c.hugr
    r0, r1 = rnd.choice(rows[:3]), rnd.choice(rows[:3])
    cfg = Cfg(T.Bool)
    with cfg.add_entry() as entry:
        entry.set_block_outputs(*entry.inputs(), *entry.inputs())
    with cfg.add_successor(entry[0]) as m1:
        m1.set_single_succ_outputs(*[m1.inputs()[0]] * len(r0))
    with cfg.add_successor(entry[1]) as m2:
        m2.set_single_succ_outputs(*[m2.inputs()[0]] * len(r1))
    cfg.branch_exit(m1[0])
    cfg.branch_exit(m2[0])
    return cfg.hugr


def gen_tracked_mixed(seed):
    """Tracked builder programs with commands mixing explicit wires and tracked indices (wire first, index
    first), two-qubit style operations and partially tracked wires."""
    import hugr.ops as O
    import hugr.tys as T
    from hugr.build.tracked_dfg import TrackedDfg
    rnd = random.Random(seed)
    d = TrackedDfg(T.Qubit, T.Qubit, T.Bool, track_inputs=False)
    q0, q1, b = d.inputs()
    i0, i1 = d.track_wires([q0, q1])
    cx = O.Custom("CX", T.FunctionType([T.Qubit, T.Qubit], [T.Qubit, T.Qubit]), extension="test.q")
    cr = O.Custom("CRot", T.FunctionType([T.Bool, T.Qubit], [T.Bool, T.Qubit]), extension="test.q")
    rc = O.Custom("RotC", T.FunctionType([T.Qubit, T.Bool], [T.Qubit, T.Bool]), extension="test.q")
    h1 = O.Custom("H", T.FunctionType([T.Qubit], [T.Qubit]), extension="test.q")
    bw = b
    for _ in range(rnd.randint(1, 6)):
        c = rnd.random()
        if c < 0.3:
            a, bq = rnd.sample([i0, i1], 2)
            d.add(cx(a, bq))
        elif c < 0.55:
            n = d.add(cr(bw, rnd.choice([i0, i1])))          # explicit wire first, then a tracked index
            bw = n[0]
        elif c < 0.8:
            n = d.add(rc(rnd.choice([i0, i1]), bw))          # tracked index first
            bw = n[1]
        else:
            d.add(h1(rnd.choice([i0, i1])))
    if rnd.random() < 0.5:
        d.set_indexed_outputs(i0, i1, bw)
    else:
        w0 = d.untrack_wire(i0)
        d.set_indexed_outputs(w0, i1, bw)
    return d.hugr


def gen_reuse(seed):
    """Pre-built builders inserted more than once (insert_nested / insert_cfg / insert_conditional /
    insert_tail_loop) and used again afterwards: the host and every pre-built HUGR must be valid after each
    use (a builder that mutates what it is given shows only on the second use)."""
    import hugr.ops as O
    import hugr.tys as T
    import hugr.val as V
    from hugr.build.cfg import Cfg
    from hugr.build.cond_loop import Conditional, TailLoop
    from hugr.build.dfg import Dfg
    from hugr.std.logic import Not
    rnd = random.Random(seed)
    host = Dfg(T.Bool, T.Bool)
    a, b = host.inputs()
    kind = rnd.choice(["dfg", "cfg", "conditional", "tail_loop"])
    times = rnd.randint(2, 3)
    if kind == "dfg":
        pre = Dfg(T.Bool)
        w = pre.inputs()[0]
        for _ in range(rnd.randint(1, 3)):
            w = pre.add(Not(w))[0] if rnd.random() < 0.6 else pre.add_op(O.Noop(), w)[0]
        if rnd.random() < 0.5:
            with pre.add_nested(w) as inner:
                inner.set_outputs(inner.add(Not(inner.inputs()[0])))
            w = inner[0]
        pre.set_outputs(w)
        for _ in range(times):
            a = host.insert_nested(pre, a)[0]
    elif kind == "cfg":
        pre = Cfg(T.Bool)
        with pre.add_entry() as entry:
            entry.set_block_outputs(entry.inputs()[0])
        with pre.add_successor(entry[0]) as m1:
            m1.set_single_succ_outputs(m1.add_op(O.Noop(), m1.load(V.TRUE))[0])
        with pre.add_successor(entry[1]) as m2:
            m2.set_single_succ_outputs(m2.load(V.FALSE))
        pre.branch_exit(m1[0])
        pre.branch_exit(m2[0])
        for _ in range(times):
            a = host.insert_cfg(pre, a)[0]
    elif kind == "conditional":
        pre = Conditional(T.Bool, [T.Bool])
        with pre.add_case(0) as k0:
            k0.set_outputs(k0.add(Not(k0.inputs()[0])))
        with pre.add_case(1) as k1:
            k1.set_outputs(k1.inputs()[0])
        for _ in range(times):
            b = host.insert_conditional(pre, a, b)[0]
    else:
        pre = TailLoop([T.Bool], [])
        st = T.Sum([[T.Bool], []])
        x = pre.inputs()[0]
        nx = pre.add(Not(x))
        pre.set_loop_outputs(pre.add(O.Tag(0, st)(nx)))
        for _ in range(times):
            host.insert_tail_loop(pre, [a], [])
    host.set_outputs(a, b)
    return [host.hugr, pre.hugr]


def check(h, wiring_by_construction=False):
    """wiring_by_construction: the program wires every input once and consumes every linear value once by
    construction, so a violation of R5 in the HUGR is the builders' doing, not the program's."""
    from hugr.hugr import Hugr
    from specs.validate import validate
    errs = validate(h)
    other = [e for e in errs if e[0] != "R5"]
    if other:
        return ("built", f"{other[0][0]}: {other[0][1]}")
    if errs:
        if wiring_by_construction:
            return ("built", f"{errs[0][0]}: {errs[0][1]}")
        return ("domain", errs[0][1])
    # the document it serializes, read by an independent reader that follows the reference reader's port rules
    import json
    from specs.validate import hugr_from_doc
    try:
        doc = json.loads(h.to_json())
        h2, problems = hugr_from_doc(doc)
    except Exception as e:  # noqa: BLE001
        return ("serialize", f"{type(e).__name__}: {str(e)[:100]}")
    errs = problems + validate(h2)
    errs = [e for e in errs if e[0] != "R5"] + [e for e in errs if e[0] == "R5"]
    if errs:
        return ("serialized", f"{errs[0][0]}: {errs[0][1]}")
    return None


def check_all(h, wiring_by_construction=False):
    """a generator may return several HUGRs (the host and the pre-built ones it inserted)"""
    for x in (h if isinstance(h, list) else [h]):
        r = check(x, wiring_by_construction)
        if r is not None:
            return r
    return None


def main():
    from bounded.c12 import gen_module
    from bounded.hugr_gen import PROGRAMS
    tier = os.environ.get("VERIF_TIER", "quick")
    seed0 = int(os.environ.get("VERIF_SEED", "0") or 0)
    t0 = time.time()
    runs = 500 if tier == "quick" else 5000
    violations, seen = [], set()
    ev = skipped = nontrivial = 0
    gens = [("random", gen_program)] + [(n, (lambda s, p=p: p(random.Random(s)))) for n, p in PROGRAMS] + [("module", gen_module), ("risky", gen_risky), ("risky", gen_risky), ("tracked-mixed", gen_tracked_mixed), ("reuse", gen_reuse)]
    for k in range(runs):
        seed = seed0 * 1000003 + k
        gname, g = gens[0] if k % 3 else gens[1 + (k // 3) % (len(gens) - 1)]
        try:
            h = g(seed)
        except Exception as e:  # noqa: BLE001
            # a builder call raised: the program is outside the property's domain (no builder call raises)
            skipped += 1
            continue
        ev += 1
        r = check_all(h, wiring_by_construction=gname != "risky")
        if r is None:
            if gname == "random":
                nontrivial += 1
            continue
        where, why = r
        if where == "domain":
            skipped += 1
            continue
        import re
        key = re.sub(r"\d+", "N", why)[:50]
        if key in seen or len(violations) >= 8:
            continue
        seen.add(key)
        idx = [n for n, _ in gens].index(gname)
        script = write_replay_script("C01", f"bounded_{len(violations)}", f"{gname} program, seed {seed} ({where} HUGR): {why}"[:700], f"""
import random
from bounded.c01 import gen_program, gen_risky, gen_tracked_mixed, gen_reuse, check, check_all
from bounded.c12 import gen_module
from bounded.hugr_gen import PROGRAMS
gens = [("random", gen_program)] + [(n, (lambda s, p=p: p(random.Random(s)))) for n, p in PROGRAMS] + [("module", gen_module), ("risky", gen_risky), ("risky", gen_risky), ("tracked-mixed", gen_tracked_mixed), ("reuse", gen_reuse)]
h = gens[{idx}][1]({seed})
r = check_all(h, wiring_by_construction=gens[{idx}][0] != "risky")
print("result:", r)
sys.exit(1 if r is not None and r[0] != "domain" else 0)
""")
        violations.append({"clause": f"validity of the {where} HUGR: " + why[:120], "replay": script})
    emit({
        "name": "bounded.c01",
        "kind": "seeded random well-formed builder programs + the programs of the other stand-ins; built and re-loaded HUGR validated by the transcribed rules",
        "bound": f"{runs} programs: 2/3 random (nesting depth <= 2, all builder entry points, copyable / linear / sum / tuple / function / extension types, partially used multi-output ops, Ext and Dom edges), 1/3 fixed shapes; {skipped} outside the domain (a builder call raised / wiring precondition not met) were skipped",
        "exhaustive": False,
        "evaluations": ev,
        "distinct_nontrivial": nontrivial,
        "rule": "evaluation = one program built, validated, serialized, re-loaded and validated again; non-trivial = random program inside the domain",
        "samples": [],
        "violations": violations,
        "wall_s": round(time.time() - t0, 2),
    })


if __name__ == "__main__":
    main()
