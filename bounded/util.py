"""Helpers shared by the bounded stand-ins (run under /venv/bin/python against the real code)."""
import json
import os
import sys

VERIF = os.path.dirname(os.path.dirname(os.path.abspath(__file__)))

HEADER = '''#!/venv/bin/python
"""Replay for property {prop}: {what}
Run:  /venv/bin/python <this file>     (exit 1 = the property is violated by the real code)
"""
import os, sys
sys.path.insert(0, os.environ.get("VERIF_REPO_SRC", "/repo/hugr-py/src"))
sys.path.insert(0, {verif!r})
'''


def write_replay_script(prop, name, what, body):
    d = os.path.join(VERIF, "replays", prop)
    os.makedirs(d, exist_ok=True)
    p = os.path.join(d, name + ".py")
    with open(p, "w") as f:
        f.write(HEADER.format(prop=prop, what=what.replace('"""', "'''"), verif=VERIF))
        f.write(body)
    return p


def emit(d):
    print("BOUNDED-JSON " + json.dumps(d, default=str))


def source_identity(mod):
    """sha256 of the file CPython imported for a module (evidence: the code that ran is the working tree)."""
    import hashlib
    import inspect
    f = inspect.getsourcefile(mod)
    return f, hashlib.sha256(open(f, "rb").read()).hexdigest()
