"""Bounded stand-in for C19: the real hugr.qsystem.result against the replay oracle transcribed
from the statement (specs/replay_spec.py), exhaustively over small shots."""
import itertools
import os
import time
from collections import Counter

from bounded.util import emit, write_replay_script


def outcome(f):
    try:
        return ("ok", f())
    except ValueError:
        return ("ValueError", None)
    except Exception as e:  # noqa: BLE001
        return (type(e).__name__, None)


def main():
    tier = os.environ.get("VERIF_TIER", "quick")
    t0 = time.time()
    from specs import replay_spec as S
    from hugr.qsystem.result import QsysResult, QsysShot
    tags = ["a", "a[0]", "a[1]", "b", "a[3]"] + (["b[0]", "A[0]", "a_1[2]"] if tier == "thorough" else [])
    vals = [0, 1, True, False, [0, 1], [1], [], 2, [True, 0]] + ([0.5, [2], -1] if tier == "thorough" else [])
    entries = [(t, v) for t in tags for v in vals]
    L = 3
    violations, samples = [], []
    evaluations = nontrivial = 0

    def fail(clause, expr, exp, got):
        script = write_replay_script("C19", f"bounded_{len(violations)}", f"{expr}: expected {exp!r}, got {got!r}", f"""
from specs import replay_spec as S
from hugr.qsystem.result import QsysResult, QsysShot
from bounded.c19 import outcome
from collections import Counter
got = outcome(lambda: {expr})
print({expr!r})
print("real code :", got)
print("statement :", {exp!r})
sys.exit(0 if got == {exp!r} else 1)
""")
        violations.append({"clause": clause, "replay": script})

    seen_classes = set()
    for n in range(0, L + 1):
        for shot in itertools.product(entries, repeat=n):
            if n == L and tier == "quick":
                # quick tier: length-3 shots restricted to one register family (interleavings of
                # whole-register and indexed writes to `a`)
                if any(not t.startswith("a") for t, _ in shot):
                    continue
            shot = list(shot)
            evaluations += 1
            exp = outcome(lambda: S.register_bits(shot))
            got = outcome(lambda: QsysShot(shot).to_register_bits())
            if len({t.split("[")[0] for t, _ in shot}) < len(shot):
                nontrivial += 1
            if got != exp:
                cls = (exp[0], got[0], tuple(type(v).__name__ for _, v in shot))
                if cls not in seen_classes and len(violations) < 8:
                    seen_classes.add(cls)
                    fail("to_register_bits = replay of the entries in order", f"QsysShot({shot!r}).to_register_bits()", exp, got)
            elif len(samples) < 4 and n == 3 and exp[0] == "ok":
                samples.append({"shot": repr(shot), "bits": exp[1]})
    # collation
    for n in range(0, 3):
        for shot in itertools.product(entries[: 4 * len(vals)], repeat=n):
            shot = list(shot)
            evaluations += 1
            exp = outcome(lambda: S.collate(shot))
            got = outcome(lambda: QsysShot(shot).collate_tags())
            if got != exp and len(violations) < 10:
                fail("collate_tags", f"QsysShot({shot!r}).collate_tags()", exp, got)
    # multi-shot results and strictness flags
    shots_pool = [[("a", 1)], [("a", 0)], [("a", [1, 0])], [("a", 1), ("b", 0)], [("b", [0, 1])], [("a[1]", 1)], [], [("a", 2)], [("c", [[1], 0])]]
    for k in range(0, 4 if tier == "thorough" else 3):
        for combo in itertools.product(shots_pool, repeat=k):
            combo = [list(s) for s in combo]
            for sn, sl in itertools.product([False, True], repeat=2):
                evaluations += 1
                nontrivial += 1
                exp = outcome(lambda: S.register_bitstrings(combo, strict_names=sn, strict_lengths=sl))
                got = outcome(lambda: QsysResult(combo).register_bitstrings(strict_names=sn, strict_lengths=sl))
                if got != exp:
                    cls = ("multi", sn, sl, exp[0], got[0])
                    if cls not in seen_classes and len(violations) < 12:
                        seen_classes.add(cls)
                        fail("register_bitstrings / strict options", f"QsysResult({combo!r}).register_bitstrings(strict_names={sn}, strict_lengths={sl})", exp, got)
                if exp[0] == "ok":
                    expc = ("ok", {r: Counter(v) for r, v in exp[1].items()})
                    gotc = outcome(lambda: QsysResult(combo).register_counts(strict_names=sn, strict_lengths=sl))
                    if gotc != expc and len(violations) < 12:
                        fail("register_counts", f"QsysResult({combo!r}).register_counts(strict_names={sn}, strict_lengths={sl})", expc, gotc)
            evaluations += 1
            exp = outcome(lambda: S.collated_counts(combo))
            got = outcome(lambda: QsysResult(combo).collated_counts())
            if got != exp and len(violations) < 12:
                fail("collated_counts", f"QsysResult({combo!r}).collated_counts()", exp, got)
    # the assumption behind the regex model: re.match(REG_INDEX_PATTERN, s) accepts exactly
    # name "[" digits "]" (optionally followed by one newline), groups = (name, digits), int(digits) >= 0
    import re
    from hugr.qsystem import result as R
    alphabet = ["a", "A", "1", "_", "[", "]", "\n"]
    regex_evals = 0
    regex_bad = None
    maxlen = 6 if tier == "quick" else 7

    def grammar(s):
        t = s[:-1] if s.endswith("\n") else s
        if not t.endswith("]") or "[" not in t:
            return None
        name, _, rest = t.partition("[")
        digits = rest[:-1]
        if not name or not ("a" <= name[0] <= "z") or not all(c.isalnum() or c == "_" for c in name) or not name.isascii():
            return None
        if not digits or not all(c in "0123456789" for c in digits):
            return None
        return name, digits
    for n in range(0, maxlen + 1):
        for tup in itertools.product(alphabet, repeat=n):
            s_ = "".join(tup)
            regex_evals += 1
            m = re.match(R.REG_INDEX_PATTERN, s_)
            g = grammar(s_)
            got = m.groups() if m else None
            if got != g or (m and int(m.group(2)) < 0):
                regex_bad = (s_, got, g)
                break
        if regex_bad:
            break
    if R.REG_INDEX_PATTERN.pattern != S.PATTERN:
        regex_bad = ("pattern literal", R.REG_INDEX_PATTERN.pattern, S.PATTERN)
    if regex_bad:
        fail("tag grammar (regex assumption)", f"__import__('re').match(__import__('hugr.qsystem.result', fromlist=['x']).REG_INDEX_PATTERN, {regex_bad[0]!r}) and __import__('re').match(__import__('hugr.qsystem.result', fromlist=['x']).REG_INDEX_PATTERN, {regex_bad[0]!r}).groups()", ("ok", regex_bad[2]), ("ok", regex_bad[1]))
    evaluations += regex_evals
    emit({
        "name": "bounded.c19",
        "kind": "exhaustive small scope against the statement's replay oracle",
        "bound": f"shots of up to {L} entries over tags {tags} x values {vals} (quick: length-3 shots on register a only); results of up to {3 if tier == 'thorough' else 2} shots from a pool of {len(shots_pool)} x 4 flag settings",
        "exhaustive": True,
        "regex_assumption_check": f"{regex_evals} strings over {alphabet!r} up to length {maxlen}: re.match agrees with the grammar name[digits] used by the prover's axioms",
        "evaluations": evaluations,
        "distinct_nontrivial": nontrivial,
        "rule": "non-trivial = a register is written more than once in the shot, or a multi-shot result with strictness flags",
        "samples": samples,
        "violations": violations,
        "wall_s": round(time.time() - t0, 2),
    })


if __name__ == "__main__":
    main()
