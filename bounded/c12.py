"""Bounded stand-in for C12: module-rooted HUGRs from well-formed builder programs are exported to the
model representation and the result is compared with the HUGR by an oracle written from the
statement: regions mirror the hierarchy, ports listed = value ports of the signature (control ports
for blocks), link names = connectivity, calls name symbols that exist, order hints, metadata,
constants inlined into their loads."""
import json
import os
import random
import time
from collections import defaultdict

from bounded.util import emit, write_replay_script


def gen_module(seed):
    import hugr.ops as O
    import hugr.tys as T
    import hugr.val as V
    from hugr.build.function import Module
    from hugr.std.int import INT_T, DivMod, IntVal
    rnd = random.Random(seed)
    A, C = T.TypeBound.Any, T.TypeBound.Copyable
    mod = Module()
    f_id = mod.declare_function("ident", T.PolyFuncType([T.TypeTypeParam(A)], T.FunctionType.endo([T.Variable(0, A)])))
    f_two = mod.define_function("two", [T.Bool], [T.Bool, T.Bool] if rnd.random() < 0.5 else None)
    f_two.set_outputs(f_two.input_node[0], f_two.input_node[0])
    f_poly = mod.define_function("pick", [T.Variable(0, C), T.Variable(0, C)], type_params=[T.TypeTypeParam(C)])
    f_poly.set_outputs(f_poly.input_node[0])
    konst = mod.add_const(IntVal(7, 5)) if rnd.random() < 0.6 else None
    main = mod.define_main([T.Qubit, T.Bool, INT_T])
    q, b, i = main.inputs()
    if rnd.random() < 0.5:
        mod.hugr[main.parent_node].metadata["doc"] = {"k": [1, None]}
    outs = []
    # a function called more than once, a polymorphic one, a declared one
    c1 = main.call(f_two, b)
    c2 = main.call(f_two, c1[0])
    c3 = main.call(f_poly, c2[0], c2[1], instantiation=T.FunctionType([T.Bool, T.Bool], [T.Bool]), type_args=[T.Bool.type_arg()])
    c4 = main.call(f_id, q, instantiation=T.FunctionType.endo([T.Qubit]), type_args=[T.Qubit.type_arg()])
    outs += [c4, c1[1]]
    if rnd.random() < 0.7:
        main.add_state_order(c1, c3)
    if rnd.random() < 0.5:
        main.add_state_order(c2, c4)
    if rnd.random() < 0.5:
        # a node with several incoming order edges, the first of them from the region's Input
        main.add_state_order(main.input_node, c4)
        main.add_state_order(c1, c4)
    # constants loaded more than once
    if konst is not None:
        l1, l2 = main.load(konst), main.load(konst)
        dm = main.add(DivMod(l1, l2), metadata={"note": "x"} if rnd.random() < 0.5 else None)
        outs.append(dm[0])                      # second output unused
    lf = main.load_function(f_two)
    ci = main.add(O.CallIndirect()(lf, c3))
    outs.append(ci[0])
    kind = rnd.choice(["cond", "loop", "cfg", "nested", "none"])
    if kind == "cond":
        with main.add_if(ci[1], i) as if_:
            if_.set_outputs(if_.add(DivMod(if_.input_node[0], if_.input_node[0]))[0])
        with if_.add_else() as else_:
            else_.set_outputs(else_.input_node[0])
        outs.append(else_.conditional_node)
    elif kind == "loop":
        with main.add_tail_loop([], [i]) as tl:
            (x,) = tl.inputs()
            t = tl.add(O.Tag(1, T.Sum([[], []]))())
            y = tl.add_op(O.Noop(), x)
            if rnd.random() < 0.5:
                tl.add_state_order(t, y)
            tl.set_loop_outputs(t, y)
        outs.append(tl)
    elif kind == "cfg":
        with main.add_cfg(ci[1], i) as cfg:
            with cfg.add_entry() as entry:
                eb, ei = entry.inputs()
                entry.set_block_outputs(eb, ei)
            with cfg.add_successor(entry[0]) as m1:
                m1.set_single_succ_outputs(*m1.inputs())
            with cfg.add_successor(entry[1]) as m2:
                (mi,) = m2.inputs()
                m2.set_single_succ_outputs(m2.add(DivMod(mi, mi))[1])
            cfg.branch_exit(m1[0])
            cfg.branch_exit(m2[0])
        outs.append(cfg)
    elif kind == "nested":
        with main.add_nested(i) as inner:
            k = inner.add_op(O.Noop(), ci[1])          # non-local edge (+ order edge added by the builder)
            inner.set_outputs(inner.input_node[0], k)
        outs += [inner[0], inner[1]]
    if rnd.random() < 0.6:
        # siblings *after* the nested container, joined by a state-order edge (and one from the container itself)
        n1 = main.add_op(O.Noop(), b)
        n2 = main.add_op(O.Noop(), n1[0])
        main.add_state_order(n1, n2)
        if kind != "none" and rnd.random() < 0.5:
            main.add_state_order(outs[-1] if kind != "nested" else inner, n2)
        outs.append(n2[0])
    main.set_outputs(*outs)
    return mod.hugr


def value_ports(op):
    import hugr.ops as O
    if isinstance(op, O.Call):
        return len(op.instantiation.input), len(op.instantiation.output)
    if isinstance(op, (O.LoadConst, O.LoadFunc)):
        return 0, 1
    if isinstance(op, O.DataflowBlock):
        return 1, len(op.sum_ty.variant_rows)
    if isinstance(op, O.DataflowOp):
        s = op.outer_signature()
        return len(s.input), len(s.output)
    return None


def check(h):
    import hugr.model as M
    import hugr.ops as O
    import hugr.tys as T
    from hugr.hugr.node_port import InPort, OutPort
    try:
        module = h.to_model()
    except Exception as e:  # noqa: BLE001
        return f"to_model raised {type(e).__name__}: {str(e)[:80]}"
    name_of = {}            # exported port -> link name
    producers = defaultdict(set)
    consumers = defaultdict(set)
    symbols = {}            # function node idx -> symbol name
    problems = []

    def bind(port, name, producer):
        name_of[port] = name
        (producers if producer else consumers)[name].add(port)

    def exported_children(n):
        return [c for c in h[n].children if not isinstance(h[c].op, (O.Input, O.Output, O.Const, O.ExitBlock))]

    def walk_node(n, m):
        d = h[n]
        op = d.op
        vp = value_ports(op)
        if vp is not None:
            if len(m.inputs) != vp[0] or len(m.outputs) != vp[1]:
                problems.append(f"node {n.idx} ({op.name()}): lists {len(m.inputs)} inputs / {len(m.outputs)} outputs, its signature has {vp[0]} / {vp[1]} value ports")
                return
            for k, nm in enumerate(m.inputs):
                bind(InPort(n, k), nm, False)
            for k, nm in enumerate(m.outputs):
                bind(OutPort(n, k), nm, True)
        for key, val in d.metadata.items():
            want = M.Apply("compat.meta_json", [M.Literal(key), M.Literal(json.dumps(val))])
            if want not in list(m.meta):
                problems.append(f"node {n.idx}: metadata entry {key!r} not carried over")
        if isinstance(op, (O.FuncDefn, O.FuncDecl)):
            if not isinstance(m.operation, (M.DefineFunc, M.DeclareFunc)):
                problems.append(f"node {n.idx}: function not exported as a definition / declaration")
                return
            symbols[n.idx] = m.operation.symbol.name
        if isinstance(op, O.Conditional):
            cases = list(d.children)
            if len(m.regions) != len(cases):
                problems.append(f"node {n.idx}: {len(m.regions)} regions for {len(cases)} cases")
                return
            for c, r in zip(cases, m.regions):
                walk_dfg_region(c, r)
        elif isinstance(op, O.CFG):
            if len(m.regions) != 1:
                problems.append(f"node {n.idx}: CFG without its region")
                return
            walk_cfg_region(n, m.regions[0])
        elif isinstance(op, (O.DFG, O.TailLoop, O.FuncDefn, O.DataflowBlock)):
            if len(m.regions) != 1:
                problems.append(f"node {n.idx}: container without its region")
                return
            walk_dfg_region(n, m.regions[0])

    def walk_dfg_region(n, r):
        kids = exported_children(n)
        if len(r.children) != len(kids):
            problems.append(f"region of node {n.idx}: {len(r.children)} children exported, hierarchy has {len(kids)}")
            return
        for c in h[n].children:
            cop = h[c].op
            if isinstance(cop, O.Input):
                if len(r.sources) != len(cop.types):
                    problems.append(f"region of node {n.idx}: {len(r.sources)} sources for {len(cop.types)} inputs")
                    return
                for k, nm in enumerate(r.sources):
                    bind(OutPort(c, k), nm, True)
            elif isinstance(cop, O.Output):
                if len(r.targets) != len(cop.types):
                    problems.append(f"region of node {n.idx}: {len(r.targets)} targets for {len(cop.types)} outputs")
                    return
                for k, nm in enumerate(r.targets):
                    bind(InPort(c, k), nm, False)
        for c, mc in zip(kids, r.children):
            walk_node(c, mc)
        # order hints
        keys = {}
        for c, mc in zip(kids, r.children):
            ks = [t.args[0].value for t in mc.meta if isinstance(t, M.Apply) and t.symbol == "core.order_hint.key"]
            if ks:
                keys[c.idx] = ks[0]
        hints = [(t.args[0].value, t.args[1].value) for t in (r.meta or []) if isinstance(t, M.Apply) and t.symbol == "core.order_hint.order"]
        for c in kids:
            for succ in h.outgoing_order_links(c):
                if succ in kids:
                    if c.idx not in keys or succ.idx not in keys:
                        problems.append(f"order edge {c.idx}->{succ.idx}: a node lacks its order key")
                    elif (keys[c.idx], keys[succ.idx]) not in hints:
                        problems.append(f"order edge {c.idx}->{succ.idx} between siblings is not an order hint of their region")

    def walk_cfg_region(n, r):
        blocks = [c for c in h[n].children if isinstance(h[c].op, O.DataflowBlock)]
        exits = [c for c in h[n].children if isinstance(h[c].op, O.ExitBlock)]
        if len(r.children) != len(blocks):
            problems.append(f"CFG {n.idx}: {len(r.children)} blocks exported for {len(blocks)}")
            return
        if len(r.sources) != 1 or len(r.targets) != 1:
            problems.append(f"CFG {n.idx}: region needs one source and one target, has {len(r.sources)} / {len(r.targets)}")
            return
        bind(InPort(exits[0], 0), r.targets[0], False)
        for c, mc in zip(blocks, r.children):
            walk_node(c, mc)
        # the region source feeds the entry block: it carries the link name of the entry block's control input
        if r.children and (not r.children[0].inputs or r.sources[0] != r.children[0].inputs[0]):
            problems.append(f"CFG {n.idx}: the region source is not linked to the control input of the entry block")

    root_kids = [c for c in h[h.root].children if not isinstance(h[c].op, O.Const)]
    if len(module.root.children) != len(root_kids):
        return f"module region has {len(module.root.children)} children, the module {len(root_kids)} (constants excluded)"
    for c, mc in zip(root_kids, module.root.children):
        walk_node(c, mc)
    if problems:
        return problems[0]
    # connectivity: same name <=> joined by edges (through exported ports)
    adj = defaultdict(set)
    for s, t in h.links():
        if s in name_of and t in name_of:
            if name_of[s] != name_of[t]:
                return f"edge {s} -> {t}: the two ports carry different link names ({name_of[s]} / {name_of[t]})"
            adj[s].add(t)
            adj[t].add(s)
    # the CFG region source is a producer-side port standing for the entry block's input: it has no HUGR edge of its own
    by_name = defaultdict(list)
    for p, nm in name_of.items():
        by_name[nm].append(p)
    for nm, ports in by_name.items():
        seen = {ports[0]}
        todo = [ports[0]]
        while todo:
            x = todo.pop()
            for y in adj[x]:
                if y not in seen:
                    seen.add(y)
                    todo.append(y)
        extra = [p for p in ports if p not in seen]
        if extra:
            return f"link name {nm}: ports {ports[0]} and {extra[0]} share it without an edge joining them"
        if len(producers[nm]) > 1 and len(consumers[nm]) > 1:
            return f"link name {nm} has several producer-side and several consumer-side ports"
    # calls and loads
    def model_nodes(region):
        for mc in region.children:
            yield mc
            for r in mc.regions:
                yield from model_nodes(r)
    all_syms = {mc.operation.symbol.name for mc in model_nodes(module.root) if isinstance(mc.operation, (M.DefineFunc, M.DeclareFunc))}
    call_nodes = [n for n in h if isinstance(h[n].op, (O.Call, O.LoadFunc))]
    applied = []
    for mc in model_nodes(module.root):
        if isinstance(mc.operation, M.CustomOp) and isinstance(mc.operation.operation, M.Apply) and mc.operation.operation.symbol in ("core.call", "core.load_const"):
            last = mc.operation.operation.args[-1]
            if mc.operation.operation.symbol == "core.call" or (isinstance(last, M.Apply) and last.symbol.startswith("_")):
                applied.append(last.symbol if isinstance(last, M.Apply) else None)
    for n in call_nodes:
        op = h[n].op
        fport = InPort(n, len(op.instantiation.input) if isinstance(op, O.Call) else 0)
        srcs = list(h.linked_ports(fport))
        if not srcs:
            continue
        want = symbols.get(srcs[0].node.idx)
        if want is None or want not in all_syms:
            return f"call/load node {n.idx}: the function it applies has no symbol in the module"
        if want not in applied:
            return f"call/load node {n.idx}: applies a symbol other than its function's symbol {want} (applied symbols: {sorted(set(a for a in applied if a))[:4]})"
    for a in applied:
        if a is not None and a not in all_syms:
            return f"applied function symbol {a} is not the symbol of a definition or declaration in the module"
    # constants inlined
    for n in h:
        if isinstance(h[n].op, O.LoadConst):
            src = list(h.linked_ports(InPort(n, 0)))
            if src and isinstance(h[src[0].node].op, O.Const):
                want = h[src[0].node].op.val.to_model()
                found = any(isinstance(mc.operation, M.CustomOp) and isinstance(mc.operation.operation, M.Apply) and mc.operation.operation.symbol == "core.load_const"
                            and mc.operation.operation.args[-1] == want for mc in model_nodes(module.root))
                if not found:
                    return f"load of constant node {src[0].node.idx} does not inline its value"
    return None


def main():
    tier = os.environ.get("VERIF_TIER", "quick")
    seed0 = int(os.environ.get("VERIF_SEED", "0") or 0)
    t0 = time.time()
    runs = 200 if tier == "quick" else 2000
    violations, seen = [], set()
    ev = 0
    for k in range(runs):
        seed = seed0 * 1000003 + k
        try:
            h = gen_module(seed)
        except Exception as e:  # noqa: BLE001
            why = f"generator raised {type(e).__name__}: {str(e)[:100]}"
            h = None
        ev += 1
        if h is not None:
            why = check(h)
        if why:
            import re
            key = re.sub(r"\d+", "N", why)[:45]
            if key in seen or len(violations) >= 8:
                continue
            seen.add(key)
            script = write_replay_script("C12", f"bounded_{len(violations)}", f"module seed {seed}: {why}"[:700], f"""
from bounded.c12 import gen_module, check
why = check(gen_module({seed}))
print("result:", why)
sys.exit(1 if why else 0)
""")
            violations.append({"clause": "model export: " + why[:120], "replay": script})
    emit({
        "name": "bounded.c12",
        "kind": "seeded module-rooted HUGRs (functions called / loaded several times, polymorphic and declared functions, constants loaded twice, order edges, nested conditional / loop / CFG / DFG, metadata) exported and compared with an oracle written from the statement",
        "bound": f"{runs} modules",
        "exhaustive": False,
        "evaluations": ev,
        "distinct_nontrivial": ev,
        "rule": "evaluation = one module exported and compared",
        "samples": [],
        "violations": violations,
        "wall_s": round(time.time() - t0, 2),
    })


if __name__ == "__main__":
    main()
