"""Bounded stand-in / differential check for C06: every operation class instantiated over small
type rows, compared with the typing table of the statement (written here independently of the
contracts).  Violations come with replays on the real code."""
import itertools
import os
import time

from bounded.util import emit, write_replay_script


def main():
    tier = os.environ.get("VERIF_TIER", "quick")
    t0 = time.time()
    import hugr.ops as O
    import hugr.tys as T
    import hugr.val as V
    from hugr.hugr.node_port import InPort, Node, OutPort
    B, Q, U = T.Bool, T.Qubit, T.USize()
    rows = [[], [B], [Q, B]] + ([[U, Q, B]] if tier == "thorough" else [])
    n = Node(5)
    violations, samples = [], []
    ev = 0

    def fail(clause, expr, exp, got):
        script = write_replay_script("C06", f"bounded_{len(violations)}", f"{expr}: expected {exp!r}, got {got!r}", f"""
import hugr.ops as O, hugr.tys as T, hugr.val as V
from hugr.hugr.node_port import InPort, Node, OutPort
B, Q, U = T.Bool, T.Qubit, T.USize()
n = Node(5)
def show(f):
    try:
        return repr(f())
    except Exception as e:
        return type(e).__name__
got = show(lambda: {expr})
print({expr!r}, "->", got, "; statement:", {repr(exp)!r})
sys.exit(0 if got == {repr(exp)!r} else 1)
""")
        violations.append({"clause": clause, "replay": script})

    def check(clause, expr, exp, env):
        nonlocal ev
        ev += 1
        try:
            got = eval(expr, env)
        except Exception as e:  # noqa: BLE001
            got = type(e).__name__
        if repr(got) != repr(exp):
            if len(violations) < 12:
                fail(clause, expr, exp, got)
        elif len(samples) < 5 and "Call" in expr:
            samples.append({"expr": expr, "value": repr(got)})

    env = {"O": O, "T": T, "V": V, "B": B, "Q": Q, "U": U, "n": n, "InPort": InPort, "OutPort": OutPort, "Node": Node}

    def r(row):
        return "[" + ", ".join({id(B): "B", id(Q): "Q", id(U): "U"}[id(t)] for t in row) + "]"
    FT = T.FunctionType
    for I, Ox in itertools.product(rows, repeat=2):
        i, o = r(I), r(Ox)
        check("Input", f"O.Input({i}).outer_signature()", FT([], I), env)
        check("Input", f"O.Input({i}).num_out", len(I), env)
        check("DFG outer = body", f"(lambda d: (d.outer_signature(), d.inner_signature(), d.num_out))(O.DFG({i}, {o}))", (FT(I, Ox), FT(I, Ox), len(Ox)), env)
        check("CFG", f"(lambda d: (d.outer_signature(), d.num_out))(O.CFG({i}, {o}))", (FT(I, Ox), len(Ox)), env)
        check("Case", f"O.Case({i}, {o}).inner_signature()", FT(I, Ox), env)
        check("FuncDefn inner", f"O.FuncDefn('f', {i}, [], {o}).inner_signature()", FT(I, Ox), env)
        check("FuncDefn function port", f"O.FuncDefn('f', {i}, [], {o}).port_kind(OutPort(n, 0))", T.FunctionKind(T.PolyFuncType([], FT(I, Ox))), env)
        check("CallIndirect", f"(lambda c: (c.outer_signature(), c.num_out))(O.CallIndirect(T.FunctionType({i}, {o})))", (FT([FT(I, Ox), *I], Ox), len(Ox)), env)
        for R in rows:
            rr = r(R)
            check("TailLoop outer", f"O.TailLoop({i}, {rr}, {o}).outer_signature()", FT(I + R, Ox + R), env)
            check("TailLoop inner", f"O.TailLoop({i}, {rr}, {o}).inner_signature()", FT(I + R, [T.Sum([I, Ox]), *R]), env)
            check("TailLoop num_out", f"O.TailLoop({i}, {rr}, {o}).num_out", len(Ox) + len(R), env)
            check("Conditional outer", f"O.Conditional(T.Sum([{i}, {o}]), {rr}, {o}).outer_signature()", FT([T.Sum([I, Ox]), *R], Ox), env)
            check("Conditional case inputs", f"[O.Conditional(T.Sum([{i}, {o}]), {rr}).nth_inputs(k) for k in (0, 1)]", [I + R, Ox + R], env)
            check("Block inner", f"O.DataflowBlock({rr}, T.Sum([{i}, {o}]), {rr}).inner_signature()", FT(R, [T.Sum([I, Ox]), *R]), env)
            check("Block successors", f"(lambda b: ([b.nth_outputs(k) for k in (0, 1)], b.num_out, b.port_kind(OutPort(n, 0)), b.port_kind(InPort(n, 0))))(O.DataflowBlock({rr}, T.Sum([{i}, {o}]), {rr}))",
                  ([I + R, Ox + R], 2, T.CFKind(), T.CFKind()), env)
        for tag, row in ((0, I), (1, Ox)):
            check("Tag", f"O.Tag({tag}, T.Sum([{i}, {o}])).outer_signature()", FT(row, [T.Sum([I, Ox])]), env)
        check("sugar tags", f"(O.Some(*{i}).outer_signature(), O.Left(T.Either({i}, {o})).outer_signature(), O.Right(T.Either({i}, {o})).outer_signature())",
              (FT(I, [T.Option(*I)]), FT(I, [T.Either(I, Ox)]), FT(Ox, [T.Either(I, Ox)])), env)
        check("MakeTuple/UnpackTuple inverse rows", f"(lambda m, u: (m.input, m.output, u.input, u.output, O.UnpackTuple({i}).num_out))(O.MakeTuple({i}).outer_signature(), O.UnpackTuple({i}).outer_signature())",
              (I, [T.Tuple(*I)], [T.Tuple(*I)], I, len(I)), env)
        # monomorphic call / load
        check("Call mono", f"(lambda c: (c.num_out, c._function_port_offset(), c.port_kind(InPort(n, {len(I)})), [c.port_kind(InPort(n, k)) for k in range({len(I)})], [c.port_kind(OutPort(n, k)) for k in range({len(Ox)})]))(O.Call(T.PolyFuncType([], T.FunctionType({i}, {o}))))",
              (len(Ox), len(I), T.FunctionKind(T.PolyFuncType([], FT(I, Ox))), [T.ValueKind(t) for t in I], [T.ValueKind(t) for t in Ox]), env)
        check("LoadFunc", f"(lambda c: (c.outer_signature(), c.port_kind(InPort(n, 0)), c.port_kind(OutPort(n, 0)), c.num_out))(O.LoadFunc(T.PolyFuncType([], T.FunctionType({i}, {o}))))",
              (FT([], [FT(I, Ox)]), T.FunctionKind(T.PolyFuncType([], FT(I, Ox))), T.ValueKind(FT(I, Ox)), 1), env)
        # row-polymorphic callee instantiated at the arity of I (body arity is 1)
        if True:
            poly = "T.PolyFuncType([T.ListParam(T.TypeTypeParam(T.TypeBound.Any))], T.FunctionType([T.RowVariable(0, T.TypeBound.Any)], [T.RowVariable(0, T.TypeBound.Any), B]))"
            targs = f"[T.SequenceArg([t.type_arg() for t in {i}])]"
            inst = f"T.FunctionType({i}, {i} + [B])"
            check("Call exposes the instantiated signature (row-polymorphic callee)",
                  f"(lambda c: (c.num_out, c._function_port_offset(), c.port_kind(InPort(n, {len(I)})) == T.FunctionKind(c.signature), [c.port_kind(OutPort(n, k)) for k in range({len(I) + 1})]))(O.Call({poly}, {inst}, {targs}))",
                  (len(I) + 1, len(I), True, [T.ValueKind(t) for t in I + [B]]), env)
    # order port: every dataflow operation, both directions
    df_ops = {
        "O.Input([B])": None, "O.Output([B])": None, "O.DFG([B], [B])": None, "O.CFG([B], [B])": None, "O.Conditional(T.Sum([[], []]), [B], [B])": None,
        "O.TailLoop([B], [Q], [B])": None, "O.Tag(0, T.Sum([[B], []]))": None, "O.MakeTuple([B])": None, "O.UnpackTuple([B])": None, "O.Noop(B)": None,
        "O.CallIndirect(T.FunctionType([B], [B]))": None, "O.Call(T.PolyFuncType([], T.FunctionType([B], [B])))": None,
        "O.LoadConst(B)": None, "O.LoadFunc(T.PolyFuncType([], T.FunctionType([B], [B])))": None, "O.Custom('op', T.FunctionType([B], [B]), extension='e')": None,
    }
    for e in df_ops:
        check("order port kind in both directions", f"({e}.port_kind(InPort(n, -1)), {e}.port_kind(OutPort(n, -1)))", (T.OrderKind(), T.OrderKind()), env)
    # one operation object typed a second time (a builder does this whenever the same partial operation is
    # added twice): every reported fact follows the latest typing - read before and after the re-typing
    for I1, I2 in itertools.permutations(rows, 2):
        i1, i2 = r(I1), r(I2)
        facts = "(op.outer_signature(), op.num_out, [op.port_kind(InPort(n, k)) for k in range(len(op.outer_signature().input))], [op.port_kind(OutPort(n, k)) for k in range(op.num_out)])"
        typed_twice = f"(lambda op: (op._set_in_types({{a}}), {facts}, op._set_in_types({{b}}), {facts})[3])({{ctor}})"
        check("MakeTuple typed twice", typed_twice.format(a=i1, b=i2, ctor="O.MakeTuple()"),
              (FT(I2, [T.Tuple(*I2)]), 1, [T.ValueKind(t) for t in I2], [T.ValueKind(T.Tuple(*I2))]), env)
        check("Output typed twice", f"(lambda op: (op._set_in_types({i1}), op.outer_signature(), op._set_in_types({i2}), (op.outer_signature(), op.types))[3])(O.Output())",
              (FT(I2, []), I2), env)
        t1, t2 = f"[T.Tuple(*{i1})]", f"[T.Tuple(*{i2})]"
        check("UnpackTuple typed twice", typed_twice.format(a=t1, b=t2, ctor="O.UnpackTuple()"),
              (FT([T.Tuple(*I2)], I2), len(I2), [T.ValueKind(T.Tuple(*I2))], [T.ValueKind(t) for t in I2]), env)
        if len(I1) == 1 and len(I2) == 1:
            check("Noop typed twice", typed_twice.format(a=i1, b=i2, ctor="O.Noop()"), (FT(I2, I2), 1, [T.ValueKind(t) for t in I2], [T.ValueKind(t) for t in I2]), env)
        f1, f2 = f"[T.FunctionType({i1}, {i2}), *{i1}]", f"[T.FunctionType({i2}, {i1}), *{i2}]"
        check("CallIndirect typed twice", f"(lambda op: (op._set_in_types({f1}), op.outer_signature(), op.num_out, op._set_in_types({f2}), (op.outer_signature(), op.num_out))[4])(O.CallIndirect())",
              (FT([FT(I2, I1), *I2], I1), len(I1)), env)
    # the same through the builder: one partial operation object added to two builders of different rows
    from hugr.build.dfg import Dfg as _Dfg
    for I1, I2 in itertools.permutations([x for x in rows if x], 2):
        ev += 1
        mk, un = O.MakeTuple(), O.UnpackTuple()
        got = []
        for I in (I1, I2):
            try:
                dd = _Dfg(*I)
                tn = dd.add_op(mk, *dd.inputs())
                u = dd.add_op(un, tn[0])
                dd.set_outputs(*[u[k] for k in range(len(I))])
                got.append((dd.hugr.num_out_ports(u), dd.hugr.num_in_ports(tn), [dd.hugr.port_type(u.out(k)) for k in range(len(I))], un.outer_signature(), mk.outer_signature()))
            except Exception as e:  # noqa: BLE001
                got.append(f"{type(e).__name__}: {str(e)[:60]}")
        exp = [(len(I), len(I), list(I), FT([T.Tuple(*I)], I), FT(I, [T.Tuple(*I)])) for I in (I1, I2)]
        if repr(got) != repr(exp) and len(violations) < 12:
            fail("a partial operation added to two builders reports the typing of each use", f"MakeTuple/UnpackTuple objects added over rows {r(I1)} then {r(I2)}", exp, got)
    # constants
    check("Const / LoadConst agree", "(O.Const(V.TRUE).port_kind(OutPort(n, 0)), O.LoadConst(V.TRUE.type_()).port_kind(InPort(n, 0)), O.LoadConst(V.TRUE.type_()).port_kind(OutPort(n, 0)), O.LoadConst(B).outer_signature())",
          (T.ConstKind(B), T.ConstKind(B), T.ValueKind(B), FT([], [B])), env)
    check("FuncDecl", "O.FuncDecl('f', T.PolyFuncType([], T.FunctionType([B], [Q]))).port_kind(OutPort(n, 0))", T.FunctionKind(T.PolyFuncType([], FT([B], [Q]))), env)
    # Hugr.port_type = payload of the port's kind, for value output ports
    from hugr.build.dfg import Dfg
    from hugr.std.int import INT_T, DivMod
    d = Dfg(B, INT_T, INT_T)
    b, x, y = d.inputs()
    dm = d.add_op(DivMod, x, y)
    f = d.define_function("f", [B], [B, B])
    f.set_outputs(*f.inputs(), *f.inputs())
    c = d.call(f, b)
    for nd in (d.input_node, dm, c):
        for k in range(len(list(nd))):
            ev += 1
            p = nd.out(k)
            kind = d.hugr.port_kind(p)
            ty = d.hugr.port_type(p)
            if not (isinstance(kind, T.ValueKind) and kind.ty == ty):
                fail("port_type = payload of the port's kind", f"hugr.port_type({p}) vs hugr.port_kind({p})", kind, ty)
    # ---- operations backed by an extension definition: the signature is the definition's type scheme instantiated
    #      with the operation's own type arguments (the specification of the operation)
    import json as _json
    from hugr.std.int import _DivModDef
    from hugr.std.logic import Not

    def subst_row(row, args):
        out = []
        for t in row:
            if isinstance(t, T.RowVariable):
                a = args[t.idx]
                out += [e.ty for e in a.elems]
            else:
                out.append(subst(t, args))
        return out

    def subst_arg(a, args):
        if isinstance(a, T.VariableArg):
            return args[a.idx]
        if isinstance(a, T.TypeTypeArg):
            return T.TypeTypeArg(subst(a.ty, args))
        if isinstance(a, T.SequenceArg):
            return T.SequenceArg([subst_arg(x, args) for x in a.elems])
        return a

    def subst(t, args):
        if isinstance(t, T.Variable):
            return args[t.idx].ty
        if isinstance(t, T.ExtType):
            return T.ExtType(t.type_def, [subst_arg(a, args) for a in t.args])
        if isinstance(t, T.Opaque):
            return T.Opaque(t.id, t.bound, [subst_arg(a, args) for a in t.args], t.extension)
        if isinstance(t, T.UnitSum):
            return t
        if isinstance(t, T.Sum):
            return T.Sum([subst_row(r_, args) for r_ in t.variant_rows])
        if isinstance(t, T.FunctionType):
            return T.FunctionType(subst_row(t.input, args), subst_row(t.output, args), list(t.runtime_reqs))
        return t

    def enc_row(row):
        return [_json.loads(t._to_serial_root().model_dump_json()) for t in row]
    ext_ops = [(f"DivMod(width={w})", _DivModDef(width=w)) for w in range(0, 7)] + [("Not", Not), ("Noop(Bool)", O.Noop(B)), ("Noop(Qubit)", O.Noop(Q))]
    for rw in rows:
        ext_ops += [(f"MakeTuple({r(rw)})", O.MakeTuple(list(rw))), (f"UnpackTuple({r(rw)})", O.UnpackTuple(list(rw)))]
    for nm, op in ext_ops:
        ev += 1
        scheme = op.op_def().signature.poly_func
        if scheme is None:
            continue
        targs = op.type_args()
        if len(targs) != len(scheme.params):
            fail("extension-backed operation: one type argument per parameter of its definition", nm, len(scheme.params), len(targs))
            continue
        want_in, want_out = subst_row(scheme.body.input, targs), subst_row(scheme.body.output, targs)
        sig = op.outer_signature()
        if enc_row(sig.input) != enc_row(want_in) or enc_row(sig.output) != enc_row(want_out) or op.num_out != len(want_out):
            fail("extension-backed operation: signature = the definition's scheme instantiated with the operation's type arguments", nm, (want_in, want_out), (sig.input, sig.output))
        else:
            for k, t in enumerate(want_in):
                if enc_row([op.port_type(InPort(n, k))]) != enc_row([t]):
                    fail("extension-backed operation: port types follow the instantiated scheme", f"{nm} input {k}", t, op.port_type(InPort(n, k)))
    emit({
        "name": "bounded.c06",
        "kind": "small-scope table check of every operation class (differential check of the proof; stands in for Hugr.port_type / MakeTuple-UnpackTuple chain)",
        "bound": f"type rows {[r(x) for x in rows]} for every row parameter; one row-polymorphic callee per input row",
        "exhaustive": True,
        "evaluations": ev,
        "distinct_nontrivial": ev,
        "rule": "distinct (operation class, rows) expressions compared with the statement's table",
        "samples": samples,
        "violations": violations,
        "wall_s": round(time.time() - t0, 2),
    })


if __name__ == "__main__":
    main()
