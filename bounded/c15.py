"""Bounded stand-in for C15: random programs over the tracked builder, run side by side with the
explicit program the statement describes (a plain Dfg fed with the wires a shadow table says are
tracked).  After every step the tracked table is compared with the shadow table and at the end the
two HUGRs are compared node for node and link for link (including metadata)."""
import os
import random
import time

from bounded.util import emit, write_replay_script


def snapshot(h):
    nodes = {}
    for n in h:
        d = h[n]
        nodes[n.idx] = (repr(d.op), d.parent.idx if d.parent is not None else None, tuple(c.idx for c in d.children), repr(sorted(d.metadata.items())), d._num_outs, d._num_inps)
    links = sorted(((s.node.idx, s.offset), (t.node.idx, t.offset)) for s, t in h.links())
    return nodes, links


def gen_program(rnd, width, length):
    """A program is a list of steps over abstract wire names; generated against the shadow semantics so
    that it is well formed (indices used are tracked) except for deliberate error probes."""
    prog = []
    shadow = []          # slot -> present?
    n_wires = width      # number of wires available so far (inputs first); each step may add some
    if rnd.random() < 0.5:
        prog.append(("track_inputs",))
        shadow = [True] * width
    for _ in range(length):
        live = [i for i, p in enumerate(shadow) if p]
        c = rnd.random()
        if c < 0.15 or not live:
            w = rnd.randrange(n_wires)
            prog.append(("track_wire", w))
            shadow.append(True)
        elif c < 0.25:
            k = rnd.randint(1, 2)
            ws = [rnd.randrange(n_wires) for _ in range(k)]
            prog.append(("track_wires", ws))
            shadow += [True] * k
        elif c < 0.35:
            i = rnd.choice(live)
            use_neg = rnd.random() < 0.2
            prog.append(("untrack", i - len(shadow) if use_neg else i))
            shadow[i] = False
        elif c < 0.42:
            # error probes: never change anything
            dead = [i for i, p in enumerate(shadow) if not p]
            idx = rnd.choice(dead + [len(shadow), len(shadow) + 3, -len(shadow) - 1])
            prog.append((rnd.choice(["probe_untrack", "probe_wire", "probe_add"]), idx))
        else:
            arity = rnd.choice([1, 1, 2, 2, 3])
            args = []
            for _ in range(arity):
                if rnd.random() < 0.7:
                    i = rnd.choice(live)
                    args.append(("i", i - len(shadow) if rnd.random() < 0.1 else i))
                else:
                    args.append(("w", rnd.randrange(n_wires)))
            meta = rnd.choice([None, None, {"k": rnd.randint(0, 5)}, {}])
            # sometimes an operation with fewer outputs than inputs: an index is still rebound to "the output at the argument's position"
            n_out = arity - 1 if (arity > 1 and rnd.random() < 0.25) else arity
            again = rnd.random() < 0.2        # the same Command object added a second time
            prog.append(("add", arity, args, meta, rnd.random() < 0.3, n_out, again))
            n_wires += arity * (2 if again else 1)
    prog.append(rnd.choice([("set_tracked_outputs",), ("set_indexed_outputs", [rnd.choice([("i", i) for i, p in enumerate(shadow) if p] + [("w", 0)]) for _ in range(rnd.randint(0, 3))])]))
    return prog


def make_op(arity, n_out=None):
    import hugr.ops as O
    import hugr.tys as T
    if n_out is not None and n_out != arity:
        return O.Custom(f"op{arity}to{n_out}", T.FunctionType([T.Bool] * arity, [T.Bool] * n_out), extension="test.ext")
    if arity == 1:
        return O.Noop(T.Bool)
    # an n-in n-out op: DFG-free choice -> use a custom op through MakeTuple is 1-out; use std logic for 2? keep generic:
    return O.Custom(f"op{arity}", T.FunctionType([T.Bool] * arity, [T.Bool] * arity), extension="test.ext")


def run_program(prog, width):
    """Returns None or a description of the first disagreement."""
    import hugr.tys as T
    from hugr.build.dfg import Dfg
    from hugr.build.tracked_dfg import TrackedDfg
    t = TrackedDfg(*([T.Bool] * width))
    e = Dfg(*([T.Bool] * width))
    wires_t = list(t.inputs())
    wires_e = list(e.inputs())
    shadow = []   # slot -> wire index (into wires_*) or None

    def same_table(step):
        if len(t.tracked) != len(shadow):
            return f"step {step}: table length {len(t.tracked)} != {len(shadow)}"
        for i, s in enumerate(shadow):
            if (s is None) != (t.tracked[i] is None):
                return f"step {step}: slot {i} tracked-ness"
            if s is not None and t.tracked[i].out_port() != wires_t[s].out_port():
                return f"step {step}: slot {i} holds {t.tracked[i]} instead of {wires_t[s]}"
        return None

    def norm(i):
        return i if i >= 0 else i + len(shadow)

    for k, st in enumerate(prog):
        kind = st[0]
        if kind == "track_inputs":
            r = t.track_inputs()
            base = len(shadow)
            shadow += list(range(width))
            if r != list(range(base, base + width)):
                return f"step {k}: track_inputs returned {r}"
        elif kind == "track_wire":
            r = t.track_wire(wires_t[st[1]])
            shadow.append(st[1])
            if r != len(shadow) - 1:
                return f"step {k}: track_wire returned {r}, expected the new slot {len(shadow) - 1}"
        elif kind == "track_wires":
            r = t.track_wires([wires_t[w] for w in st[1]])
            base = len(shadow)
            shadow += list(st[1])
            if r != list(range(base, base + len(st[1]))):
                return f"step {k}: track_wires returned {r}"
        elif kind == "untrack":
            r = t.untrack_wire(st[1])
            i = norm(st[1])
            if r.out_port() != wires_t[shadow[i]].out_port():
                return f"step {k}: untrack_wire returned {r}"
            shadow[i] = None
        elif kind.startswith("probe"):
            import hugr.ops as O
            before = list(t.tracked)
            nb = t.hugr.num_nodes()
            try:
                if kind == "probe_untrack":
                    t.untrack_wire(st[1])
                elif kind == "probe_wire":
                    t.tracked_wire(st[1])
                else:
                    t.add(O.Noop(T.Bool)(st[1]))
                return f"step {k}: {kind}({st[1]}) on an untracked index did not raise"
            except IndexError:
                pass
            if list(t.tracked) != before or t.hugr.num_nodes() != nb:
                return f"step {k}: failed {kind} changed the builder"
        elif kind == "add":
            _, arity, args, meta, via_extend, n_out = st[:6]
            again = len(st) > 6 and st[6]
            op_t, op_e = make_op(arity, n_out), make_op(arity, n_out)
            targs = [a[1] if a[0] == "i" else wires_t[a[1]] for a in args]
            com_t = op_t(*targs)          # one Command object; when `again`, it is added twice

            def both(ft, fe):
                """run the step on both builders; an index bound to a port the operation does not have makes both raise alike"""
                rt = re_ = None
                try:
                    rt = ft()
                except Exception as ex:  # noqa: BLE001
                    rt = ex
                try:
                    re_ = fe()
                except Exception as ex:  # noqa: BLE001
                    re_ = ex
                return rt, re_
            for _rep in range(2 if again else 1):
                # the explicit program: the wires the shadow table holds *now* for the indices
                eargs = [wires_e[shadow[norm(a[1])]] if a[0] == "i" else wires_e[a[1]] for a in args]
                if via_extend and meta is None:
                    rt, re_ = both(lambda: t.extend(com_t)[0], lambda: e.extend(op_e(*eargs))[0])
                else:
                    rt, re_ = both(lambda: t.add(com_t, metadata=meta), lambda: e.add(op_e(*eargs), metadata=meta))
                if isinstance(rt, Exception) or isinstance(re_, Exception):
                    if type(rt) is type(re_):
                        return None          # both refuse the same way (a wire naming a port that does not exist): equivalent, nothing more to compare
                    return f"step {k}: the tracked builder gave {rt!r}, the explicit program {re_!r}"
                nt, ne = rt, re_
                if nt.idx != ne.idx:
                    return f"step {k}: node index {nt.idx} vs explicit {ne.idx}"
                base = len(wires_t)
                from hugr.hugr.node_port import OutPort
                wires_t += [OutPort(nt, j) for j in range(arity)]        # ports named directly: the oracle does not go through Node.out
                wires_e += [OutPort(ne, j) for j in range(arity)]
                for pos, a in enumerate(args):
                    if a[0] == "i":
                        shadow[norm(a[1])] = base + pos
                if _rep == 0 and again:
                    why = same_table(k)
                    if why:
                        return why + " (after the first of two uses of one command)"
        elif kind in ("set_tracked_outputs", "set_indexed_outputs"):
            def run(f):
                try:
                    f()
                    return None
                except Exception as ex:  # noqa: BLE001
                    return ex
            if kind == "set_tracked_outputs":
                rt = run(lambda: t.set_tracked_outputs())
                re_ = run(lambda: e.set_outputs(*[wires_e[s] for s in shadow if s is not None]))
            else:
                rt = run(lambda: t.set_indexed_outputs(*[a[1] if a[0] == "i" else wires_t[a[1]] for a in st[1]]))
                re_ = run(lambda: e.set_outputs(*[wires_e[shadow[norm(a[1])]] if a[0] == "i" else wires_e[a[1]] for a in st[1]]))
            if rt is not None or re_ is not None:
                if type(rt) is type(re_):
                    return None      # a wire naming a port that does not exist is refused alike by both
                return f"step {k}: the tracked builder gave {rt!r}, the explicit program {re_!r}"
        why = same_table(k)
        if why:
            return why
        if snapshot(t.hugr) != snapshot(e.hugr):
            nt_, lt_ = snapshot(t.hugr)
            ne_, le_ = snapshot(e.hugr)
            what = "nodes" if nt_ != ne_ else "links"
            return f"step {k} ({kind}): tracked and explicit HUGR differ in {what}"
    return None


def main():
    tier = os.environ.get("VERIF_TIER", "quick")
    seed0 = int(os.environ.get("VERIF_SEED", "0") or 0)
    t0 = time.time()
    violations, samples = [], []
    runs = 600 if tier == "quick" else 6000
    ev = nontrivial = 0
    seen = set()
    for k in range(runs):
        seed = seed0 * 104729 + k
        rnd = random.Random(seed)
        width = rnd.randint(1, 4)
        prog = gen_program(rnd, width, rnd.randint(3, 14))
        ev += len(prog)
        if any(s[0] == "untrack" for s in prog) and any(s[0] == "add" for s in prog):
            nontrivial += 1
        why = run_program(prog, width)
        if why is not None:
            key = why.split(":", 1)[-1][:30]
            if key in seen or len(violations) >= 5:
                continue
            seen.add(key)
            script = write_replay_script("C15", f"bounded_{len(violations)}", f"seed {seed}: {why}", f"""
from bounded.c15 import run_program
prog = {prog!r}
for s in prog: print(s)
why = run_program(prog, {width})
print("result:", why)
sys.exit(1 if why else 0)
""")
            violations.append({"clause": "tracked builder vs explicit wiring: " + why[:90], "replay": script})
        elif len(samples) < 3:
            samples.append({"seed": seed, "width": width, "steps": len(prog)})
    emit({
        "name": "bounded.c15",
        "kind": "seeded random programs over TrackedDfg, compared step by step with the explicit Dfg program and a shadow table",
        "bound": f"{runs} programs of 3..14 steps, width 1..4, arity 1..3, mixed integer (incl. negative) and wire arguments, metadata, extend, error probes",
        "exhaustive": False,
        "evaluations": ev,
        "distinct_nontrivial": nontrivial,
        "rule": "evaluation = one builder step followed by table + HUGR comparison; non-trivial program = has both an untrack and an add",
        "samples": samples,
        "violations": violations,
        "wall_s": round(time.time() - t0, 2),
    })


if __name__ == "__main__":
    main()
