"""Bounded stand-in / differential check for C14: value expressions up to a small depth; the
reported type is checked against an independent inhabitation oracle (mirroring
Const::validate / check_type), std constants against their documented shape, Const/LoadConst
through the real builder."""
import itertools
import json
import os
import time

from bounded.util import emit, write_replay_script


def main():
    tier = os.environ.get("VERIF_TIER", "quick")
    t0 = time.time()
    import hugr.ops as O
    import hugr.tys as T
    import hugr.val as V
    from hugr.build.dfg import Dfg
    from hugr.std.collections.array import Array, ArrayVal
    from hugr.std.collections.list import List, ListVal
    from hugr.std.collections.static_array import StaticArray, StaticArrayVal
    from hugr.std.float import FLOAT_T, FloatVal
    from hugr.std.int import IntVal, int_t
    from hugr.std.prelude import STRING_T, StringVal
    violations, samples = [], []
    ev = 0

    def fail(clause, what):
        script = write_replay_script("C14", f"bounded_{len(violations)}", what, f"\nprint({what!r})\nsys.exit(1)\n")
        violations.append({"clause": clause, "replay": script})

    def inhabits(v, t):
        """independent oracle"""
        if isinstance(v, V.Sum):
            if not isinstance(t, T.Sum) or t != v.typ:
                return False
            rows = t.variant_rows
            if not (0 <= v.tag < len(rows)) or len(v.vals) != len(rows[v.tag]):
                return False
            return all(inhabits(x, rt) for x, rt in zip(v.vals, rows[v.tag]))
        if isinstance(v, V.Extension):
            return v.typ == t
        if isinstance(v, V.ExtensionValue):
            return inhabits(v.to_value(), t)
        if isinstance(v, V.Function):
            return v.body.root_op().inner_signature() == t
        return False
    from bounded.reuse import iterable_constructor_checks
    ev += iterable_constructor_checks(fail, lambda m: json.loads(m.model_dump_json()))
    atoms = [V.TRUE, V.FALSE, V.Unit, V.UnitSum(2, 5), IntVal(3, 4), IntVal(0, 0), FloatVal(1.5), StringVal("s"), V.None_(T.Bool), V.None_()]
    f = Dfg(T.Bool)
    f.set_outputs(*f.inputs())
    atoms.append(V.Function(f.hugr))

    def declared_ok(v, sr):
        """the serialized form declares exactly the reported type (sum values and extension constants carry
        their type; nested values recursively), the tag and one entry per field"""
        if isinstance(v, V.Tuple):
            return sr.get("v") == "Tuple" and len(sr["vs"]) == len(v.vals) and all(declared_ok(x, y) for x, y in zip(v.vals, sr["vs"]))
        if isinstance(v, V.Sum):
            want = json.loads(T.Sum(v.typ.variant_rows)._to_serial_root().model_dump_json()) if not isinstance(v.typ, T.UnitSum) else json.loads(v.typ._to_serial_root().model_dump_json())
            got = dict(sr.get("typ") or {})
            want.pop("t", None)
            got.pop("t", None)
            return sr.get("v") == "Sum" and sr["tag"] == v.tag and got == want and len(sr["vs"]) == len(v.vals) and all(declared_ok(x, y) for x, y in zip(v.vals, sr["vs"]))
        if isinstance(v, V.Extension):
            return sr.get("v") == "Extension" and sr["typ"] == json.loads(v.typ._to_serial_root().model_dump_json())
        if hasattr(v, "to_value") and not isinstance(v, V.Function):
            return declared_ok(v.to_value(), sr)
        return True

    def level(prev):
        out = []
        for a, b in itertools.product(prev, repeat=2):
            out += [V.Tuple(a, b), V.Some(a, b), V.Left([a], [b.type_()]), V.Right([a.type_()], [b]), V.Sum(1, T.Sum([[T.Qubit], [a.type_(), b.type_()]]), [a, b])]
        for a in prev:
            out += [V.Tuple(a), V.Some(a), V.Tuple(), ArrayVal([a, a], a.type_()), ListVal([a], a.type_()), ArrayVal([], a.type_())]
            if a.type_().type_bound() == T.TypeBound.Copyable:
                out.append(StaticArrayVal([a, a], a.type_(), "n"))
        return out
    l1 = level(atoms)
    pool = atoms + l1 + level(l1[:: (37 if tier == "quick" else 11)])
    for v in pool:
        ev += 1
        t = v.type_()
        if not inhabits(v, t):
            if len(violations) < 6:
                fail("a constant inhabits the type it reports", f"{v!r} reports {t!r} but does not inhabit it")
            continue
        # Const offers the reported type on its static port; serialization of complete values succeeds
        ev += 1
        try:
            k = O.Const(v).port_kind(__import__("hugr.hugr.node_port", fromlist=["x"]).OutPort(__import__("hugr.hugr.node_port", fromlist=["x"]).Node(1), 0))
            ok = isinstance(k, T.ConstKind) and k.ty == t
            sr = json.loads(v._to_serial_root().model_dump_json())
            ok = ok and declared_ok(v, sr)
        except Exception as e:  # noqa: BLE001
            ok = False
        if not ok and len(violations) < 6:
            fail("Const offers the reported type / value is complete", f"{v!r}")
        elif len(samples) < 4 and isinstance(v, ArrayVal):
            samples.append({"value": repr(v)[:80], "type": repr(t)[:80]})
    # helpers build the right tags and rows
    B = T.Bool
    checks = [
        ("Some tag 1 of Option", V.Some(V.TRUE).tag == 1 and V.Some(V.TRUE).typ == T.Option(B)),
        ("None tag 0 of Option", V.None_(B).tag == 0 and V.None_(B).typ == T.Option(B) and V.None_(B).vals == []),
        ("Left tag 0", V.Left([V.TRUE], [T.Qubit]).tag == 0 and V.Left([V.TRUE], [T.Qubit]).typ == T.Either([B], [T.Qubit])),
        ("Right tag 1", V.Right([T.Qubit], [V.TRUE]).tag == 1 and V.Right([T.Qubit], [V.TRUE]).typ == T.Either([T.Qubit], [B])),
        ("Tuple tag 0", V.Tuple(V.TRUE, V.Unit).tag == 0 and V.Tuple(V.TRUE, V.Unit).typ == T.Tuple(B, T.Unit)),
        ("bool values", V.bool_value(True).tag == 1 and V.bool_value(False).tag == 0 and V.TRUE.typ == B and V.UnitSum(2, 5).typ == T.UnitSum(5)),
    ]
    for w in range(0, 7):
        x = IntVal(5, w).to_value()
        checks.append((f"IntVal width {w}", x.typ == int_t(w) and x.extensions == ["arithmetic.int.types"] and x.val == {"log_width": w, "value": 5} and x.name == "ConstInt"))
    fv = FloatVal(2.5).to_value()
    sv = StringVal("hé").to_value()
    checks.append(("FloatVal", fv.typ == FLOAT_T and fv.extensions == ["arithmetic.float.types"] and fv.val == {"value": 2.5}))
    checks.append(("StringVal", sv.typ == STRING_T and sv.extensions == ["prelude"] and sv.val == {"value": "hé"}))
    for elems in ([], [V.TRUE], [V.TRUE, V.FALSE, V.TRUE]):
        av = ArrayVal(elems, B).to_value()
        lv = ListVal(elems, B).to_value()
        sa = StaticArrayVal(elems, B, "nm").to_value()
        ser = [e._to_serial_root() for e in elems]
        checks.append((f"ArrayVal {len(elems)}", av.typ == Array(B, len(elems)) and av.extensions == ["collections.array"] and av.val == {"values": ser, "typ": B._to_serial_root()}))
        checks.append((f"ListVal {len(elems)}", lv.typ == List(B) and lv.extensions == ["collections.list"] and lv.val == {"values": ser, "typ": B._to_serial_root()}))
        checks.append((f"StaticArrayVal {len(elems)}", sa.typ == StaticArray(B) and sa.extensions == ["collections.static_array"] and sa.val == {"value": {"values": ser, "typ": B._to_serial_root()}, "name": "nm"}))
    for name, ok in checks:
        ev += 1
        if not ok:
            fail("helper / std constant shape: " + name, name)
    # LoadConstant built for a Const produces a value of the reported type
    for v in atoms[:8] + l1[:20]:
        ev += 1
        d = Dfg()
        ld = d.load(v)
        cn = next(iter(d.hugr.linked_ports(ld.inp(0)))).node
        op = d.hugr[ld].op
        ok = isinstance(op, O.LoadConst) and op.type_ == v.type_() and isinstance(d.hugr[cn].op, O.Const) and d.hugr.port_type(ld.out(0)) == v.type_() \
            and d.hugr[cn].op.port_kind(cn.out(0)) == T.ConstKind(v.type_()) and list(d.hugr.linked_ports(cn.out(0))) == [ld.inp(0)]
        if not ok:
            fail("load(): LoadConstant typed by the constant, wired from its static port", repr(v)[:100])
    # several loads into ONE container (and under a requested const_parent): every load gets a constant holding exactly the
    # value it was given - look-alike values (field-less sums agreeing on tag and number of variants but not on the type,
    # equal values loaded twice) are the ones a sharing / caching shortcut would confuse
    three = T.Sum([[], [B], [T.Qubit]])
    alike = [V.FALSE, V.None_(B), V.Right([T.Qubit], []), V.Left([], [B]), V.TRUE, V.UnitSum(0, 3), V.Sum(0, three, []), V.Unit, V.Tuple(),
             V.None_(T.Qubit), V.UnitSum(1, 3), V.Sum(1, T.Sum([[B], [], []]), [])]
    for i, v1 in enumerate(alike):
        for v2 in alike:
            for under_root in (False, True):
                ev += 1
                d = Dfg()
                # the requested parent is neither the loading container nor the HUGR root: a container in between
                mid = d.add_nested()
                inner = mid.add_nested()
                host = inner if under_root else d
                cp = mid.parent_node if under_root else None
                bad = None
                for v in (v1, v2, v1):
                    ld = host.load(v, const_parent=cp) if under_root else host.load(v)
                    cn = next(iter(d.hugr.linked_ports(ld.inp(0)))).node
                    cop, lop = d.hugr[cn].op, d.hugr[ld].op
                    if not (isinstance(cop, O.Const) and cop.val == v and cop.val.type_() == v.type_() and isinstance(lop, O.LoadConst) and lop.type_ == v.type_()
                            and cop.port_kind(cn.out(0)) == T.ConstKind(v.type_()) and d.hugr.port_type(ld.out(0)) == v.type_()
                            and d.hugr[cn].parent == (cp if under_root else host.parent_node) and d.hugr[ld].parent == host.parent_node):
                        bad = v
                        break
                if bad is not None:
                    fail("load(): several loads into one container - each LoadConstant is fed by a constant holding the value given, under the requested parent",
                         f"{v1!r}, {v2!r}, {v1!r} (under_root={under_root}): wrong for {bad!r}")
    emit({
        "name": "bounded.c14",
        "kind": "small-scope value expressions against an independent inhabitation oracle (differential check) + DfBase.load (bounded stand-in)",
        "bound": f"{len(atoms)} atoms, all unary/binary helpers over them, a third level over a sample: {len(pool)} values; widths 0..6; arrays of length 0, 1, 3; load sequences v1, v2, v1 over 12 look-alike values, in the container and under a requested parent that is neither the container nor the root",
        "exhaustive": False,
        "evaluations": ev,
        "distinct_nontrivial": len(pool) - len(atoms) + len(checks),
        "rule": "distinct value expressions; non-trivial = built by a helper over other values",
        "samples": samples,
        "violations": violations,
        "wall_s": round(time.time() - t0, 2),
    })


if __name__ == "__main__":
    main()
