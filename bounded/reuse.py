"""Scenarios shared by several stand-ins: constructor arguments that are not fresh lists (tuples, one-shot
iterators, lists the caller goes on using) and objects used a second time.  A defect of sharing or of
laziness shows only on the second use or after a later mutation by the caller."""


def styles():
    return [("list", list), ("tuple", tuple), ("iterator", iter)]


def iterable_constructor_checks(fail, doc):
    """tys.Either / val.Left / val.Right take Iterable arguments.  fail(clause, what); doc(model) -> JSON value.
    Returns the number of evaluations."""
    import hugr.tys as T
    import hugr.val as V
    ev = 0
    B, Q = T.Bool, T.Qubit
    for name, mk in styles():
        # --- types
        for left, right in (([B], [Q]), ([B, B], []), ([], [Q, B])):
            ev += 1
            fresh = T.Sum([list(left), list(right)])
            l_arg, r_arg = mk(list(left)), mk(list(right))
            e = T.Either(l_arg, r_arg)
            d1 = doc(e._to_serial_root())
            b1 = e.type_bound()
            d2 = doc(e._to_serial_root())
            b2 = e.type_bound()
            if not (e == fresh and fresh == e and d1 == doc(fresh._to_serial_root()) and d1 == d2 and b1 == b2 == fresh.type_bound()):
                fail("Either built from " + name + " rows equals the general sum, on every use",
                     f"Either({name} {left}, {name} {right}): == general form {e == fresh}; first encoding {d1}; second {d2}; bounds {b1} {b2} vs {fresh.type_bound()}")
            if name == "list":
                l_arg.append(Q)
                r_arg.clear()
                if not (e == fresh and doc(e._to_serial_root()) == d1):
                    fail("a type does not change when the caller goes on using the lists it was built from",
                         f"Either({left}, {right}) after the caller's lists were changed: {e!r}")
        # --- values
        for mkv in ("Left", "Right"):
            ev += 1
            vals = [V.TRUE, V.Unit]
            other = [Q, B]
            v_arg, t_arg = mk(list(vals)), mk(list(other))
            v = V.Left(v_arg, t_arg) if mkv == "Left" else V.Right(t_arg, v_arg)
            tag = 0 if mkv == "Left" else 1
            want_rows = [[x.type_() for x in vals], other] if mkv == "Left" else [other, [x.type_() for x in vals]]
            fresh_t = T.Sum([list(r) for r in want_rows])

            def consistent():
                rows = v.type_().variant_rows
                return (v.tag == tag and v.type_() == fresh_t and list(v.vals) == vals
                        and [x.type_() for x in v.vals] == list(rows[v.tag]))
            ok1 = consistent()
            d1 = doc(v._to_serial_root())
            ok2 = consistent()
            d2 = doc(v._to_serial_root())
            if not (ok1 and ok2 and d1 == d2):
                fail(f"{mkv} built from {name} arguments has the fields of the tagged row, on every use",
                     f"{mkv}({name}): consistent {ok1} then {ok2}; encodings equal {d1 == d2}; value {v!r} type {v.type_()!r}")
            if name == "list":
                v_arg.append(V.FALSE)
                t_arg.clear()
                if not (consistent() and doc(v._to_serial_root()) == d1):
                    fail("a value does not change when the caller goes on using the lists it was built from",
                         f"{mkv} after the caller's lists were changed: {v!r} : {v.type_()!r}")
    return ev
