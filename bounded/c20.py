"""Bounded stand-in for C20: the DOT source produced for generated HUGRs is parsed back and compared
with the HUGR: one node statement per node with the operation's display name and one cell per port,
clusters nested as the hierarchy, one edge statement per link with the right endpoints and type
label; rendering does not modify the HUGR; palette / qualification options only change colours and
the extension prefix."""
import html
import os
import re
import time
from collections import Counter

from bounded.util import emit, write_replay_script

NODE_RE = re.compile(r'^\s*(\d+) \[label=<')
EDGE_RE = re.compile(r'^\s*(\d+):"out\.(-?\d+)" -> (\d+):"in\.(-?\d+)" \[(.*)\]\s*$')
CLUSTER_RE = re.compile(r'^\s*subgraph cluster(\d+) \{')


def parse_dot(src):
    """-> nodes {idx: (label text, enclosing cluster stack)}, edges Counter, clusters {idx: parent cluster or None}"""
    nodes, edges, clusters = {}, Counter(), {}
    stack = []
    lines = src.splitlines()
    i = 0
    dup = []
    while i < len(lines):
        ln = lines[i]
        m = CLUSTER_RE.match(ln)
        if m:
            c = int(m.group(1))
            clusters[c] = stack[-1] if stack else None
            stack.append(c)
            i += 1
            continue
        if ln.strip() == "}":
            if stack:
                stack.pop()
            i += 1
            continue
        m = NODE_RE.match(ln)
        if m:
            idx = int(m.group(1))
            buf = [ln]
            while not re.search(r'> shape=plain\]\s*$|>\]\s*$', buf[-1]) and i + 1 < len(lines):
                i += 1
                buf.append(lines[i])
            if idx in nodes:
                dup.append(idx)
            nodes[idx] = ("\n".join(buf), list(stack))
            i += 1
            continue
        m = EDGE_RE.match(ln)
        if m:
            attrs = m.group(5)
            lab = re.search(r'label=("((?:[^"\\]|\\.)*)"|[^ \]]+)', attrs)
            label = ""
            if lab:
                label = lab.group(2) if lab.group(2) is not None else lab.group(1)
                label = label.replace('\\"', '"')
            col = re.search(r'color="?([^" \]]+)"?', attrs)
            edges[((int(m.group(1)), int(m.group(2))), (int(m.group(3)), int(m.group(4))), label, col.group(1) if col else None)] += 1
        i += 1
    return nodes, edges, clusters, dup


def op_ports(op):
    """(inputs, outputs) the operation has, from its signature (oracle, independent of the renderer)."""
    import hugr.ops as O
    if isinstance(op, O.Call):
        return len(op.instantiation.input) + 1, len(op.instantiation.output)
    if isinstance(op, (O.LoadConst, O.LoadFunc)):
        return 1, 1
    if isinstance(op, O.DataflowOp):
        s = op.outer_signature()
        return len(s.input), len(s.output)
    if isinstance(op, (O.Const, O.FuncDefn, O.FuncDecl)):
        return 0, 1
    if isinstance(op, O.DataflowBlock):
        return 1, len(op.sum_ty.variant_rows)
    if isinstance(op, O.ExitBlock):
        return 1, 0
    return 0, 0


def display_name(op, qualify):
    import hugr.ops as O
    if isinstance(op, O.AsExtOp) and not qualify:
        return op.op_def().name
    return op.name()


def check(h, tame, config=None, qualify=False):
    import hugr.tys as T
    from bounded.c08 import snapshot
    before = snapshot(h)
    try:
        src = h.render_dot(config).source
    except Exception as e:  # noqa: BLE001
        return f"rendering raised {type(e).__name__}: {str(e)[:80]}", None
    if snapshot(h) != before:
        return "rendering modified the HUGR", None
    nodes, edges, clusters, dup = parse_dot(src)
    live = {n.idx: n for n in h}
    if dup:
        return f"node {dup[0]} has more than one node statement", None
    if set(nodes) != set(live):
        return f"node statements {sorted(set(nodes) ^ set(live))[:4]} do not match the HUGR's nodes", None
    for idx, n in live.items():
        d = h[n]
        text, stack = nodes[idx]
        name = display_name(d.op, qualify)
        if f"<B>{name}</B>" not in text and f"<B>{html.escape(name)}</B>" not in text:
            return f"node {idx}: display name {name!r} not in its label", None
        cells_in = sorted(int(x) for x in re.findall(r'PORT="in\.(\d+)"', text))
        cells_out = sorted(int(x) for x in re.findall(r'PORT="out\.(\d+)"', text))
        if tame:
            want_in, want_out = op_ports(d.op)
            if cells_in != list(range(want_in)) or cells_out != list(range(want_out)):
                return f"node {idx} ({name}): cells in {cells_in} out {cells_out}, the operation has {want_in} inputs and {want_out} outputs", None
        # clusters mirror the hierarchy
        chain = []
        p = n if d.children else d.parent
        while p is not None:
            if h[p].children:
                chain.append(p.idx)
            p = h[p].parent
        if stack != list(reversed(chain)):
            return f"node {idx}: enclosing clusters {stack}, hierarchy says {list(reversed(chain))}", None
        for k, v in d.metadata.items():
            if f"{k}: {v}" not in text and html.escape(f"{k}: {v}") not in text:
                return f"node {idx}: metadata entry {k!r} not shown", None
    want_clusters = {n.idx for n in h if h[n].children}
    if set(clusters) != want_clusters:
        return f"clusters {sorted(set(clusters) ^ want_clusters)[:4]} do not match the nodes with children", None
    want = Counter()
    import hugr.ops as O

    def value_type(port):
        """type of a value port from the operation's signature (independent of port_kind); None for other ports"""
        op = h[port.node].op
        if port.offset < 0:
            return None
        if isinstance(op, O.Call):
            row = op.instantiation.output if port.direction.name == "OUTGOING" else op.instantiation.input
        elif isinstance(op, O.DataflowOp):
            sig = op.outer_signature()
            row = sig.output if port.direction.name == "OUTGOING" else sig.input
        else:
            return None
        return row[port.offset] if port.offset < len(row) else None
    for s, t in h.links():
        ty = value_type(s)
        if ty is None and value_type(t) is not None and not isinstance(h[s.node].op, (O.Const, O.FuncDefn, O.FuncDecl)):
            ty = value_type(t)
        label = str(ty) if ty is not None and not (isinstance(h[t.node].op, (O.Call, O.LoadConst, O.LoadFunc)) and value_type(t) is None) else ""
        want[((s.node.idx, s.offset), (t.node.idx, t.offset), label)] += 1
    got = Counter()
    for (s, t, label, col), k in edges.items():
        got[(s, t, label)] += k
    if got != want:
        return f"edge statements differ: extra {sorted((got - want).elements())[:2]} missing {sorted((want - got).elements())[:2]}", None
    return None, (src, edges)


def structure(src):
    """DOT text with colours removed (for the configuration-independence comparison)."""
    s = re.sub(r'(BG)?COLOR="[^"]*"', 'COLOR=""', src)
    s = re.sub(r'color="?[#\w]+"?', 'color=x', s)
    s = re.sub(r'bgcolor="?[#\w]+"?', 'bgcolor=x', s)
    return s


def main():
    from bounded.hugr_gen import gen
    from hugr.hugr.render import PALETTE, RenderConfig
    tier = os.environ.get("VERIF_TIER", "quick")
    seed0 = int(os.environ.get("VERIF_SEED", "0") or 0)
    t0 = time.time()
    runs = 300 if tier == "quick" else 3000
    violations, seen = [], set()
    ev = nontrivial = 0
    from hugr.hugr.render import DotRenderer
    shared = DotRenderer()          # one renderer object drawing every HUGR of the run, each of them twice
    for k in range(runs):
        seed = seed0 * 1000003 + k
        h, info = gen(seed, wild_ok=False)     # the statement is about HUGRs from well-formed builder programs
        ev += 1
        if info["history"]:
            nontrivial += 1
        why, res = check(h, info["tame"])
        if why is None:
            # a drawing depends on the HUGR and the configuration only, not on what the renderer drew before
            try:
                again = [shared.render(h).source, shared.render(h).source]
            except Exception as e:  # noqa: BLE001
                again = [f"{type(e).__name__}: {e}"]
            if any(a != res[0] for a in again):
                why = "a renderer that has drawn other HUGRs before draws this one differently from a fresh renderer"
                key = "reuse"
                if key not in seen and len(violations) < 6:
                    seen.add(key)
                    script = write_replay_script("C20", f"bounded_reuse_{len(violations)}", f"seeds {seed0 * 1000003}..{seed}: {why}", f"""
from bounded.hugr_gen import gen
from hugr.hugr.render import DotRenderer
shared = DotRenderer()
bad = 0
for seed in range({seed0 * 1000003}, {seed} + 1):
    h, info = gen(seed, wild_ok=False)
    try:
        fresh = h.render_dot().source
    except Exception:
        continue
    if shared.render(h).source != fresh or shared.render(h).source != fresh:
        print("seed", seed, ": the reused renderer's drawing differs from a fresh renderer's")
        bad += 1
sys.exit(1 if bad else 0)
""")
                    violations.append({"clause": why, "replay": script})
                continue
        if why is None and k % 3 == 0:
            # other configurations: same structure up to colours / the extension prefix
            ev += 1
            for pname in PALETTE:
                cfg = RenderConfig(PALETTE[pname], qualify_op_name=False)
                w2, r2 = check(h, info["tame"], cfg, False)
                if w2:
                    why = f"palette {pname}: {w2}"
                    break
                if structure(r2[0]) != structure(res[0]):
                    why = f"palette {pname} changes more than colours"
                    break
            if why is None:
                w3, r3 = check(h, info["tame"], RenderConfig(qualify_op_name=True), True)
                if w3:
                    why = f"qualify_op_name: {w3}"
                elif Counter(r3[1]) != Counter(res[1]):
                    why = "qualify_op_name changes the edge statements"
        if why:
            key = re.sub(r"\d+", "N", why)[:40]
            if key in seen or len(violations) >= 6:
                continue
            seen.add(key)
            script = write_replay_script("C20", f"bounded_{len(violations)}", f"seed {seed} ({info['program']}, {info['history']!r}): {why}"[:800], f"""
from bounded.hugr_gen import gen
from bounded.c20 import check
h, info = gen({seed}, wild_ok=False)
why, _ = check(h, info["tame"])
print(info)
print("result (default configuration):", why)
print({why!r})
sys.exit(1)
""")
            violations.append({"clause": "rendering: " + why[:110], "replay": script})
    emit({
        "name": "bounded.c20",
        "kind": "seeded generated HUGRs rendered and the DOT source parsed back against the HUGR",
        "bound": f"{runs} HUGRs (7 builder kinds + mutation histories), every third also under the other palettes and with qualified names",
        "exhaustive": False,
        "evaluations": ev,
        "distinct_nontrivial": nontrivial,
        "rule": "evaluation = one rendering compared statement by statement; non-trivial = HUGR with a mutation history",
        "samples": [],
        "violations": violations,
        "wall_s": round(time.time() - t0, 2),
    })


if __name__ == "__main__":
    main()
