"""Bounded stand-in for C03 (see bounded/c02.py)."""
from bounded.c02 import main

if __name__ == "__main__":
    main("C03")
