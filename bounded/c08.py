"""Bounded stand-in for C08: inserting HUGR B into HUGR A is an isomorphic embedding that
disturbs nothing else.  B ranges over builder-made graphs that were then mutated (deleted nodes,
reused indices so that a child index is smaller than its parent's, multi-links, order links);
A over graphs with their own deletion history; every live node of A is tried as parent."""
import os
import random
import time
from collections import Counter

from bounded.util import emit, write_replay_script


def snapshot(h):
    """Observable structure of a HUGR keyed by node index."""
    nodes = {}
    for n in h:
        d = h[n]
        nodes[n.idx] = (id(d.op), d.parent.idx if d.parent is not None else None, tuple(c.idx for c in d.children), dict(d.metadata), d._num_outs, d._num_inps)
    links = Counter(((s.node.idx, s.offset), (t.node.idx, t.offset)) for s, t in h.links())
    per_port = {}
    for (s, t), k in links.items():
        per_port.setdefault(("o",) + s, Counter())[t] += k
        per_port.setdefault(("i",) + t, Counter())[s] += k
    return nodes, links, per_port


def make_b(rnd):
    import hugr.ops as O
    import hugr.tys as T
    from hugr.build.cfg import Cfg
    from hugr.build.cond_loop import Conditional, TailLoop
    from hugr.build.dfg import Dfg
    from hugr.std.int import INT_T, DivMod
    kind = rnd.choice(["dfg", "dfg", "cfg", "cond", "loop"])
    if kind == "dfg":
        b = Dfg(T.Bool, INT_T)
        x, y = b.inputs()
        n1 = b.add_op(O.Noop(), x, metadata={"m": rnd.randint(0, 9)})
        n2 = b.add_op(DivMod, y, y)
        with b.add_nested(n1, n2[0]) as inner:
            i0, i1 = inner.inputs()
            k = inner.add_op(O.Noop(), i0)
            inner.add_op(O.Noop(), x)          # non-local edge + order edge
            inner.set_outputs(k, i1)
        b.add_state_order(n1, n2)
        b.set_outputs(inner[0], n1, n1)
    elif kind == "cfg":
        b = Cfg(T.Bool)
        with b.add_entry() as e:
            e.set_single_succ_outputs(*e.inputs())
        b.branch_exit(e[0])
    elif kind == "cond":
        b = Conditional(T.Bool, [INT_T])
        for i in (0, 1):
            with b.add_case(i) as c:
                c.set_outputs(*c.inputs())
    else:
        b = TailLoop([T.Bool], [INT_T])
        j, r = b.inputs()
        t = b.add_op(O.Tag(0, T.Sum([[T.Bool], [T.Bool]])), j)
        b.set_loop_outputs(t, r)
    h = b.hugr
    # mutation history on B: extra nodes, deletions, index reuse below an existing parent
    for _ in range(rnd.randint(0, 5)):
        live = [n for n in h]
        c = rnd.random()
        if c < 0.4:
            h.add_node(O.Noop(T.Bool), rnd.choice(live), num_outs=rnd.choice([None, 1, 2]), metadata=rnd.choice([None, {"z": 1}]))
        elif c < 0.7:
            leaves = [n for n in live if n != h.root and not h[n].children]
            if leaves:
                h.delete_node(rnd.choice(leaves))
        elif c < 0.85:
            a, bb = rnd.choice(live), rnd.choice(live)
            h.add_link(a.out(rnd.choice([0, 0, 1])), bb.inp(rnd.choice([0, 1])))
        else:
            # parallel state-order links (multiplicity of order links): the raw link API does not de-duplicate
            a, bb = rnd.choice(live), rnd.choice(live)
            for _ in range(rnd.choice([1, 2, 3])):
                h.add_link(a.out(-1), bb.inp(-1))
    return kind, b


def make_a(rnd):
    import hugr.ops as O
    import hugr.tys as T
    from hugr.hugr import Hugr
    a = Hugr(O.DFG([T.Bool], [T.Bool]))
    ns = [a.add_node(O.Noop(T.Bool), metadata={"a": i}, num_outs=1) for i in range(rnd.randint(1, 4))]
    for _ in range(rnd.randint(0, 3)):
        x, y = rnd.choice(ns), rnd.choice(ns)
        if x in a and y in a:
            a.add_link(x.out(0), y.inp(rnd.choice([0, 1])))
    if len(ns) > 1 and rnd.random() < 0.6:
        a.delete_node(ns[0])
        ns = ns[1:]
    return a


def check_insert(a, bh, parent):
    sa, la, pa = snapshot(a)
    sb, lb, pb = snapshot(bh)
    try:
        mapping = a.insert_hugr(bh, parent)
    except Exception as e:  # noqa: BLE001
        return f"insert_hugr raised {type(e).__name__}: {e}"
    m = {k.idx: v.idx for k, v in mapping.items()}
    if set(m) != set(sb):
        return "mapping domain is not the set of B's nodes"
    if len(set(m.values())) != len(m) or set(m.values()) & set(sa):
        return "mapping not injective or hits an old node of A"
    sa2, la2, pa2 = snapshot(a)
    sb2, lb2, pb2 = snapshot(bh)
    if (sb2, lb2) != (sb, lb):
        return "B was modified"
    root_b = bh.root.idx
    for bi, (op, par, ch, meta, nout, ninp) in sb.items():
        op2, par2, ch2, meta2, nout2, ninp2 = sa2[m[bi]]
        if op2 != op or meta2 != meta or nout2 != nout:
            return f"node {bi}: operation / metadata / output count not preserved"
        if bi == root_b:
            want_parent = parent.idx if parent is not None else a.root.idx
        else:
            want_parent = m[par]
        if par2 != want_parent:
            return f"node {bi}: parent {par2} != {want_parent}"
        if list(ch2) != [m[c] for c in ch]:
            return f"node {bi}: child order not preserved"
    # links of B, renamed, with multiplicity and offsets
    want = Counter()
    for (s, t), k in lb.items():
        want[((m[s[0]], s[1]), (m[t[0]], t[1]))] += k
    new_links = la2 - la
    if new_links != want or la - la2:
        return f"links: new {sorted(new_links.elements())} expected {sorted(want.elements())}; lost {sorted((la - la2).elements())}"
    # A's old nodes untouched (the parent gets one more child at the end)
    pidx = parent.idx if parent is not None else a.root.idx
    for ai, rec in sa.items():
        rec2 = sa2[ai]
        if ai == pidx:
            if rec2[2] != rec[2] + (m[root_b],) or rec2[:2] != rec[:2] or rec2[3:] != rec[3:]:
                return "parent node: children must be old children + image of B's root"
        elif rec2 != rec:
            return f"old node {ai} of A changed"
    return None


def main():
    tier = os.environ.get("VERIF_TIER", "quick")
    seed0 = int(os.environ.get("VERIF_SEED", "0") or 0)
    t0 = time.time()
    violations, samples = [], []
    ev = nontrivial = 0
    runs = 300 if tier == "quick" else 3000
    seen = set()
    for k in range(runs):
        rnd = random.Random(seed0 * 7919 + k)
        kind, b = make_b(rnd)
        a = make_a(rnd)
        live = [n for n in a]
        parent = rnd.choice([None] + live)
        ev += 1
        child_before_parent = any(b.hugr[n].parent is not None and n.idx < b.hugr[n].parent.idx for n in b.hugr)
        if child_before_parent or len(list(b.hugr.links())) > 3:
            nontrivial += 1
        why = check_insert(a, b.hugr, parent)
        if why is not None:
            key = why[:40]
            if key in seen or len(violations) >= 5:
                continue
            seen.add(key)
            script = write_replay_script("C08", f"bounded_{len(violations)}", f"seed {seed0 * 7919 + k}: {why}", f"""
import random
from bounded.c08 import make_a, make_b, check_insert
rnd = random.Random({seed0 * 7919 + k})
kind, b = make_b(rnd)
a = make_a(rnd)
live = [n for n in a]
parent = rnd.choice([None] + live)
why = check_insert(a, b.hugr, parent)
print("B:", kind, "nodes", [n.idx for n in b.hugr], "parent", parent)
print("result:", why)
sys.exit(1 if why else 0)
""")
            violations.append({"clause": "insert_hugr: " + why[:90], "replay": script})
        elif len(samples) < 3 and child_before_parent:
            samples.append({"seed": seed0 * 7919 + k, "B": kind, "child_index_below_parent": True})
    # builder wrappers
    w = wrappers()
    ev += w["evaluations"]
    violations += w["violations"]
    emit({
        "name": "bounded.c08",
        "kind": "seeded random pairs (A, B, parent) with mutation histories; isomorphism and frame compared structurally; builder insert_* wrappers",
        "bound": f"{runs} pairs; B from 5 builder shapes + up to 4 random mutations (add / delete / link); A with up to 4 nodes, links and a deletion; {w['evaluations']} wrapper programs",
        "exhaustive": False,
        "evaluations": ev,
        "distinct_nontrivial": nontrivial + w["evaluations"],
        "rule": "non-trivial = B has a child with a smaller index than its parent or more than 3 links; every wrapper program",
        "samples": samples,
        "violations": violations,
        "wall_s": round(time.time() - t0, 2),
    })


def wrappers():
    import hugr.ops as O
    import hugr.tys as T
    from hugr.build.cfg import Cfg
    from hugr.build.cond_loop import Conditional, TailLoop
    from hugr.build.dfg import Dfg
    from hugr.std.int import INT_T
    out = {"evaluations": 0, "violations": []}

    def fail(what):
        script = write_replay_script("C08", f"wrapper_{len(out['violations'])}", what, f"\nprint({what!r})\nsys.exit(1)\n")
        out["violations"].append({"clause": "insert wrapper: " + what[:80], "replay": script})

    def outer():
        d = Dfg(T.Bool, INT_T)
        return d, d.inputs()

    def check(name, d, node, wires, inner_root_op):
        out["evaluations"] += 1
        h = d.hugr
        nd = h[node]
        if nd.parent is None or nd.parent.idx != d.parent_node.idx:
            return fail(f"{name}: image of the root does not hang under the builder's parent")
        if nd.op is not inner_root_op:
            return fail(f"{name}: root operation not the inserted one")
        for i, wv in enumerate(wires):
            src = wv.out_port()
            if list(h.linked_ports(node.inp(i))) != [src]:
                return fail(f"{name}: argument {i} not wired to input {i}")
    d, (b, x) = outer()
    inner = Dfg(T.Bool, INT_T)
    inner.set_outputs(*inner.inputs())
    check("insert_nested", d, d.insert_nested(inner, b, x), [b, x], inner.hugr.root_op())
    d, (b, x) = outer()
    cfg = Cfg(T.Bool, INT_T)
    with cfg.add_entry() as e:
        e.set_single_succ_outputs(*e.inputs())
    cfg.branch_exit(e[0])
    check("insert_cfg", d, d.insert_cfg(cfg, b, x), [b, x], cfg.hugr.root_op())
    d, (b, x) = outer()
    cond = Conditional(T.Bool, [INT_T])
    for i in (0, 1):
        with cond.add_case(i) as c:
            c.set_outputs(*c.inputs())
    check("insert_conditional", d, d.insert_conditional(cond, b, x), [b, x], cond.hugr.root_op())
    d, (b, x) = outer()
    tl = TailLoop([T.Bool], [INT_T])
    j, r = tl.inputs()
    t = tl.add_op(O.Tag(0, T.Sum([[T.Bool], [T.Bool]])), j)
    tl.set_loop_outputs(t, r)
    check("insert_tail_loop", d, d.insert_tail_loop(tl, [b], [x]), [b, x], tl.hugr.root_op())
    return out


if __name__ == "__main__":
    main()
