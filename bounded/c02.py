"""Bounded stand-ins for C02 (JSON round trip lossless + fixed point) and C03 (emitted documents are
index-sane and address ports by signature position), on HUGRs from bounded.hugr_gen: builder
programs of every kind followed by delete / insert / link mutation histories.

The oracle is written from the statements, independently of Hugr._to_serial:
  * the listing order the wire format needs: smallest index first among the nodes whose parent and
    previous sibling are already listed (= plain index order whenever index order agrees with the
    hierarchy);
  * observable structure compared through that renumbering: encoded operation, parent, child
    order, metadata (as JSON), multiset of links per port incl. order links;
  * C03: root first and own parent, parent listed earlier, endpoints exist, port offsets from the
    operation's signature (value position / static port after value inputs / order port after those).
Schema validation of the emitted documents happens in the check (jsonschema lives in the tooling
python): documents are written to replays/<prop>/docs.jsonl.
"""
import json
import os
import time
from collections import Counter

from bounded.util import VERIF, emit, write_replay_script


def expected_order(h):
    """Oracle for the listing order (quadratic, straightforward)."""
    live = sorted(n.idx for n in h)
    from hugr.hugr.node_port import Node
    listed, order = set(), []
    prev_sib = {}
    for i in live:
        ch = [c.idx for c in h[Node(i)].children]
        for a, b in zip(ch, ch[1:]):
            prev_sib[b] = a
    while len(order) < len(live):
        for i in live:
            if i in listed:
                continue
            d = h[Node(i)]
            par_ok = d.parent is None or d.parent.idx in listed
            sib_ok = i not in prev_sib or prev_sib[i] in listed
            if par_ok and sib_ok:
                order.append(i)
                listed.add(i)
                break
        else:
            return None     # hierarchy not well formed (not produced by the generators)
    return order


def enc_op(op):
    from hugr.hugr.node_port import Node
    d = json.loads(op._to_serial(Node(0)).model_dump_json())
    d.pop("parent", None)
    return d


def structure(h, rename):
    """Observable structure with node indices renamed."""
    from hugr.hugr.node_port import Node
    nodes = {}
    for n in h:
        d = h[n]
        nodes[rename[n.idx]] = {
            "op": enc_op(d.op),
            "parent": rename[d.parent.idx] if d.parent is not None else None,
            "children": [rename[c.idx] for c in d.children],
            "meta": json.loads(json.dumps(d.metadata)),
        }
    links = Counter(((rename[s.node.idx], s.offset), (rename[t.node.idx], t.offset)) for s, t in h.links())
    # the same links as the per-port queries report them (a link the store holds but no port query shows,
    # or the other way round, is a difference too)
    for n in h:
        seen_in = Counter()
        for ip, srcs in h.incoming_links(n):
            for sp in srcs:
                seen_in[((rename[sp.node.idx], sp.offset), (rename[n.idx], ip.offset))] += 1
        seen_out = Counter()
        for op_, dsts in h.outgoing_links(n):
            for dp in dsts:
                seen_out[((rename[n.idx], op_.offset), (rename[dp.node.idx], dp.offset))] += 1
        nodes[rename[n.idx]]["in_links"] = sorted(seen_in.elements())
        nodes[rename[n.idx]]["out_links"] = sorted(seen_out.elements())
    return nodes, links


def check_c02(h):
    """None, ('known', id, what) or ('violation', what)."""
    from hugr.hugr import Hugr
    order = expected_order(h)
    if order is None:
        return None
    s1 = h.to_json()
    try:
        h2 = Hugr.load_json(s1)
    except Exception as e:  # noqa: BLE001
        return ("violation", f"load_json(to_json()) raised {type(e).__name__}: {str(e)[:80]}")
    s2 = h2.to_json()
    if json.loads(s1) != json.loads(s2):
        return ("violation", "re-serialization gives a different JSON document")
    rename = {old: new for new, old in enumerate(order)}
    n1, l1 = structure(h, rename)
    n2, l2 = structure(h2, {n.idx: n.idx for n in h2})
    if set(n1) != set(n2):
        return ("violation", f"node count {len(n2)} != {len(n1)}")
    for i in sorted(n1):
        for k in ("op", "parent", "children", "meta"):
            if n1[i][k] != n2[i][k]:
                return ("violation", f"node {order[i]} (listed at {i}): {k} differs after the round trip: {str(n1[i][k])[:60]} vs {str(n2[i][k])[:60]}")
    ambiguous = False
    if l1 != l2:
        # a value link attached at exactly the order-port positions of two dataflow operations (ports the
        # operations do not have) is written like a state-order edge and comes back as one
        from hugr.hugr.node_port import Node
        l1b = Counter()
        for (s, t), k in l1.items():
            so, to = order[s[0]], order[t[0]]
            ps, pt = port_counts(h[Node(so)].op), port_counts(h[Node(to)].op)
            if s[1] >= 0 and ps is not None and pt is not None and s[1] == ps[2] and t[1] == pt[0] + pt[1]:
                l1b[((s[0], -1), (t[0], -1))] += k
                ambiguous = True
            else:
                l1b[(s, t)] += k
        if l1b != l2:
            lost = sorted((l1 - l2).elements())[:3]
            extra = sorted((l2 - l1).elements())[:3]
            return ("violation", f"links differ after the round trip: lost {lost} extra {extra}")
    if not ambiguous:
        # the links as the port queries of the two HUGRs report them
        for i in sorted(n1):
            for k in ("in_links", "out_links"):
                if n1[i][k] != n2[i][k]:
                    a, b = Counter(n1[i][k]), Counter(n2[i][k])
                    return ("violation", f"node {order[i]} (listed at {i}): {k} reported by the port queries differ after the round trip: "
                                         f"only before {sorted((a - b).elements())[:3]} only after {sorted((b - a).elements())[:3]}")
    if ambiguous:
        return ("known", "C02-value-link-at-order-positions", "a value link attached at exactly the order-port positions of both operations is indistinguishable from a state-order edge on the wire")
    if order != sorted(order):
        return ("known", "C02-renumbering-vs-hierarchy", "index order contradicts hierarchy order (a child or later sibling has a smaller index): renumbering cannot be order-preserving")
    return None


def port_counts(op):
    """(value inputs, static inputs, value outputs) from the operation's signature; None when the op has no dataflow signature."""
    import hugr.ops as O
    if isinstance(op, O.Call):
        return len(op.instantiation.input), 1, len(op.instantiation.output)
    if isinstance(op, (O.LoadConst, O.LoadFunc)):
        return 0, 1, 1
    if isinstance(op, O.DataflowOp):
        sig = op.outer_signature()
        return len(sig.input), 0, len(sig.output)
    return None


def check_c03(h, tame, docs):
    from hugr.hugr.node_port import Node
    order = expected_order(h)
    if order is None:
        return None
    s1 = h.to_json()
    doc = json.loads(s1)
    docs.append(("Hugr", s1))
    nodes, edges = doc["nodes"], doc["edges"]
    n = len(nodes)
    if n != h.num_nodes():
        return f"{n} nodes emitted for {h.num_nodes()} live nodes"
    if nodes[0]["parent"] != 0:
        return "node 0 is not its own parent (not the root)"
    for i in range(1, n):
        p = nodes[i]["parent"]
        if not (0 <= p < i):
            return f"node {i}: parent {p} is not a different node listed earlier"
    for (s, so), (t, to) in edges:
        if not (0 <= s < n and 0 <= t < n):
            return f"edge ({s},{so})->({t},{to}) names a node that does not exist"
    if not tame:
        return None
    rename = {old: new for new, old in enumerate(order)}
    want = Counter()
    for s, t in h.links():
        sop, top = h[s.node].op, h[t.node].op
        if s.offset == -1:
            pc_s, pc_t = port_counts(sop), port_counts(top)
            if pc_s is None or pc_t is None:
                continue
            so, to = pc_s[2], pc_t[0] + pc_t[1]
        else:
            so, to = s.offset, t.offset
        want[((rename[s.node.idx], so), (rename[t.node.idx], to))] += 1
    got = Counter(((s, so), (t, to)) for (s, so), (t, to) in edges)
    order_pairs = sum(1 for s, t in h.links() if s.offset == -1 and (port_counts(h[s.node].op) is None or port_counts(h[t.node].op) is None))
    if order_pairs == 0 and got != want:
        bad = sorted((got - want).elements())[:2]
        exp = sorted((want - got).elements())[:2]
        return f"port addressing: emitted {bad}, expected by signature position {exp}"
    return None


def packages(docs):
    """Package and extension documents (validated against the schema by the check)."""
    import hugr.tys as T
    from hugr.ext import Extension, OpDef, OpDefSig, TypeDef, ExplicitBound, FromParamsBound
    from hugr.package import Package
    from hugr.std.int import INT_OPS_EXTENSION, INT_TYPES_EXTENSION
    from hugr.std.logic import EXTENSION as LOGIC
    from bounded.hugr_gen import gen
    import semver
    e = Extension("my.ext", semver.Version(0, 1, 0))
    e.add_type_def(TypeDef("T1", "a type", [T.TypeTypeParam(T.TypeBound.Any)], FromParamsBound([0])))
    e.add_type_def(TypeDef("T2", "", [], ExplicitBound(T.TypeBound.Copyable)))
    e.add_op_def(OpDef("op1", OpDefSig(T.FunctionType([T.Bool], [T.Bool])), "an op", {"k": 1}))
    e.add_op_def(OpDef("op2", OpDefSig(None, binary=True)))
    n = 0
    for ex in (e, LOGIC, INT_OPS_EXTENSION, INT_TYPES_EXTENSION):
        docs.append(("Extension", ex.to_json()))
        n += 1
    for seed in range(6):
        h1, _ = gen(1000 + seed, wild_ok=False)
        h2, _ = gen(2000 + seed, wild_ok=False)
        p = Package([h1, h2], [e, LOGIC] if seed % 2 else [])
        docs.append(("Package", p._to_serial().model_dump_json()))
        n += 1
    return n


def main(which="C02"):
    from bounded.hugr_gen import gen
    tier = os.environ.get("VERIF_TIER", "quick")
    seed0 = int(os.environ.get("VERIF_SEED", "0") or 0)
    t0 = time.time()
    runs = 700 if tier == "quick" else 7000
    violations, samples, known = [], [], Counter()
    known_what = {}
    ev = nontrivial = 0
    seen = set()
    docs = []
    progs = Counter()
    for k in range(runs):
        seed = seed0 * 1000003 + k
        try:
            h, info = gen(seed)
        except Exception as e:  # noqa: BLE001
            why = f"generator program raised {type(e).__name__}: {str(e)[:80]}"
            if "gen" not in seen:
                seen.add("gen")
                script = write_replay_script(which, "generator", why, f"\nfrom bounded.hugr_gen import gen\ngen({seed})\n")
                violations.append({"clause": "builder program / mutation raised: " + why[:80], "replay": script})
            continue
        ev += 1
        progs[info["program"]] += 1
        if info["history"]:
            nontrivial += 1
        if which == "C02":
            r = check_c02(h)
            why = None
            if r is not None and r[0] == "known":
                known[r[1]] += 1
                known_what[r[1]] = r[2] + f" (e.g. seed {seed})"
            elif r is not None:
                why = r[1]
        else:
            try:
                why = check_c03(h, info["tame"], docs if len(docs) < (150 if tier == "quick" else 600) else [])
            except Exception as e:  # noqa: BLE001
                why = f"serialization raised {type(e).__name__}: {str(e)[:80]}"
        if why is not None:
            key = why.split(":")[0][:28]
            if key in seen or len(violations) >= 6:
                continue
            seen.add(key)
            fn = "check_c02" if which == "C02" else "check_c03"
            script = write_replay_script(which, f"bounded_{len(violations)}", f"seed {seed} ({info['program']}, history {info['history']!r}): {why}"[:900], f"""
from bounded.hugr_gen import gen
from bounded.c02 import check_c02, check_c03
h, info = gen({seed})
print(info)
r = check_c02(h) if {which!r} == "C02" else check_c03(h, info["tame"], [])
print("result:", r)
sys.exit(1 if (r is not None and not (isinstance(r, tuple) and r[0] == "known")) else 0)
""")
            violations.append({"clause": f"{which} on generated HUGR: " + why[:100], "replay": script})
        elif len(samples) < 3 and info["history"]:
            samples.append({"seed": seed, "program": info["program"], "history_len": len(info["history"])})
    extra_docs = 0
    if which == "C03":
        extra_docs = packages(docs)
        d = os.path.join(VERIF, "replays", "C03")
        os.makedirs(d, exist_ok=True)
        with open(os.environ.get("VERIF_C03_DOCS") or os.path.join(d, "docs.jsonl"), "w") as f:
            for kind, s in docs:
                f.write(json.dumps({"kind": kind, "doc": json.loads(s)}) + "\n")
    emit({
        "name": "bounded." + which.lower(),
        "kind": "seeded random HUGRs (builder programs of 7 kinds + mutation histories) against an oracle written from the statement",
        "bound": f"{runs} HUGRs: programs {dict(progs)}; 0..6 mutation steps (delete subtree / insert with index reuse / metadata / arbitrary links and nodes)" + (f"; {extra_docs} package and extension documents" if extra_docs else ""),
        "exhaustive": False,
        "evaluations": ev + extra_docs,
        "distinct_nontrivial": nontrivial,
        "rule": "evaluation = one HUGR serialized (and reloaded for C02) and compared; non-trivial = has a mutation history",
        "samples": samples,
        "violations": violations,
        "known_candidates": [{"id": k, "count": v, "what": known_what[k]} for k, v in known.items()],
        "docs_written": len(docs),
        "wall_s": round(time.time() - t0, 2),
    })


if __name__ == "__main__":
    main(os.environ.get("VERIF_WHICH", "C02"))
