"""Bounded stand-in for C16: (a) Node indexing/slicing/iteration against Python's own slicing of
range(n), exhaustively over a window; (b) handle counts of nodes returned by the graph and the
builders.  Part (a) is a differential check of the proof; part (b) stands in for the
count-carrying paths in base.py / build/*.py (bounded, not proved)."""
import itertools
import os
import time

from bounded.util import emit, write_replay_script


def expected_slice(n, start, stop, step):
    if n is None:
        if stop is None:
            return ValueError
        if (start is not None and start < 0) or stop < 0:
            return IndexError
        return list(range(start or 0, stop, step or 1))
    for b in (start, stop):
        if b is not None and b < -n:
            return IndexError
    return list(range(n))[slice(start, stop, step)]


def main():
    tier = os.environ.get("VERIF_TIER", "quick")
    t0 = time.time()
    from hugr.hugr.node_port import InPort, Node, OutPort
    violations, samples = [], []
    evaluations = distinct = 0
    N = 4 if tier == "quick" else 6
    W = 6 if tier == "quick" else 9
    bounds = [None] + list(range(-W, W + 1))
    steps = [None, 1, 2, 3]

    def fail(clause, expr, exp, got):
        script = write_replay_script("C16", f"bounded_{len(violations)}", f"{expr}: expected {exp!r}, got {got!r}", f"""
from hugr.hugr.node_port import Node, OutPort, InPort
def show(f):
    try:
        r = f()
        return list(r) if not isinstance(r, (OutPort, InPort)) else r
    except Exception as e:
        return type(e).__name__
got = show(lambda: {expr})
print({expr!r}, "->", got, " expected: {exp!r}")
sys.exit(0 if repr(got) == {repr(got)!r} and False else 1)
""")
        violations.append({"clause": clause, "replay": script})

    def run(f):
        try:
            r = f()
            if isinstance(r, (OutPort, InPort)):
                return r
            return list(r)
        except Exception as e:  # noqa: BLE001
            return type(e)

    for n in [None] + list(range(0, N + 1)):
        node = Node(7, {}, n)
        # integer indexing
        for i in range(-W, W + 1):
            evaluations += 1
            if n is None:
                exp = IndexError if i < 0 else OutPort(node, i)
            else:
                exp = OutPort(node, range(n)[i]) if -n <= i < n else IndexError
            got = run(lambda: node[i])
            if got != exp and len(violations) < 5:
                fail("integer indexing", f"Node(7, {{}}, {n})[{i}]", exp, got)
        # slicing
        for a, b, c in itertools.product(bounds, bounds, steps):
            evaluations += 1
            e = expected_slice(n, a, b, c)
            exp = e if isinstance(e, type) else [OutPort(node, k) for k in e]
            got = run(lambda: node[a:b:c])
            if got != exp and len(violations) < 5:
                fail("slicing", f"Node(7, {{}}, {n})[{a}:{b}:{c}]", exp, got)
            elif len(samples) < 3 and isinstance(exp, list) and len(exp) > 1:
                samples.append({"expr": f"Node(7,{{}},{n})[{a}:{b}:{c}]", "offsets": [p.offset for p in exp]})
        # iteration / outputs / out_port
        evaluations += 1
        exp = ValueError if n is None else [OutPort(node, k) for k in range(n)]
        for what, f in (("iter", lambda: iter(node)), ("outputs", lambda: node.outputs())):
            got = run(f)
            if got != exp and len(violations) < 5:
                fail("iteration", f"list(Node(7, {{}}, {n}).{'__iter__' if what == 'iter' else 'outputs'}())", exp, got)
        if node.out_port() != OutPort(node, 0):
            fail("wire", f"Node(7, {{}}, {n}).out_port()", OutPort(node, 0), node.out_port())
    distinct = evaluations
    # equality and hashing by (index, offset) only
    a, b = Node(3, {"x": 1}, 2), Node(3, {}, None)
    evaluations += 4
    if not (a == b and hash(a) == hash(b) and OutPort(a, 1) == OutPort(b, 1) and hash(OutPort(a, 1)) == hash(OutPort(b, 1)) and OutPort(a, 1) != InPort(a, 1)
            and OutPort(a, 1) != OutPort(a, 2) and OutPort(a, 1) != OutPort(Node(4), 1) and len({OutPort(a, 0), OutPort(b, 0)}) == 1):
        fail("equality/hash", "Node(3, {'x': 1}, 2) == Node(3, {}, None) and port equality", True, False)

    # (b) handles returned by the API
    api = api_handles(fail)
    api.pop("_history", None)
    violations += api.pop("violations", [])
    emit({
        "name": "bounded.c16",
        "kind": "exhaustive window for indexing (differential check of the proof) + API handle counts (bounded stand-in)",
        "bound": f"n in None,0..{N}; int index and slice bounds in -{W}..{W} or None; step in None,1,2,3; API programs: {api['programs']}",
        "exhaustive": True,
        "evaluations": evaluations + api["evaluations"],
        "distinct_nontrivial": distinct + api["evaluations"],
        "rule": "distinct (n, index) / (n, start, stop, step) combinations compared with range(n)[...]; API: one program per builder entry point, handle count compared with len(outer_signature().output)",
        "samples": samples + api["samples"],
        "violations": violations,
        "wall_s": round(time.time() - t0, 2),
    })


def api_handles(fail):
    """Handles returned by add_node with a count, add_op / add / extend / call / load /
    insert_* and by container builders once their outputs are set."""
    import hugr.ops as ops
    import hugr.tys as tys
    import hugr.val as val
    from hugr.build.cfg import Cfg
    from hugr.build.cond_loop import Conditional, TailLoop
    from hugr.build.dfg import Dfg
    from hugr.build.function import Module
    from hugr.hugr import Hugr
    from hugr.std.int import INT_T, DivMod
    from hugr.std.logic import Not
    out = {"evaluations": 0, "samples": [], "programs": 0}

    def check(what, node, n):
        out["evaluations"] += 1
        try:
            got = len(list(node))
        except Exception as e:  # noqa: BLE001
            got = type(e).__name__
        if got != n:
            fail("handle count: " + what, what, n, got)
        elif len(out["samples"]) < 4:
            out["samples"].append({"program": what, "count": n})

    for k in range(0, 4):
        h = Hugr()
        check(f"Hugr().add_node(Noop, num_outs={k})", h.add_node(ops.Noop(tys.Bool), num_outs=k), k)
    d = Dfg(tys.Bool, INT_T, INT_T)
    b, x, y = d.inputs()
    check("Dfg.add_op(Not, b)", d.add_op(Not, b), 1)
    check("Dfg.add_op(DivMod, x, y)", d.add_op(DivMod, x, y), 2)
    check("Dfg.add(MakeTuple()(b, x))", d.add(ops.MakeTuple()(b, x)), 1)
    t = d.add(ops.MakeTuple()(b, x))
    check("Dfg.add(UnpackTuple()(t))", d.add(ops.UnpackTuple()(t)), 2)
    for i, nd in enumerate(d.extend(ops.Noop()(b), DivMod(x, y))):
        check(f"Dfg.extend(...)[{i}]", nd, [1, 2][i])
    check("Dfg.load(TRUE)", d.load(val.TRUE), 1)
    check("Dfg.load(Tuple(TRUE, FALSE))", d.load(val.Tuple(val.TRUE, val.FALSE)), 1)
    inner = Dfg(tys.Bool)
    inner.set_outputs(*inner.inputs(), *inner.inputs())
    check("insert_nested(dfg with 2 outputs)", d.insert_nested(inner, b), 2)
    with d.add_nested(b, x) as nested:
        nested.set_outputs(*nested.inputs())
    check("add_nested(...).set_outputs(2 wires)", nested, 2)
    check("add_nested parent_node", nested.parent_node, 2)
    tl = TailLoop([tys.Bool], [INT_T])
    jb, rx = tl.inputs()
    cont = tl.add_op(ops.Tag(0, tys.Sum([[tys.Bool], [tys.Bool]])), jb)
    tl.set_loop_outputs(cont, rx)
    check("insert_tail_loop", d.insert_tail_loop(tl, [b], [x]), 2)
    with d.add_tail_loop([b], [x]) as tl2:
        jb, rx = tl2.inputs()
        c2 = tl2.add_op(ops.Tag(1, tys.Sum([[tys.Bool], [tys.Bool, tys.Bool]])), jb, jb)
        tl2.set_loop_outputs(c2, rx)
    check("add_tail_loop once outputs are set", tl2, 3)
    cond = Conditional(tys.Bool, [INT_T])
    with cond.add_case(0) as c0:
        c0.set_outputs(*c0.inputs())
    with cond.add_case(1) as c1:
        c1.set_outputs(*c1.inputs())
    check("insert_conditional", d.insert_conditional(cond, b, x), 1)
    with d.add_conditional(b, x) as cnd:
        with cnd.add_case(0) as c0:
            c0.set_outputs(*c0.inputs(), *c0.inputs())
        with cnd.add_case(1) as c1:
            c1.set_outputs(*c1.inputs(), *c1.inputs())
    check("add_conditional once cases are built", cnd, 2)
    cfg = Cfg(tys.Bool)
    with cfg.add_entry() as entry:
        entry.set_single_succ_outputs(*entry.inputs())
    cfg.branch_exit(entry[0])
    check("insert_cfg", d.insert_cfg(cfg, b), 1)
    with d.add_cfg(b, x) as cfg2:
        with cfg2.add_entry() as e2:
            e2.set_single_succ_outputs(*e2.inputs())
        cfg2.branch_exit(e2[0])
    check("add_cfg once the exit is branched to", cfg2, 2)
    # every number of outputs 0..6, through the context-manager builder and through a stand-alone one
    for k in range(7):
        with d.add_nested(b) as nk:
            nk.set_outputs(*[nk.inputs()[0]] * k)
        check(f"add_nested(...).set_outputs({k} wires)", nk, k)
        check(f"add_nested parent_node with {k} outputs", nk.parent_node, k)
        ek = Dfg(tys.Bool)
        ek.set_outputs(*[ek.inputs()[0]] * k)
        check(f"Dfg(...).set_outputs({k} wires) parent_node", ek.parent_node, k)
        check(f"insert_nested(dfg with {k} outputs)", d.insert_nested(ek, b), k)
    # containers whose output row is empty: the count 0 is a count like any other
    with d.add_nested(b) as n0:
        n0.set_outputs()
    check("add_nested(...).set_outputs() with no outputs", n0, 0)
    check("add_nested parent_node with no outputs", n0.parent_node, 0)
    e0 = Dfg(tys.Bool)
    e0.set_outputs()
    check("insert_nested(dfg with 0 outputs)", d.insert_nested(e0, b), 0)
    with d.add_conditional(b) as cn0:
        with cn0.add_case(0) as c0:
            c0.set_outputs()
        with cn0.add_case(1) as c1:
            c1.set_outputs()
    check("add_conditional with empty outputs", cn0, 0)
    with d.add_cfg(b) as cfg0:
        with cfg0.add_entry() as en0:
            en0.set_single_succ_outputs()
        cfg0.branch_exit(en0[0])
    check("add_cfg with empty outputs", cfg0, 0)
    with d.add_tail_loop([b], []) as tl0:
        (jb0,) = tl0.inputs()
        tl0.set_loop_outputs(tl0.add_op(ops.Tag(1, tys.Sum([[tys.Bool], []]))))
    check("add_tail_loop with empty outputs", tl0, 0)
    m = Module()
    f = m.define_function("f", [tys.Bool], [tys.Bool, tys.Bool])
    f.set_outputs(*f.inputs(), *f.inputs())
    g = m.define_function("g", [tys.Bool])
    check("call(f: Bool -> Bool, Bool)", g.call(f, *g.inputs()), 2)
    # a function polymorphic over a row of types: the handle's count follows the instantiation, not the declared body
    A = tys.TypeBound.Any
    rowpoly = tys.PolyFuncType([tys.ListParam(tys.TypeTypeParam(A))], tys.FunctionType([tys.Bool], [tys.RowVariable(0, A)]))
    for outs in ([], [tys.Bool], [tys.Bool, INT_T], [tys.Bool, tys.Bool, INT_T]):
        m2 = Module()
        fr = m2.declare_function("spread", rowpoly)
        g2 = m2.define_main([tys.Bool])
        c = g2.call(fr, *g2.inputs(), instantiation=tys.FunctionType([tys.Bool], outs), type_args=[tys.SequenceArg([t.type_arg() for t in outs])])
        check(f"call of a row-polymorphic function instantiated with {len(outs)} outputs", c, len(outs))
    # histories: a handle's count is never inherited from a node that had the index before (delete_node
    # frees the index, the next node takes it): without a count a handle indexes freely and refuses to iterate
    from hugr.hugr.node_port import OutPort

    def history(n_old, adder):
        """(old handle, new handle) of the history: add a node with n_old outputs, delete it, add a node without a count"""
        dd = Dfg(tys.Bool)
        (bb,) = dd.inputs()
        hh = dd.hugr
        old = hh.add_node(ops.Noop(tys.Bool), dd.parent_node, num_outs=n_old)
        hh.delete_node(old)
        if adder == "add_node":
            new = hh.add_node(ops.Noop(tys.Bool), dd.parent_node)
        elif adder == "add_const":
            new = hh.add_const(val.TRUE, dd.parent_node)
        else:
            new = dd.add_nested(bb)
        return old, new

    def unknown_count(node):
        try:
            list(node)
            got = "iterates"
        except ValueError:
            got = "ValueError"
        except Exception as e:  # noqa: BLE001
            got = type(e).__name__
        try:
            idx_ok = [node[0], node[7]] == [OutPort(node.to_node(), 0), OutPort(node.to_node(), 7)]
        except Exception as e:  # noqa: BLE001
            idx_ok = type(e).__name__
        return got, idx_ok
    out["_history"] = (history, unknown_count)

    for n_old in (0, 1, 3):
        for adder in ("add_node", "add_const", "add_nested before set_outputs"):
            old, new = history(n_old, adder)
            out["evaluations"] += 1
            if new.to_node().idx == old.idx:
                got = unknown_count(new)
                if got != ("ValueError", True):
                    from bounded.util import write_replay_script
                    what = f"{adder} taking the index of a deleted node that had {n_old} outputs: iteration -> {got[0]} (ValueError expected), indexing ok: {got[1]}"
                    script = write_replay_script("C16", f"bounded_history_{n_old}_{adder.split()[0]}", what, f"""
from bounded.c16 import api_handles
res = api_handles(lambda *a: None)
history, unknown_count = res["_history"]
old, new = history({n_old}, {adder!r})
got = unknown_count(new)
print("handle", new, "after a deleted handle with {n_old} outputs:", got)
sys.exit(0 if got == ("ValueError", True) else 1)
""")
                    out.setdefault("violations", []).append({"clause": "handle without a known count: " + what[:150], "replay": script})
            # and a count given at creation wins over whatever the index had before
            hh2 = Hugr()
            o2 = hh2.add_node(ops.Noop(tys.Bool), num_outs=n_old)
            hh2.delete_node(o2)
            check(f"add_node(num_outs={n_old + 1}) taking the index of a deleted node that had {n_old}", hh2.add_node(ops.Noop(tys.Bool), num_outs=n_old + 1), n_old + 1)
    out["programs"] = out["evaluations"]
    return out


if __name__ == "__main__":
    main()
