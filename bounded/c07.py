"""Bounded stand-in / differential check for C07: real type_bound() on all type expressions up to a
small depth against an independent structural oracle; serialized bound; StaticArray rejection."""
import itertools
import os
import time

from bounded.util import emit, write_replay_script


def main():
    tier = os.environ.get("VERIF_TIER", "quick")
    t0 = time.time()
    import hugr.tys as T
    from hugr.ext import ExplicitBound, Extension, FromParamsBound, TypeDef
    from hugr.std.collections.array import Array
    from hugr.std.collections.list import List
    from hugr.std.collections.static_array import StaticArray
    import semver
    C, A = T.TypeBound.Copyable, T.TypeBound.Any
    ext = Extension("e", semver.Version(0, 1, 0))
    d_exp_c = ext.add_type_def(TypeDef("ec", "", [], ExplicitBound(C)))
    d_exp_a = ext.add_type_def(TypeDef("ea", "", [], ExplicitBound(A)))
    d_fp0 = ext.add_type_def(TypeDef("fp0", "", [T.TypeTypeParam(A)], FromParamsBound([0])))
    d_fp01 = ext.add_type_def(TypeDef("fp01", "", [T.TypeTypeParam(A), T.TypeTypeParam(A)], FromParamsBound([0, 1])))
    d_fp1 = ext.add_type_def(TypeDef("fp1", "", [T.TypeTypeParam(A), T.TypeTypeParam(A)], FromParamsBound([1])))
    d_fp_none = ext.add_type_def(TypeDef("fpn", "", [T.TypeTypeParam(A)], FromParamsBound([])))
    # index lists that name non-type parameters too, in both orders, and a repeated index
    d_mix01 = ext.add_type_def(TypeDef("mix01", "", [T.BoundedNatParam(9), T.TypeTypeParam(A)], FromParamsBound([0, 1])))
    d_mix10 = ext.add_type_def(TypeDef("mix10", "", [T.BoundedNatParam(9), T.TypeTypeParam(A)], FromParamsBound([1, 0])))
    d_mix_seq = ext.add_type_def(TypeDef("mixs", "", [T.ListParam(T.TypeTypeParam(A)), T.TypeTypeParam(A), T.TypeTypeParam(A)], FromParamsBound([0, 2, 2])))

    atoms = [
        ("Bool", T.Bool, True), ("Qubit", T.Qubit, False), ("USize", T.USize(), True), ("Unit", T.Unit, True),
        ("Var C", T.Variable(0, C), True), ("Var A", T.Variable(1, A), False), ("RowVar A", T.RowVariable(2, A), False),
        ("Alias C", T.Alias("a", C), True), ("Alias A", T.Alias("b", A), False),
        ("Opaque C", T.Opaque("o", C), True), ("Opaque A", T.Opaque("p", A), False),
        ("Fn", T.FunctionType([T.Qubit], [T.Qubit]), True),
        ("Ext explicit C", T.ExtType(d_exp_c), True), ("Ext explicit A", T.ExtType(d_exp_a), False), ("EmptySum", T.Sum([]), True),
    ]

    def level(prev):
        out = []
        for (n1, t1, c1), (n2, t2, c2) in itertools.product(prev, repeat=2):
            out.append((f"Sum([[{n1}],[{n2}]])", T.Sum([[t1], [t2]]), c1 and c2))
            out.append((f"Tuple({n1},{n2})", T.Tuple(t1, t2), c1 and c2))
            out.append((f"Either([{n1}],[{n2}])", T.Either([t1], [t2]), c1 and c2))
            out.append((f"fp01<{n1},{n2}>", T.ExtType(d_fp01, [T.TypeTypeArg(t1), T.TypeTypeArg(t2)]), c1 and c2))
            out.append((f"fp1<{n1},{n2}>", T.ExtType(d_fp1, [T.TypeTypeArg(t1), T.TypeTypeArg(t2)]), c2))
        for (n1, t1, c1) in prev:
            out.append((f"Option({n1})", T.Option(t1), c1))
            out.append((f"Tuple({n1})", T.Tuple(t1), c1))
            out.append((f"fp0<{n1}>", T.ExtType(d_fp0, [T.TypeTypeArg(t1)]), c1))
            out.append((f"fpn<{n1}>", T.ExtType(d_fp_none, [T.TypeTypeArg(t1)]), True))
            out.append((f"mix01<3,{n1}>", T.ExtType(d_mix01, [T.BoundedNatArg(3), T.TypeTypeArg(t1)]), c1))
            out.append((f"mix10<3,{n1}>", T.ExtType(d_mix10, [T.BoundedNatArg(3), T.TypeTypeArg(t1)]), c1))
            out.append((f"mixs<[Qubit],Qubit,{n1}>", T.ExtType(d_mix_seq, [T.SequenceArg([T.TypeTypeArg(T.Qubit)]), T.TypeTypeArg(T.Qubit), T.TypeTypeArg(t1)]), c1))
            out.append((f"Array<{n1},3>", Array(t1, 3), c1))
            out.append((f"List<{n1}>", List(t1), c1))
            out.append((f"Fn([{n1}])", T.FunctionType([t1], [t1]), True))
            if c1:
                out.append((f"StaticArray<{n1}>", StaticArray(t1), True))
        return out
    lvl1 = level(atoms)
    pool = atoms + lvl1
    if tier == "thorough":
        import random
        rnd = random.Random(int(os.environ.get("VERIF_SEED", "0") or 0))
        pool = pool + level(rnd.sample(lvl1, 60))
    else:
        pool = pool + level(lvl1[::23])
    violations, samples = [], []
    evaluations = 0
    pool = pool + [("PolyFn", T.PolyFuncType([], T.FunctionType([T.Qubit], [])), True)]  # not nestable: not a serializable Type

    def fail(clause, what):
        script = write_replay_script("C07", f"bounded_{len(violations)}", what, f"""
print({what!r})
sys.exit(1)
""")
        violations.append({"clause": clause, "replay": script})

    for name, t, cop in pool:
        evaluations += 1
        got = t.type_bound()
        if (got == C) != cop:
            if len(violations) < 5:
                fail("type_bound = Copyable iff all constituents copyable", f"{name}.type_bound() = {got}, structural oracle says copyable={cop}")
            continue
        if isinstance(t, T.ExtType):
            evaluations += 1
            o = t._to_opaque()
            s = t._to_serial()
            if o.bound != got or s.bound != got or o.type_bound() != got:
                if len(violations) < 5:
                    fail("serialized bound equals computed bound", f"{name}: computed {got}, opaque {o.bound}, serial {s.bound}")
        if len(samples) < 5 and not cop and "Sum" in name:
            samples.append({"type": name, "bound": str(got)})
    # definitions loaded from the bundled JSON files, reached through Opaque.resolve / TypeDef.instantiate (plain ExtType,
    # not the std subclasses), evaluated repeatedly: the bound is a function of the type, not of the evaluation history
    from hugr.ext import ExtensionRegistry, FromParamsBound as _FPB
    from hugr.std.collections.array import EXTENSION as ARR_EXT
    from hugr.std.collections.list import EXTENSION as LIST_EXT
    reg = ExtensionRegistry()
    reg.add_extension(ARR_EXT)
    reg.add_extension(LIST_EXT)
    for e_ in (ARR_EXT, LIST_EXT):
        for td in e_.types.values():
            evaluations += 1
            if isinstance(td.bound, _FPB) and not isinstance(td.bound.indices, list):
                fail("loaded type definition: the index list of a from-parameters bound is a list", f"{e_.name}.{td.name}.bound.indices is a {type(td.bound.indices).__name__}")
    for el_name, el, el_cop in atoms[:8]:
        cases = [
            (f"resolved array<2,{el_name}>", lambda el=el: T.Opaque("array", el.type_bound(), [T.BoundedNatArg(2), T.TypeTypeArg(el)], "collections.array").resolve(reg)),
            (f"resolved List<{el_name}>", lambda el=el: T.Opaque("List", el.type_bound(), [T.TypeTypeArg(el)], "collections.list").resolve(reg)),
            (f"instantiated List<{el_name}>", lambda el=el: LIST_EXT.get_type("List").instantiate([T.TypeTypeArg(el)])),
        ]
        for nm, mk in cases:
            for rep in range(3):
                evaluations += 1
                t = mk()
                got = [t.type_bound(), t.type_bound(), t._to_serial().bound]
                if any((g == C) != el_cop for g in got):
                    if len(violations) < 6:
                        fail("type_bound of a definition-backed type over a loaded definition (repeated evaluation)", f"{nm}, evaluation round {rep}: {got}, element copyable={el_cop}")
                    break
    # containers that require copyable elements reject linear ones
    for name, t, cop in atoms + lvl1[:200]:
        evaluations += 1
        try:
            StaticArray(t)
            ok = cop
        except ValueError:
            ok = not cop
        if not ok and len(violations) < 6:
            fail("StaticArray rejects exactly the non-copyable element types", f"StaticArray({name}) accepted={cop is False}")
    emit({
        "name": "bounded.c07",
        "kind": "exhaustive small scope against an independent structural oracle (differential check of the proof)",
        "bound": f"{len(atoms)} atoms; all unary/binary constructors over atoms; a third level over a sample ({len(pool)} type expressions)",
        "exhaustive": False,
        "evaluations": evaluations,
        "distinct_nontrivial": len(pool) - len(atoms),
        "rule": "distinct type expressions; non-trivial = built from at least one constructor over other types",
        "samples": samples,
        "violations": violations,
        "wall_s": round(time.time() - t0, 2),
    })


if __name__ == "__main__":
    main()
