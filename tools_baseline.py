"""Record, after a clean run of every check on the unchanged tree, which property obligations were
discharged (names) and the hash of the tree they were discharged on.  The checks read this file
(never write it): a baseline obligation that the verifier no longer accepts on a *different* tree is
reported as a violation ending in no-failing-input-found.   python3-vt tools_baseline.py"""
import json
import os
import subprocess
import sys

VERIF = os.path.dirname(os.path.abspath(__file__))
sys.path.insert(0, VERIF)
from checks.common import tree_hash  # noqa: E402


def main():
    man = json.load(open(os.path.join(VERIF, "MANIFEST.json")))
    out = {"tree": tree_hash("/repo/hugr-py/src"), "repo_head": subprocess.run(["git", "-C", "/repo", "rev-parse", "--short", "HEAD"], capture_output=True, text=True).stdout.strip(), "properties": {}}
    dirty = subprocess.run(["git", "-C", "/repo", "status", "--porcelain"], capture_output=True, text=True).stdout.strip()
    if dirty:
        print("refusing: /repo has uncommitted changes")
        sys.exit(1)
    for c in man["checks"]:
        pid = c["property_id"]
        r = subprocess.run(["python3-vt", "-m", "checks", pid, "--tier", "quick", "--dump-obligations"], cwd=VERIF, capture_output=True, text=True)
        names = [l[len("OBLIGATION-PROVED "):] for l in r.stdout.splitlines() if l.startswith("OBLIGATION-PROVED ")]
        if r.returncode != 0:
            print(f"{pid}: check exited {r.returncode}; baseline not written")
            sys.exit(1)
        out["properties"][pid] = sorted(set(names))
        print(pid, len(out["properties"][pid]), "property obligations")
    os.makedirs(os.path.join(VERIF, "baseline"), exist_ok=True)
    json.dump(out, open(os.path.join(VERIF, "baseline", "obligations.json"), "w"), indent=1)


if __name__ == "__main__":
    main()
