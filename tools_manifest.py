"""Regenerates MANIFEST.json from the table below (keeps it valid at all times)."""
import json
import os

VERIF = os.path.dirname(os.path.abspath(__file__))

TRUST = "pyvc encoding of the Python subset (DESIGN 2-3); typed, non-concurrent inputs; library contracts listed in the evidence"

CHECKS = {
    "C18": dict(cat="proof", design="5/C18",
                text="Every BiMap method is symbolically executed from the real source against whole-view contracts (class invariant 'fwd and bck are exact inverses', full-view postconditions, frame, exceptional postconditions); all obligations are discharged by z3 for all keys/values/states; by induction over call sequences the bijection holds after every history. An exhaustive small-universe state-space run of the real class under the same contracts is a differential check of the encoding only.",
                note=TRUST + "; cardinality lemma card_image (Lean/Mathlib-checked in the thorough tier); MutableMapping mixins use only the abstract methods.",
                technique="contract-based deductive verification: VCs generated from the AST of hugr/utils.py, discharged by z3 (cvc5 fallback)"),
    "C16": dict(cat="other", design="5/C16",
                text="hugr/hugr/node_port.py is verified deductively for all output counts n >= 0, all integers and all slices with positive step: _normalize_index, _index (int and slice variants), __getitem__, outputs, __iter__, out_port, inp, out against contracts transcribed from the statement (Python index meaning, CPython slice adjustment, IndexError/ValueError conditions), plus a lemma that ==/hash of nodes and ports are by index and offset only (derived from the dataclass flags in the AST). The clause about handles returned by the graph and the builders is covered by a bounded stand-in (one program per entry point), hence category other rather than proof.",
                note=TRUST + "; generators abstracted by the sequence they yield (element production proved not to raise); handle counts through base.py / build/*.py bounded only.",
                technique="contract-based deductive verification (VCs from the AST, z3/cvc5) + labelled bounded stand-in for the builder handle counts"),
    "C09": dict(cat="proof", design="5/C09",
                text="Envelope header encoder/decoder, flag bits, _make_header (level 0 counts as compressed), the text-only-for-ASCII rule, rejection of short / foreign-magic / unknown-format input with ValueError, make_envelope / read_envelope and the Package entry points are verified over symbolic byte sequences (all 2^16 format/flag pairs and all truncations at once); lemmas header_round_trip, ascii_header and envelope_round_trip compose the contracts. Library inverses (utf-8, pyzstd, pydantic dump/validate) are assumed and exercised on the real stack by the bounded run; package/extension/HUGR codecs are referred to C02/C10.",
                note=TRUST + "; Package._to_serial and serial Package.deserialize trusted (opaque); MODULE formats outside the claim (native module absent offline).",
                technique="contract-based deductive verification: VCs from the AST of envelope.py/package.py over symbolic bytes, z3 with z3-4.8.12/cvc5 cross-check; lemmas over the contracts"),
    "C19": dict(cat="other", design="5/C19",
                text="Proved for all shots from the real source: _cast_primitive_bit (bits incl. bools are the characters 0/1, everything else ValueError), QsysShot.to_register_bits (loop invariant: the register file equals the ghost replay of the entries processed so far, applied in order; indexed writes grow with zeros; whole-register writes overwrite; every character 0/1; ValueError exactly when some value is not a bit or list of bits) and collate_tags. Multi-shot functions (register_bitstrings with the strict options, register_counts, collated_counts, _flatten) are decided by an exhaustive small-scope run of the real code against the oracle transcribed from the statement - bounded, not proved; hence category other. Three genuine defects found this way were repaired by fix: commits (KNOWN_FINDINGS.jsonl).",
                note=TRUST + "; regex axiomatised (bounded-checked against `re`); ghost replay/collate defined by primitive recursion, equations instantiated at the loop cursor.",
                technique="contract-based deductive verification with loop invariants over ghost replay functions (z3, cross-checked) + labelled bounded stand-in for multi-shot functions"),
    "C07": dict(cat="proof", design="5/C07",
                text="copyable(t) is a ghost predicate defined by structural recursion with one clause per class, as the statement lists them. TypeBound.join (loop invariant, early return) and every type_bound override in the closed world of Type implementors (Sum incl. the sugar sums, Variable, RowVariable, Alias, Opaque, USize, FunctionType, PolyFuncType, _QubitDef, ExtType with explicit / from-params bounds over any index list, std Array / List / StaticArray) are verified against their clause under the interface contract for constituent types; ExtType._to_opaque writes the computed bound; the sugar constructors build the stated rows; StaticArray.__init__ raises ValueError exactly for non-copyable elements. Ground checks tie the bundled definitions' bounds to the JSON files and the class table to the contracts.",
                note=TRUST + "; _load_extension trusted (facts ground-checked); two-level comprehension abstracted by membership; sequence membership lemma supplied per use.",
                technique="contract-based deductive verification with modular structural induction (interface contract + per-class refinement), z3 cross-checked by z3-4.8.12/cvc5"),
    "C06": dict(cat="other", design="5/C06",
                text="Every signature / output-count / port-kind method of ops.py is verified against the statement's table: Input/Output, DFG (outer = body), CFG, Conditional (sum then other inputs; case i gets variant i + others), Case, TailLoop (outer and body with Sum(just-inputs, just-outputs) + rest), DataflowBlock (successor rows, control-flow ports), Tag and sugar tags, MakeTuple/UnpackTuple inverse (through ext_op -> OpDef.instantiate -> cached signature), CallIndirect, Call and LoadFunc over the instantiated signature with the function port after the value inputs, Const/LoadConst agreement, FuncDefn/FuncDecl function ports, the order port in both directions for every dataflow op, _sig_port_type / port_type = payload of the kind. Three genuine defects were found by failing obligations + replays and repaired (Call arity from the polymorphic body, order-port kinds of Call/LoadConst/LoadFunc, LoadFunc.num_out being a Field). Hugr.port_kind/port_type in base.py and std registered ops are covered by the bounded table only -> category other.",
                note=TRUST + "; interface contracts for DataflowOp.outer_signature and Value.type_; _load_extension trusted with ground-checked prelude facts.",
                technique="contract-based deductive verification (per-class postconditions from the typing table), z3 cross-checked; bounded table check for base.py wrappers"),
    "C14": dict(cat="other", design="5/C14",
                text="Proved from the real source: val.Sum.type_ reports its sum type; each helper (Tuple, Some, None_, Left, Right, UnitSum, bool_value) builds the stated sum type with the right tag and satisfies the inhabitation predicate transcribed from Const::validate (tag in range, field count, field i reports exactly the type in the tagged row); Extension.type_; IntVal / FloatVal / StringVal / ArrayVal / ListVal / StaticArrayVal report the matching standard type (int of the given width, array sized by the number of elements, ...), name their defining extension and embed elements as complete values with the element type; Const offers val.type_() on its static port and LoadConst is typed consistently (shared with C06). val.Function.type_ and DfBase.load are covered by the bounded run only -> category other.",
                note=TRUST + "; interface contracts Value.type_ / _to_serial_root; _load_extension trusted with ground-checked facts; invertible Any injection.",
                technique="contract-based deductive verification (constructor postconditions + inhabitation predicate), z3 cross-checked; bounded value-expression enumeration against an independent oracle"),
    "C17": dict(cat="other", design="5/C17",
                text="Under the assumed contract of pydantic (validation by a model == validation against the schema generated from that model) the property 'for all documents: accepted by the Python decoder iff accepted by the published schema' reduces to a closed ground statement: the four schema documents generated by the repository's own scripts/generate_schema.py from the current models (strict/lax x HUGR/testing, each bundling extension and package) equal the published files as JSON values after a stated normal form (key order; additionalProperties:true == absent), and the version string of the models equals the one in the file names. That statement is decided by evaluation on every run; any difference is reported with its JSON pointer. No code contract is involved, hence category other.",
                note="pydantic's model<->schema correspondence assumed; normal-form rules listed in the evidence; generation runs the real script against the working tree's models.",
                technique="ground decision of a closed equality (generated vs published schema after normal form); contract reduction through pydantic's assumed model/schema correspondence"),
    "C15": dict(cat="other", design="5/C15",
                text="Proved from the real source of build/tracked_dfg.py for all tables, commands and metadata: track_wire appends and returns the new slot (no freed slot is ever reused), tracked_wire / untrack_wire denote the most recent wire at the index (Python index meaning) and raise IndexError exactly for untracked indices leaving the table unchanged, TrackedDfg.add makes exactly the call the explicit program makes (same operation, the wires tracked at the integer arguments in argument order, other wires as given, the same metadata - a genuine defect here was repaired) and rebinds exactly the named slots to the new node's output at the argument position (loop invariant over a ghost 'last naming position'), set_indexed_outputs passes the resolved wires in order. track_wires / track_inputs / __init__ / set_tracked_outputs / extend and the node-for-node, link-for-link comparison of the tracked and the explicit HUGR are decided by a bounded run of the real builders against the explicit program and a shadow table - not proved; hence category other.",
                note=TRUST + "; DfBase.add_op and Dfg.set_outputs trusted as call recorders (ghost trace); wires restricted to Node | OutPort values.",
                technique="contract-based deductive verification (postconditions over the table view + ghost call trace, loop invariant with a ghost recursion), z3 cross-checked by z3-4.8.12/cvc5; bounded differential run for the remaining entry points"),
    "C02": dict(cat="other", design="5/C02",
                text="Proved on the real bodies: every operation, type, type argument, parameter and value class decodes back to an equal object (per-class encode/decode lemmas, shared with C05), and the port offsets written for an edge (_constrain_offset / _order_port_offset) are a function of the operation's signature only - the same function the loader uses to recognise order edges. The whole-graph statement (load succeeds, identical document on re-serialization, same encoded operation / hierarchy with child order / metadata / multiset of links per port incl. order links, through the renumbering) is decided by a bounded run over builder programs of all seven builder kinds followed by delete / insert-with-index-reuse / metadata / arbitrary-link histories against an oracle written from the statement - not proved, hence category other. Three genuine defects were repaired (sibling order after index reuse, order edges at operations without an order port, plus the earlier metadata / renumbering fixes); one inherent conflict is a listed known finding (renumbering cannot be order-preserving when index order contradicts the hierarchy).",
                note=TRUST + "; Hugr._to_serial / _from_serial loops not under contract (bounded only); pydantic dump/validate assumed inverse.",
                technique="contract-based deductive verification of the per-class codecs and the port-offset functions (z3, cross-checked) + labelled bounded model-based round-trip run for the whole-graph clauses"),
    "C03": dict(cat="other", design="5/C03",
                text="Proved for all complete operations: a value port is addressed by its offset = its position in the operation's signature; the static function / constant input sits immediately after the value inputs (Call._function_port_offset and the port kinds of Call / LoadFunc / LoadConst, shared with C06); a state-order edge is addressed at the first port after those, in both directions, by _order_port_offset and Hugr._constrain_offset - their postconditions mention the signature only, never the number of connected ports (a genuine defect here was repaired earlier). Index sanity of whole documents (node 0 root and own parent, parents listed earlier, endpoints exist) after deletions and index reuse, and validity of every emitted HUGR / package / extension document against the published strict schema (jsonschema) are decided by a bounded run - not proved; hence category other.",
                note=TRUST + "; sig_in/sig_out ghost definition (interface contract, C06); AsExtOp.outer_signature trusted; incomplete operations outside the domain (may_raise).",
                technique="contract-based deductive verification of the port-addressing functions (z3, cross-checked) + labelled bounded run with an independent oracle and JSON-schema validation of emitted documents"),
    "C08": dict(cat="other", design="5/C08",
                text="Proved for all builders, wires and argument counts from the real source of build/dfg.py: insert_nested / insert_cfg / insert_conditional / insert_tail_loop (through _insert_nested_impl, each caller checked against the callee's contract) perform exactly one insertion of the given builder's HUGR under the inserting builder's own parent node, return the image of its root under the returned mapping, and wire that image to exactly the given wires in the stated order (branching wire first; loop-only inputs before the rest). The isomorphism clause of Hugr.insert_hugr (operations, hierarchy with child order, metadata, output counts, every link with offsets and multiplicity incl. order links, A untouched, B unmodified) is decided by a bounded run over pairs (A, B, parent) whose B carry mutation histories (deleted nodes, reused indices below their parent's, multi-links, order links) with every live node of A tried as parent - not proved; hence category other. One genuine defect was repaired.",
                note=TRUST + "; Hugr.insert_hugr assumed (bounded-checked), DfBase._wire_up trusted as call recorder (ghost traces).",
                technique="contract-based deductive verification of the insert_* wrappers over ghost call traces (z3, cross-checked) + labelled bounded isomorphism check of insert_hugr"),
    "C10": dict(cat="other", design="5/C10",
                text="Proved from the real source: FunctionType / PolyFuncType.with_runtime_reqs keep the rows and parameters, keep every old requirement, add the new ones, without duplicates (a genuine ordering defect was repaired); Extension.add_op_def / add_type_def / add_extension_value make the extension the owner, hold the definition under its name, keep every other definition, and add_op_def makes the signature name the extension; ExplicitBound / FromParamsBound / TypeDef / OpDef / ExtensionValue decode back with the same name, description, parameters, bound kind and data, binary flag, scheme (parameters, rows) and value, owned by and held in the target extension (encode/decode lemmas on the real bodies with the C05 induction hypotheses). Whole extensions (the three dictionaries, version incl. pre-release tags, requirements, misc data; document fixed point under several PYTHONHASHSEEDs) are decided by a bounded run; 'bundled definition files are byte for byte the published ones, each loads, the typed helpers and registered operations denote definitions that exist with matching parameters' is a closed ground statement decided by evaluation on every run; hence category other.",
                note=TRUST + "; constituent codecs as induction hypotheses (C05); extensions without lowering functions; OpDefSig invariant assumed in rt_OpDef.",
                technique="contract-based deductive verification (postconditions over the definition dictionaries, encode/decode code lemmas), z3 cross-checked + labelled bounded round-trip run + ground decision of the closed statements about the bundled files"),
    "C11": dict(cat="other", design="5/C11",
                text="Proved from the real source for all registries and expressions: an opaque type (Opaque.resolve) and an opaque operation (Custom.resolve) are replaced by their definition-backed form exactly when the registry holds an extension of that name containing a definition of that name - the definition being the registry's own object - with type arguments / signature rows / arguments resolved position by position, and are returned untouched (the same object) otherwise; Sum, FunctionType, PolyFuncType, TypeTypeArg and SequenceArg resolve position by position keeping shape, runtime requirements and parameters; UnitSum and every class that does not override resolve return themselves (the closed world of overrides is read from the AST on every run); registry and extension lookups raise their NotFound exceptions exactly for absent names. Invisibility on the wire and in the exported model, equality of type bounds and port types, idempotence, and Hugr.resolve_extensions over loaded HUGRs are decided by a bounded run on the real stack (220 expressions with opaque types at every kind of position x 4 registries) - not proved; hence category other. Two genuine defects were repaired.",
                note=TRUST + "; interface contracts Type.resolve / TypeArg.resolve name constituent results (ghost definitions).",
                technique="contract-based deductive verification with modular structural induction (interface contract + per-class refinement), z3 cross-checked + labelled bounded run for the wire/model/idempotence clauses"),
    "C04": dict(cat="other", design="5/C04",
                text="The graph store is verified against a sequence-per-port view: sub-offset allocation, add_link (the link is appended exactly once to the sequences of both ports; BiMap inverse and contiguity invariants preserved; counts = max), add_order_link (idempotent; order ports are not counted), linked_ports / has_link / order-link listings / outgoing_links / incoming_links as functions of the view (one entry per port whatever the rest of the graph holds), lookup (KeyError exactly for non-live indices), iteration (live indices ascending), counts, children, add_node / add_const (new index was free, every other node keeps index and data), _update_port_count. delete_link, delete_node and insert_hugr are decided by a bounded model-based run of the real code against the sequential multigraph model of the statement (all queries compared after every operation) - not proved; hence category other. Three genuine defects were found and repaired.",
                note=TRUST + "; BiMap through its C18 contracts; ghost cnt defined by an assumed instance; generator functions eager; _add_node verified in the thorough tier only.",
                technique="contract-based deductive verification over a representation invariant + abstract view (z3, cross-checked) and a labelled bounded model-based stand-in for the deletion paths"),
    "C05": dict(cat="other", design="5/C05",
                text="One round-trip lemma per class of the data model (6 type parameters, 6 type arguments, all types incl. the sugar sums and extension types in opaque form, general-sum and extension values, all 21 serialized operation kinds incl. sugar tags, Custom and ExtOp): the real bodies of _to_serial and deserialize are executed symbolically back to back and the decoded object is shown to have the expected class and, attribute by attribute, the original's type parameters, deltas, names, tags, rows, signatures, type arguments and descriptions, with constituent positions related by the round-trip relation of their kind (modular structural induction). The wire (pydantic dump/validate), function values, foreign documents (null-offset order edges, metadata) and derived facts are checked on the real stack by the bounded enumeration -> category other. Seven codec defects found this way were repaired.",
                note=TRUST + "; pydantic models as immutable records, dump/validate identity assumed; interface contracts name the serial forms of constituents.",
                technique="contract-based deductive verification: code lemmas executing encode-then-decode symbolically per class (z3, cross-checked); bounded enumeration on the real pydantic stack for the wire and document level"),
}

NOT_APPLICABLE = {
}

ALL = [f"C{i:02d}" for i in range(1, 21)]


def main():
    checks = []
    for pid, c in CHECKS.items():
        checks.append({
            "property_id": pid,
            "quick_cmd": f"python3-vt -m checks {pid} --tier quick",
            "thorough_cmd": f"python3-vt -m checks {pid} --tier thorough",
            "evidence_file": f"/verif/evidence/{pid}.json",
            "replay_cmd_template": "/venv/bin/python {path}",
            "engine": "pyvc",
            "level_claimed": {"category": c["cat"], "text": c["text"], "design_ref": c["design"]},
            "level_note": c["note"],
            "technique": c["technique"],
        })
    na = []
    for pid in ALL:
        if pid not in CHECKS:
            na.append({"property_id": pid, "reason": NOT_APPLICABLE.get(pid, "not yet claimed: contracts and obligations for this property are still being built (see DESIGN.md section 5); no check is registered until its obligations discharge on the unchanged tree")})
    man = {
        "version": 1,
        "setup_cmd": "python3-vt -m checks --selfcheck",
        "hooks": {
            "guard": "HUGR_PY_VERIF",
            "enable": "no hooks in /repo: contracts are sidecar files under /verif/contracts; run-time monitors are installed by the checks themselves (pyvc/rt.py) when they run the real code",
            "baseline_off_cmd": "cd /repo && /venv/bin/python -m pytest -ra -q -p no:cacheprovider --timeout=900 --continue-on-collection-errors",
            "source_commits": [],
            "add_only": True,
        },
        "engines": [{"name": "pyvc", "path": "/verif/pyvc", "serves_properties": list(CHECKS), "kind_free_text": "AST-to-SMT verification-condition generator for a Python subset (forward symbolic execution, explicit heap, contracts, loop invariants), z3 5.1.0 API with /usr/bin/cvc5 and /usr/bin/z3 as fallbacks; run-time contract monitors for replays and bounded stand-ins"}],
        "checks": checks,
        "not_applicable": na,
        "notes": "See DESIGN.md. Exit codes: 0 held, 1 violation (VIOLATION line), 2 undecided, 3 checker error.",
    }
    with open(os.path.join(VERIF, "MANIFEST.json"), "w") as f:
        json.dump(man, f, indent=1)
    import jsonschema
    jsonschema.validate(man, json.load(open("/root/.vp/MANIFEST.schema.json")))
    print("MANIFEST ok:", len(checks), "checks,", len(na), "not claimed")


if __name__ == "__main__":
    main()
