"""Symbolic executor for the supported Python subset (path by path, re-execution with a
decision trace).  Real function bodies come from the World (ast of /repo sources)."""
from __future__ import annotations

import ast
import itertools
from typing import Optional

import z3

from .front import ClassInfo, FuncInfo, World
from .tys import (NONE, SV, PyList, PyTuple, Ref, TAbs, TAny, TBool, TDict, TEnum, TInt, TNone, TObj, TOpt, TRec,
                  TSeq, TSet, TSlice, TStr, TTuple, TUnion, Ty, VBuiltin, VClass, VExc, VFunc, VGen, VLambda, VModule,
                  VRange, VSlice)


class PathAbort(Exception):
    pass


class Unsupported(Exception):
    pass


class ReturnSig(Exception):
    def __init__(self, val):
        self.val = val


class RaiseSig(Exception):
    def __init__(self, exc: VExc):
        self.exc = exc


class BreakSig(Exception):
    pass


class ContinueSig(Exception):
    pass


BUILTIN_EXC_BASES = {
    "BaseException": None,
    "Exception": "BaseException",
    "LookupError": "Exception",
    "KeyError": "LookupError",
    "IndexError": "LookupError",
    "ValueError": "Exception",
    "UnicodeDecodeError": "ValueError",
    "UnicodeEncodeError": "ValueError",
    "TypeError": "Exception",
    "AssertionError": "Exception",
    "StopIteration": "Exception",
    "NotImplementedError": "RuntimeError",
    "RuntimeError": "Exception",
    "AttributeError": "Exception",
    "ImportError": "Exception",
    "ZeroDivisionError": "ArithmeticError",
    "ArithmeticError": "Exception",
    "OverflowError": "ArithmeticError",
}


class Obligation:
    def __init__(self, name, kind, goal, pc, site, text=""):
        self.name = name
        self.kind = kind  # property | supporting | safety | frame | callpre | canary
        self.goal = goal
        self.pc = list(pc)
        self.site = site
        self.text = text
        self.status = None  # proved | refuted | unknown
        self.backend = None
        self.ms = 0.0
        self.model = None
        self.inputs = None


class Frame:
    def __init__(self, module: str, cls: Optional[str] = None, fi: Optional[FuncInfo] = None, pure=False):
        self.env: dict[str, object] = {}
        self.module = module
        self.cls = cls  # qualified class providing the function (for super())
        self.fi = fi
        self.pure = pure
        self.heap_override = None  # for old(...)
        self.alias: dict[str, ast.expr] = {}
        self.loop_ord = 0
        self.contract = None
        self.ghost: dict[str, object] = {}


def is_none_val(v):
    return isinstance(v, SV) and v.ty is TNone


class State:
    def __init__(self):
        self.heap: dict[tuple[str, str], object] = {}


class Interp:
    def __init__(self, world: World, cdb, decisions=None, timeout_ms=400):
        self.w = world
        self.cdb = cdb
        self.decisions = list(decisions or [])
        self.pos = 0
        self.alternatives: list[list[bool]] = []
        self.pc: list = []
        self.heap: dict[tuple[str, str], object] = {}
        self.heap_tys: dict[tuple[str, str], Ty] = {}
        self.obligations: list[Obligation] = []
        self.counter = itertools.count()
        self.solver = z3.Solver()
        self.solver.set("timeout", timeout_ms)
        self.notes: set[str] = set()
        self.depth = 0
        self.alive = z3.Const("alive0", z3.ArraySort(Ref, z3.BoolSort()))
        self.cls_of = z3.Function("cls_of", Ref, z3.IntSort())
        self.cls_ids: dict[str, int] = {}
        self.known_refs: list = []
        self.trace_sites: list = []
        self.prove_timeout_ms = 10000
        self.binder_stack: list = []
        self.alloc_log = None
        self.pure_ctx: list = []
        self.pure_extra: list = []   # conditions of enclosing conditional expressions in purely evaluated real code
        self.alive_pre = self.alive

    # ------------------------------------------------------------------ basics
    def fresh(self, base: str, sort):
        """A fresh symbol; under binders of purely evaluated code it is a Skolem function of them."""
        name = f"{base}!{next(self.counter)}"
        if self.pure_ctx:
            consts = [c for cs, _ in self.pure_ctx for c in cs]
            f = z3.Function(name, *[c.sort() for c in consts], sort)
            return f(*consts)
        return z3.Const(name, sort)

    def fresh_plain(self, base: str, sort):
        """A fresh constant that does not depend on enclosing binders (state after a comprehension)."""
        return z3.Const(f"{base}!{next(self.counter)}", sort)

    def bound(self, base: str, sort):
        """A fresh constant that is going to be bound by a quantifier / lambda."""
        return z3.Const(f"{base}!{next(self.counter)}", sort)

    def fresh_sv(self, base: str, ty: Ty):
        if ty is TNone:
            return NONE
        if ty is TSlice:
            o = TOpt(TInt)
            return VSlice(SV(o, self.fresh(base + "_start", o.sort())), SV(o, self.fresh(base + "_stop", o.sort())), SV(o, self.fresh(base + "_step", o.sort())))
        return SV(ty, self.fresh(base, ty.sort()))

    def assume(self, f):
        if z3.is_true(f):
            return
        if self.binder_stack:
            if self.pure_extra:
                f = z3.Implies(z3.And(self.pure_extra), f)
            self.binder_stack[-1].append(f)
            return
        self.pc.append(f)
        # the in-process solver used for path pruning only sees the quantifier-free facts (a subset
        # that is unsatisfiable makes the whole path condition unsatisfiable); quantified reasoning
        # happens in the discharge of obligations, with time limits and a second solver
        if not _has_quant(f):
            self.solver.add(f)

    def check(self, f) -> str:
        self.solver.push()
        self.solver.add(f)
        r = self.solver.check()
        self.solver.pop()
        return str(r)

    def branch(self, cond, site="") -> bool:
        """Fork on a z3 Bool.  A side that the (fast, in-process) solver finds infeasible is pruned,
        and the pruning is recorded as an obligation `prune` that goes through the same
        cross-checked discharge as every other obligation."""
        if z3.is_true(cond):
            return True
        if z3.is_false(cond):
            return False
        sc = z3.simplify(cond)
        if z3.is_true(sc) or z3.is_false(sc):
            # trivial after rewriting: justified by an obligation as well (the rewriter is not trusted)
            d = z3.is_true(sc)
            if _has_seq(cond):
                self.obligations.append(Obligation("prune", "prune", cond if d else z3.Not(cond), self.pc, (("prune", site), tuple(self.decisions[: self.pos])), ""))
            return d
        if self.pos < len(self.decisions):
            d = self.decisions[self.pos]
            self.pos += 1
            self._assume_decision(cond if d else z3.Not(cond))
            return d
        t = self.check(cond)
        f = self.check(z3.Not(cond))
        if t == "unsat" and f == "unsat":
            if self.confirm_unsat(z3.BoolVal(True)):
                self.obligations.append(Obligation("prune", "prune", z3.BoolVal(False), self.pc, (("prune-both", site), tuple(self.decisions[: self.pos])), ""))
                raise PathAbort("infeasible")
            t = f = "unknown"
        # a side is pruned only when a second solver confirms that it is infeasible; otherwise
        # both sides are explored (z3 5.1.0 alone is not trusted with `unsat`)
        if t == "unsat" and not self.confirm_unsat(cond):
            t = "unknown"
        if f == "unsat" and not self.confirm_unsat(z3.Not(cond)):
            f = "unknown"
        if t == "unsat":
            d = False
            self.obligations.append(Obligation("prune", "prune", z3.Not(cond), self.pc, (("prune", site), tuple(self.decisions[: self.pos])), ""))
        elif f == "unsat":
            d = True
            self.obligations.append(Obligation("prune", "prune", cond, self.pc, (("prune", site), tuple(self.decisions[: self.pos])), ""))
        else:
            d = True
            self.alternatives.append(self.decisions[: self.pos] + [False])
        self.decisions.append(d)
        self.pos += 1
        self._assume_decision(cond if d else z3.Not(cond))
        return d

    def _assume_decision(self, lit):
        """a branch decision: assumed like everything else, and remembered as such (vacuity guard)"""
        n = len(self.pc)
        self.assume(lit)
        if not hasattr(self, "decision_idx"):
            self.decision_idx = set()
        self.decision_idx.update(range(n, len(self.pc)))

    def assume_all_checked(self, terms, what: str):
        """Assume facts that come from a contract (callee postconditions, loop invariants, ghost definitions) and make
        sure they do not contradict what is known at this point: if the path was satisfiable before and is not
        afterwards, everything generated from here on would be discharged for nothing - reported as an error."""
        before = self.check(z3.BoolVal(True))
        for t in terms:
            self.assume(t)
        if before != "unsat" and self.check(z3.BoolVal(True)) == "unsat" and self.confirm_unsat(z3.BoolVal(True)):
            raise Unsupported(f"vacuous: {what} contradicts what is known at that point (the path was satisfiable before these facts were assumed)")

    def assumptions_contradictory(self) -> bool:
        """Vacuity guard: the quantifier-free facts assumed on this path *other than the branch decisions* are
        unsatisfiable (a path that is infeasible because of its decisions is harmless; one whose callee
        postconditions / invariants / ghost definitions contradict each other discharges everything for nothing)."""
        dec = getattr(self, "decision_idx", set())
        s = z3.Solver()
        s.set("timeout", 3000)
        for i, f in enumerate(self.pc):
            if i not in dec and not _has_quant(f):
                s.add(f)
        if str(s.check()) != "unsat":
            return False
        from .solve import _cli_check
        try:
            res, _ms = _cli_check(s.to_smt2(), "z3", 3)
        except Exception:
            return False
        return res == "unsat"

    def confirm_unsat(self, extra) -> bool:
        """pc /\ extra is unsatisfiable according to /usr/bin/z3 4.8.12 (short budget)."""
        from .solve import _cli_check
        s = z3.Solver()
        for f in self.pc:
            if not _has_quant(f):
                s.add(f)
        s.add(extra)
        try:
            res, _ms = _cli_check(s.to_smt2(), "z3", 3)
        except Exception:
            return False
        self.stats_confirm = getattr(self, "stats_confirm", 0) + 1
        if res == "sat":
            self.notes.add("z3-5.1.0 `unsat` on a branch side contradicted by z3-4.8.12 (`sat`): side explored")
        return res == "unsat"

    def choose(self, n: int, site="") -> int:
        """n-way nondeterministic choice (encoded with binary decisions, no conditions)."""
        for i in range(n - 1):
            if self.pos < len(self.decisions):
                d = self.decisions[self.pos]
                self.pos += 1
            else:
                d = True
                self.alternatives.append(self.decisions[: self.pos] + [False])
                self.decisions.append(d)
                self.pos += 1
            if d:
                return i
        return n - 1

    def oblige(self, name, goal, kind="safety", site=None, text=""):
        ob = Obligation(name, kind, goal, self.pc, (site, tuple(self.decisions[: self.pos])), text)
        self.obligations.append(ob)
        # afterwards the goal may be assumed on this path
        self.assume(goal)
        return ob

    def oblige_pure(self, name, cond, site=None):
        """Obligation raised while evaluating real code purely (e.g. a comprehension element on a
        generic index): quantified over the enclosing binders."""
        consts, guards = [], []
        for (cs, g) in self.pure_ctx:
            consts += cs
            guards.append(g)
        guards += self.pure_extra
        goal = z3.Implies(z3.And(guards), cond) if guards else cond
        if consts:
            goal = z3.ForAll(consts, goal)
        saved = self.binder_stack
        self.binder_stack = []
        try:
            self.oblige(name, goal, "safety", site=site)
        finally:
            self.binder_stack = saved

    def cls_id(self, qname: str) -> int:
        if qname not in self.cls_ids:
            self.cls_ids[qname] = len(self.cls_ids) + 1
        return self.cls_ids[qname]

    # ------------------------------------------------------------------ types from annotations
    def ann_to_ty(self, module: str, ann, owner_cls: Optional[str] = None) -> Ty:
        ov = self.cdb.type_override(module, ann)
        if ov is not None:
            return ov
        return self.cdb.types.ann_to_ty(module, ann)

    def field_ty(self, owner: str, fname: str) -> Ty:
        key = (owner, fname)
        if key in self.heap_tys:
            return self.heap_tys[key]
        t = self.cdb.types.field_ty(owner, fname)
        self.heap_tys[key] = t
        return t

    # ------------------------------------------------------------------ heap
    def heap_map(self, owner: str, fname: str, heap=None):
        heap = self.heap if heap is None else heap
        key = (owner, fname)
        if key not in heap:
            ty = self.field_ty(owner, fname)
            short = owner.rsplit('.', 1)[-1]
            if not hasattr(self, "_heap_names"):
                self._heap_names = {}
            # classes of different modules may share their short name (hugr.ext.OpDef / serial OpDef)
            prev = self._heap_names.setdefault((short, fname), owner)
            hname = f"H_{short}_{fname}" if prev == owner else f"H_{owner.replace('.', '_')}_{fname}"
            m = z3.Const(hname, z3.ArraySort(Ref, ty.sort()))
            # the initial heap is shared between the live heap and every snapshot taken before
            # the field was first touched
            heap[key] = m
            if heap is not self.heap and key not in self.heap:
                self.heap[key] = m
            for snap in getattr(self, "snapshots", []):
                if key not in snap:
                    snap[key] = m
        return heap[key]

    def field_owner(self, cls: str, fname: str) -> Optional[str]:
        if cls == "*":
            owners = self.owners_of_field(fname)
            return owners[0] if len(owners) == 1 else None
        um = self.w.union_members(cls)
        if um is not None:
            owners = {self.field_owner(m, fname) for m in um}
            return owners.pop() if len(owners) == 1 else None
        fi = self.w.find_field(cls, fname)
        if fi is not None:
            return fi.owner
        ex = self.cdb.types.extra_field_owner(cls, fname)
        return ex

    def read_field(self, obj: SV, fname: str, fr: Frame):
        cls = obj.ty.cls
        owner = self.field_owner(cls, fname)
        if owner is None:
            raise Unsupported(f"unknown field {cls}.{fname}")
        heap = fr.heap_override if fr.heap_override is not None else self.heap
        m = self.heap_map(owner, fname, heap)
        ty = self.field_ty(owner, fname)
        v = SV(ty, z3.Select(m, obj.term))
        return self.assume_wf(v)

    def write_field(self, obj: SV, fname: str, val, fr: Frame):
        cls = obj.ty.cls
        owner = self.field_owner(cls, fname)
        if owner is None:
            raise Unsupported(f"unknown field {cls}.{fname}")
        for g in getattr(fr, "write_guards", None) or []:
            if g.get(fname) is not None and owner not in g[fname]:
                raise Unsupported(f"store to {owner}.{fname} inside a loop whose head havocked {fname} for {sorted(g[fname])} only")
        ty = self.field_ty(owner, fname)
        m = self.heap_map(owner, fname)
        self.heap[(owner, fname)] = z3.Store(m, obj.term, self.coerce(val, ty).term)

    def assume_wf(self, v):
        """Well-formedness facts of a value read from the heap / created as an input."""
        if isinstance(v, SV):
            if isinstance(v.ty, TObj):
                if not self.binder_stack:
                    # (under a binder the state-dependent aliveness fact would become a guard that
                    # differs between pre- and post-state copies of the same formula)
                    self.assume(z3.Select(self.alive, v.term))
                self.assume_class(v)
            elif isinstance(v.ty, TSeq) and v.ty.bytes_:
                i = z3.Int("wf_i")
                self.assume(z3.ForAll([i], z3.Implies(z3.And(i >= 0, i < z3.Length(v.term)), z3.And(v.term[i] >= 0, v.term[i] < 256))))
        return v

    def assume_class(self, v: SV):
        ty = v.ty
        subs = self.w.subclasses(ty.cls)
        if ty.exact or len(subs) <= 1:
            self.assume(self.cls_of(v.term) == self.cls_id(ty.cls))
        else:
            self.assume(z3.Or([self.cls_of(v.term) == self.cls_id(s) for s in subs]))

    def snapshot(self):
        snap = dict(self.heap)
        snap[("__alive__", "")] = self.alive
        if not hasattr(self, "snapshots"):
            self.snapshots = []
        self.snapshots.append(snap)
        return snap

    def alloc(self, cls: str) -> SV:
        r = self.fresh("new_" + cls.rsplit(".", 1)[-1], Ref)
        self.assume(z3.Not(z3.Select(self.alive, r)))
        self.alive = z3.Store(self.alive, r, z3.BoolVal(True))
        self.assume(self.cls_of(r) == self.cls_id(cls))
        if self.alloc_log is not None:
            self.alloc_log.append(r)
        return SV(TObj(cls, exact=True), r)

    def owners_of_field(self, fname: str) -> list[str]:
        out = []
        for mi in self.w.modules.values():
            for ci in mi.classes.values():
                for f in ci.fields:
                    if f.name == fname and not f.classvar:
                        out.append(ci.qname)
        for (owner, f) in self.cdb.types.extra_fields:
            if f == fname:
                out.append(owner)
        return out

    def dyn_exact_class(self, obj: SV, fr) -> str:
        """Fork over the concrete classes an object may have."""
        t = obj.ty
        if t.exact:
            return t.cls
        subs = [s for s in self.w.subclasses(t.cls) if not self.w.get_class(s).is_protocol]
        if len(subs) == 1:
            return subs[0]
        for s in subs[:-1]:
            if self.branch(self.cls_of(obj.term) == self.cls_id(s)):
                return s
        self.assume(self.cls_of(obj.term) == self.cls_id(subs[-1]))
        return subs[-1]

    # ------------------------------------------------------------------ coercions
    def coerce(self, v, ty: Ty) -> SV:
        """Convert a value to an SV of (storage) type `ty`."""
        if isinstance(v, SV):
            if v.ty == ty:
                return v
            if isinstance(ty, TOpt):
                if v.ty is TNone:
                    return SV(ty, ty.none())
                if isinstance(v.ty, TOpt):
                    if v.ty.inner == ty.inner:
                        return SV(ty, v.term)
                inner = self.coerce(v, ty.inner)
                return SV(ty, ty.some(inner.term))
            if isinstance(ty, TUnion):
                if isinstance(v.ty, TUnion):
                    raise Unsupported(f"union->union coercion {v.ty} -> {ty}")
                # exact match first, then first coercible alternative
                i = ty.index(v.ty)
                if i is None:
                    for j, a in enumerate(ty.alts):
                        try:
                            vv = self.coerce(v, a)
                            return SV(ty, ty.inject(j, vv.term))
                        except Unsupported:
                            continue
                    raise Unsupported(f"cannot coerce {v.ty} into {ty}")
                return SV(ty, ty.inject(i, v.term))
            if ty is TInt and v.ty is TBool:
                return SV(TInt, z3.If(v.term, z3.IntVal(1), z3.IntVal(0)))
            if isinstance(ty, TObj) and isinstance(v.ty, TObj):
                if self.w.is_subclass(v.ty.cls, ty.cls) or self.w.is_subclass(ty.cls, v.ty.cls):
                    return SV(ty if not v.ty.exact else v.ty, v.term)
                # protocol typed targets accept any class (structural)
                tci = self.w.get_class(ty.cls)
                if tci is not None and tci.is_protocol:
                    return v
                raise Unsupported(f"cannot coerce {v.ty} to {ty}")
            if isinstance(ty, TSeq) and isinstance(v.ty, TSeq):
                if v.ty.elem == ty.elem:
                    return SV(ty, v.term)
                if isinstance(ty.elem, TObj) and isinstance(v.ty.elem, TObj):
                    return SV(ty, v.term)
            if isinstance(ty, TDict) and isinstance(v.ty, TDict) and v.ty.k == ty.k and v.ty.v == ty.v:
                if v.ty.ordered == ty.ordered:
                    return SV(ty, v.term)
                if v.ty.ordered and not ty.ordered:
                    return SV(ty, ty.mk(v.ty.dom(v.term), v.ty.val(v.term)))
            if isinstance(v.ty, TOpt) and v.ty.inner == ty:
                # implicit unwrapping is only sound when the value is known not to be None
                raise Unsupported(f"implicit Optional unwrap {v.ty} -> {ty}")
            if ty is TAny:
                return SV(TAny, self.to_any(v))
            raise Unsupported(f"cannot coerce {v.ty} to {ty}")
        if isinstance(v, VGen) and v.kind == "repeat_empty":
            # [[]] * n : n rows, all empty
            t = ty.inner if isinstance(ty, TOpt) else ty
            if not (isinstance(t, TSeq) and isinstance(t.elem, TSeq)):
                raise Unsupported(f"cannot coerce [[]] * n to {ty}")
            r = self.fresh("rows", t.sort())
            i = self.bound("rwi", z3.IntSort())
            n = z3.If(v.n > 0, v.n, z3.IntVal(0))
            self.assume(z3.Length(r) == n)
            self.assume(z3.ForAll([i], z3.Implies(z3.And(i >= 0, i < n), z3.Length(r[i]) == 0)))
            return self.coerce(SV(t, r), ty)
        if isinstance(v, VGen) and v.kind in ("emptydict", "emptyset"):
            t = ty.inner if isinstance(ty, TOpt) else ty
            if v.kind == "emptydict" and isinstance(t, TDict):
                e = self.empty_dict(t)
            elif v.kind == "emptyset" and isinstance(t, TSet):
                e = SV(t, z3.K(t.k.sort(), z3.BoolVal(False)))
            elif t is TAny:
                e = SV(TAny, self.fresh("newobj", TAny.sort()))
            else:
                raise Unsupported(f"cannot coerce empty literal to {ty}")
            return self.coerce(e, ty)
        if isinstance(v, PyTuple):
            if isinstance(ty, TTuple) and len(ty.elems) == len(v.items):
                return SV(ty, ty.mk(*[self.coerce(x, t).term for x, t in zip(v.items, ty.elems)]))
            if isinstance(ty, TSeq):
                return self.mk_seq(ty, v.items)
            if isinstance(ty, TOpt):
                inner = self.coerce(v, ty.inner)
                return SV(ty, ty.some(inner.term))
            raise Unsupported(f"cannot coerce tuple to {ty}")
        if isinstance(v, PyList):
            if isinstance(ty, TSeq):
                return self.mk_seq(ty, v.items)
            if isinstance(ty, TOpt):
                inner = self.coerce(v, ty.inner)
                return SV(ty, ty.some(inner.term))
            raise Unsupported(f"cannot coerce list literal to {ty}")
        raise Unsupported(f"cannot coerce {type(v).__name__} to {ty}")

    _any_inj: dict = {}

    def to_any(self, v: SV):
        key = v.ty.name
        if key not in Interp._any_inj:
            Interp._any_inj[key] = z3.Function("any_of_" + key.replace("[", "_").replace("]", "_").replace(":", "_").replace(",", "_").replace(".", "_").replace("|", "_").replace("!", "_").replace("+", "_"), v.ty.sort(), TAny.sort())
        return Interp._any_inj[key](v.term)

    def mk_seq(self, ty: TSeq, items) -> SV:
        t = z3.Empty(ty.sort())
        parts = [z3.Unit(self.coerce(x, ty.elem).term) for x in items]
        if len(parts) == 1:
            t = parts[0]
        elif parts:
            t = seq_concat(*parts)
        return SV(ty, t)

    def seq_of(self, v, elem_hint: Optional[Ty] = None) -> SV:
        """View a value as a symbolic sequence."""
        if isinstance(v, SV) and isinstance(v.ty, TSeq):
            return v
        if isinstance(v, (PyList, PyTuple)):
            items = v.items
            if not items:
                if elem_hint is None:
                    raise Unsupported("empty literal sequence of unknown element type")
                return self.mk_seq(TSeq(elem_hint), [])
            ety = elem_hint or self.val_ty(items[0])
            return self.mk_seq(TSeq(ety), items)
        raise Unsupported(f"not a sequence: {v}")

    def val_ty(self, v) -> Ty:
        if isinstance(v, SV):
            return v.ty
        if isinstance(v, PyTuple):
            return TTuple([self.val_ty(x) for x in v.items])
        if isinstance(v, PyList):
            if not v.items:
                raise Unsupported("type of empty list literal")
            return TSeq(self.val_ty(v.items[0]))
        raise Unsupported(f"no storage type for {type(v).__name__}")

    # ------------------------------------------------------------------ forcing optional / union values
    def force(self, v, fr: Frame):
        """Case-split an optional / union value into a definite kind (forks)."""
        if isinstance(v, SV) and isinstance(v.ty, TOpt):
            if fr.pure:
                return v
            if self.branch(v.ty.is_none(v.term)):
                return NONE
            return self.assume_wf(SV(v.ty.inner, acc(v.ty.val(v.term))))
        if isinstance(v, SV) and isinstance(v.ty, TUnion):
            if fr.pure:
                return v
            for i, a in enumerate(v.ty.alts[:-1]):
                if self.branch(v.ty.is_alt(i, v.term)):
                    return NONE if a is TNone else self.assume_wf(SV(a, acc(v.ty.proj(i, v.term))))
            i = len(v.ty.alts) - 1
            a = v.ty.alts[i]
            self.assume(v.ty.is_alt(i, v.term))
            return NONE if a is TNone else self.assume_wf(SV(a, acc(v.ty.proj(i, v.term))))
        return v

    # ------------------------------------------------------------------ truthiness / equality
    def truthy(self, v, fr: Frame):
        if isinstance(v, SV):
            t = v.ty
            if t is TBool:
                return v.term
            if t is TInt:
                return v.term != 0
            if t is TNone:
                return z3.BoolVal(False)
            if t is TStr:
                return z3.Length(v.term) > 0
            if isinstance(t, TSeq):
                return z3.Length(v.term) > 0
            if isinstance(t, TOpt):
                inner = SV(t.inner, t.val(v.term))
                return z3.And(z3.Not(t.is_none(v.term)), self.truthy(inner, fr))
            if isinstance(t, TDict):
                return self.dict_len(v) > 0
            if isinstance(t, TAbs):
                f = z3.Function(f"truthy_{t.nm}", t.sort(), z3.BoolSort())
                return f(v.term)
            if isinstance(t, (TObj, TRec)):
                ci = self.w.get_class(t.cls)
                if self.w.find_method(t.cls, "__bool__") or self.w.find_method(t.cls, "__len__"):
                    if self.w.find_method(t.cls, "__len__") and not self.w.find_method(t.cls, "__bool__"):
                        r = self.call_method(v, "__len__", [], {}, fr)
                        return r.term != 0
                    raise Unsupported(f"truthiness of {t.cls} with __bool__")
                return z3.BoolVal(True)
            if isinstance(t, TEnum):
                return z3.BoolVal(True)
            if isinstance(t, TUnion):
                return z3.Or([z3.And(t.is_alt(i, v.term), z3.BoolVal(False) if a is TNone else self.truthy(SV(a, t.proj(i, v.term)), fr)) for i, a in enumerate(t.alts)])
            if isinstance(t, TSet):
                return self.set_card(v) > 0
            if t is TAny:
                f = z3.Function("truthy_any", TAny.sort(), z3.BoolSort())
                return f(v.term)
        if isinstance(v, (PyTuple, PyList)):
            return z3.BoolVal(len(v.items) > 0)
        if isinstance(v, (VClass, VFunc, VBuiltin, VLambda)):
            return z3.BoolVal(True)
        if isinstance(v, VGen) and v.kind in ("emptydict", "emptyset"):
            return z3.BoolVal(False)
        raise Unsupported(f"truthiness of {v}")

    def py_eq(self, a, b, fr: Frame):
        """z3 Bool for Python `a == b`."""
        if isinstance(a, (PyTuple, PyList)) and isinstance(b, (PyTuple, PyList)):
            if type(a) is not type(b) or len(a.items) != len(b.items):
                return z3.BoolVal(False)
            return z3.And([self.py_eq(x, y, fr) for x, y in zip(a.items, b.items)] + [z3.BoolVal(True)])
        if isinstance(a, (PyTuple, PyList)) and isinstance(b, SV):
            a, b = b, a
        if isinstance(a, SV) and isinstance(b, (PyTuple, PyList)):
            if isinstance(a.ty, TTuple) and isinstance(b, PyTuple) and len(a.ty.elems) == len(b.items):
                return z3.And([self.py_eq(SV(t, a.ty.get(a.term, i)), y, fr) for i, (t, y) in enumerate(zip(a.ty.elems, b.items))])
            if isinstance(a.ty, TSeq):
                if isinstance(b, PyTuple) != a.ty.tuple_ and not a.ty.bytes_:
                    return z3.BoolVal(False)
                bs = self.seq_of(b, a.ty.elem)
                return self.py_eq(a, bs, fr)
            if isinstance(a.ty, TOpt):
                return z3.And(z3.Not(a.ty.is_none(a.term)), self.py_eq(SV(a.ty.inner, a.ty.val(a.term)), b, fr))
            return z3.BoolVal(False)
        if isinstance(a, VClass) and isinstance(b, VClass):
            return z3.BoolVal(a.ci.qname == b.ci.qname)
        if isinstance(a, VGen) and isinstance(b, VGen) and a.kind == "dictkeys" and b.kind == "dictkeys" and a.d.ty.k == b.d.ty.k:
            # key views compare as sets: equal domains (arrays are extensional)
            return a.d.ty.dom(a.d.term) == b.d.ty.dom(b.d.term)
        if not (isinstance(a, SV) and isinstance(b, SV)):
            raise Unsupported(f"== between {a} and {b}")
        ta, tb = a.ty, b.ty
        if ta is TNone and tb is TNone:
            return z3.BoolVal(True)
        if isinstance(ta, TOpt) or isinstance(tb, TOpt):
            if isinstance(tb, TOpt) and not isinstance(ta, TOpt):
                a, b, ta, tb = b, a, tb, ta
            if tb is TNone:
                return ta.is_none(a.term)
            if isinstance(tb, TOpt):
                if ta.inner == tb.inner and self.eq_is_structural(ta.inner):
                    return a.term == b.term
                return z3.Or(z3.And(ta.is_none(a.term), tb.is_none(b.term)),
                             z3.And(z3.Not(ta.is_none(a.term)), z3.Not(tb.is_none(b.term)),
                                    self.py_eq(SV(ta.inner, ta.val(a.term)), SV(tb.inner, tb.val(b.term)), fr)))
            return z3.And(z3.Not(ta.is_none(a.term)), self.py_eq(SV(ta.inner, ta.val(a.term)), b, fr))
        if ta is TNone or tb is TNone:
            if isinstance(ta, TUnion) or isinstance(tb, TUnion):
                u, ut = (a, ta) if isinstance(ta, TUnion) else (b, tb)
                i = ut.index(TNone)
                return ut.is_alt(i, u.term) if i is not None else z3.BoolVal(False)
            return z3.BoolVal(False)
        if isinstance(ta, TUnion) or isinstance(tb, TUnion):
            if isinstance(tb, TUnion) and not isinstance(ta, TUnion):
                a, b, ta, tb = b, a, tb, ta
            if isinstance(tb, TUnion):
                if ta == tb and all(self.eq_is_structural(x) for x in ta.alts if x is not TNone):
                    return a.term == b.term
                if ta == tb:
                    return z3.Or([z3.And(ta.is_alt(i, a.term), tb.is_alt(i, b.term),
                                         z3.BoolVal(True) if alt is TNone else self.py_eq(SV(alt, ta.proj(i, a.term)), SV(alt, tb.proj(i, b.term)), fr))
                                  for i, alt in enumerate(ta.alts)])
                raise Unsupported("== between different unions")
            return z3.Or([z3.And(ta.is_alt(i, a.term), self.py_eq(SV(alt, ta.proj(i, a.term)), b, fr))
                          for i, alt in enumerate(ta.alts) if alt is not TNone] + [z3.BoolVal(False)])
        num = (TInt, TBool)
        if ta in num and tb in num:
            if ta is tb:
                return a.term == b.term
            return self.coerce(a, TInt).term == self.coerce(b, TInt).term
        if ta is TStr and tb is TStr:
            return a.term == b.term
        if (isinstance(ta, TAbs) and ta.nm == "float" and tb in num) or (isinstance(tb, TAbs) and tb.nm == "float" and ta in num):
            fl, iv = (a, b) if isinstance(ta, TAbs) else (b, a)
            f = z3.Function("float_eq_int", fl.ty.sort(), z3.IntSort(), z3.BoolSort())
            return f(fl.term, self.coerce(iv, TInt).term)
        if isinstance(ta, TAbs) and isinstance(tb, TAbs) and ta == tb:
            return a.term == b.term
        if ta is TAny and tb is TAny:
            return a.term == b.term
        if isinstance(ta, TEnum) and isinstance(tb, TEnum):
            return a.term == b.term if ta == tb else z3.BoolVal(False)
        if isinstance(ta, TSeq) and isinstance(tb, TSeq):
            if ta.bytes_ != tb.bytes_ or ta.tuple_ != tb.tuple_:
                # bytes == bytearray is fine; list == tuple is False
                if ta.tuple_ != tb.tuple_:
                    return z3.BoolVal(False)
            if self.eq_is_structural(ta.elem) and ta.elem == tb.elem:
                return a.term == b.term
            i = self.bound("eqi", z3.IntSort())
            ea = SV(ta.elem, a.term[i])
            eb = SV(tb.elem, b.term[i])
            return z3.And(z3.Length(a.term) == z3.Length(b.term),
                          z3.ForAll([i], z3.Implies(z3.And(i >= 0, i < z3.Length(a.term)), self.py_eq(ea, eb, fr))))
        if isinstance(ta, TTuple) and isinstance(tb, TTuple):
            if len(ta.elems) != len(tb.elems):
                return z3.BoolVal(False)
            return z3.And([self.py_eq(SV(x, ta.get(a.term, i)), SV(y, tb.get(b.term, i)), fr) for i, (x, y) in enumerate(zip(ta.elems, tb.elems))] + [z3.BoolVal(True)])
        if isinstance(ta, TRec) and isinstance(tb, TRec):
            return self.rec_eq(a, b, fr)
        if isinstance(ta, TObj) and isinstance(tb, TObj):
            return self.obj_eq(a, b, fr)
        if isinstance(ta, TDict) and isinstance(tb, TDict) and ta.k == tb.k and ta.v == tb.v and self.eq_is_structural(ta.v):
            k = self.bound("eqk", ta.k.sort())
            return z3.And(ta.dom(a.term) == tb.dom(b.term),
                          z3.ForAll([k], z3.Implies(z3.Select(ta.dom(a.term), k), z3.Select(ta.val(a.term), k) == z3.Select(tb.val(b.term), k))))
        if isinstance(ta, TSet) and isinstance(tb, TSet) and ta == tb:
            return a.term == b.term
        # values of unrelated types are never equal
        simple = (TInt, TBool, TStr)
        if (ta in simple or isinstance(ta, (TEnum, TSeq, TTuple, TRec, TObj))) and (tb in simple or isinstance(tb, (TEnum, TSeq, TTuple, TRec, TObj))):
            return z3.BoolVal(False)
        raise Unsupported(f"== between {ta} and {tb}")

    def eq_is_structural(self, t: Ty) -> bool:
        """True iff Python == on values of t coincides with z3 equality of the encoding."""
        if t in (TInt, TBool, TStr, TAny) or isinstance(t, (TAbs, TEnum)):
            return True
        if isinstance(t, TSeq):
            return self.eq_is_structural(t.elem)
        if isinstance(t, TOpt):
            return self.eq_is_structural(t.inner)
        if isinstance(t, TTuple):
            return all(self.eq_is_structural(e) for e in t.elems)
        if isinstance(t, TRec):
            return self.cdb.types.rec_eq_structural(t)
        if isinstance(t, TUnion):
            return all(self.eq_is_structural(a) for a in t.alts if a is not TNone)
        return False

    def rec_eq(self, a: SV, b: SV, fr: Frame):
        ta, tb = a.ty, b.ty
        if ta.cls != tb.cls:
            return z3.BoolVal(False)
        eqm = self.w.find_method(ta.cls, "__eq__")
        if eqm is not None:
            raise Unsupported(f"user __eq__ on record {ta.cls}")
        conj = []
        for f in self.w.all_fields(ta.cls):
            if not f.compare:
                continue
            fty = ta.fty(f.name)
            conj.append(self.py_eq(SV(fty, ta.get(a.term, f.name)), SV(fty, tb.get(b.term, f.name)), fr))
        return z3.And(conj + [z3.BoolVal(True)])

    def obj_eq(self, a: SV, b: SV, fr: Frame):
        return self.cdb.types.obj_eq(self, a, b, fr)

    def key_of(self, v, kty: Ty) -> object:
        """Term used as a dict/set key (after coercion to the key type), normalised so that SMT
        equality of keys coincides with Python ==/hash (fields with compare=False are replaced by a
        fixed default)."""
        return self.norm_key(self.coerce(v, kty).term, kty)

    def norm_key(self, term, ty: Ty):
        if isinstance(ty, TRec):
            if self.cdb.types.rec_eq_structural(ty):
                return term
            if self.w.find_method(ty.cls, "__eq__") is not None:
                raise Unsupported(f"dict key of class {ty.cls} with user __eq__")
            cmp = {f.name: f.compare for f in self.w.all_fields(ty.cls)}
            parts = []
            for n, ft in ty.fields:
                if cmp.get(n, True):
                    parts.append(self.norm_key(acc(ty.get(term, n)), ft))
                else:
                    parts.append(z3.Const("dflt_" + _m(ft.name), ft.sort()))
            return ty.mk(*parts)
        if isinstance(ty, TUnion):
            out = None
            for i in reversed(range(len(ty.alts))):
                a = ty.alts[i]
                v = ty.inject(i) if a is TNone else ty.inject(i, self.norm_key(ty.proj(i, term), a))
                out = v if out is None else z3.If(ty.is_alt(i, term), v, out)
            return out
        if isinstance(ty, TTuple):
            return ty.mk(*[self.norm_key(ty.get(term, i), e) for i, e in enumerate(ty.elems)])
        if isinstance(ty, TOpt):
            return z3.If(ty.is_none(term), term, ty.some(self.norm_key(ty.val(term), ty.inner)))
        return term

    # ------------------------------------------------------------------ dict / set helpers
    def dict_len(self, d: SV):
        f = z3.Function("card_" + _m(d.ty.k.name), z3.ArraySort(d.ty.k.sort(), z3.BoolSort()), z3.IntSort())
        t = f(d.ty.dom(d.term))
        self.assume(t >= 0)
        empty = z3.K(d.ty.k.sort(), z3.BoolVal(False))
        self.assume((t == 0) == (d.ty.dom(d.term) == empty))
        return t

    def set_card(self, s: SV):
        f = z3.Function("card_" + _m(s.ty.k.name), z3.ArraySort(s.ty.k.sort(), z3.BoolSort()), z3.IntSort())
        t = f(s.term)
        self.assume(t >= 0)
        empty = z3.K(s.ty.k.sort(), z3.BoolVal(False))
        self.assume((t == 0) == (s.term == empty))
        return t

    def empty_dict(self, ty: TDict) -> SV:
        dom = z3.K(ty.k.sort(), z3.BoolVal(False))
        # canonical empty dict: absent keys map to one fixed default element of the value sort
        val = z3.K(ty.k.sort(), z3.Const("dflt_" + _m(ty.v.name), ty.v.sort()))
        if ty.ordered:
            return SV(ty, ty.mk(dom, val, z3.Empty(z3.SeqSort(ty.k.sort()))))
        return SV(ty, ty.mk(dom, val))

    def dict_store(self, d: SV, k, v) -> SV:
        ty = d.ty
        kt = self.key_of(k, ty.k)
        vt = self.coerce(v, ty.v).term
        dom = z3.Store(ty.dom(d.term), kt, z3.BoolVal(True))
        val = z3.Store(ty.val(d.term), kt, vt)
        if ty.ordered:
            keys = z3.If(z3.Select(ty.dom(d.term), kt), ty.keys(d.term), seq_concat(ty.keys(d.term), z3.Unit(kt)))
            return SV(ty, ty.mk(dom, val, keys))
        return SV(ty, ty.mk(dom, val))

    def dict_del(self, d: SV, k) -> SV:
        ty = d.ty
        kt = self.key_of(k, ty.k)
        dom = z3.Store(ty.dom(d.term), kt, z3.BoolVal(False))
        if ty.ordered:
            raise Unsupported("del on ordered dict")
        return SV(ty, ty.mk(dom, ty.val(d.term)))

    # ------------------------------------------------------------------ exceptions
    def raise_exc(self, cls: str, *args):
        raise RaiseSig(VExc(cls, args))

    def exc_isinstance(self, exc: VExc, cls: str) -> bool:
        c = exc.cls
        if c in BUILTIN_EXC_BASES:
            while c is not None:
                if c == cls:
                    return True
                c = BUILTIN_EXC_BASES.get(c)
            return False
        # repo exception class
        for q in self.w.mro(c):
            if q == cls:
                return True
            ci = self.w.get_class(q)
            if ci is not None:
                for b in self.w.class_bases(ci):
                    if b.startswith("ext:"):
                        bn = b.rsplit(".", 1)[-1]
                        cc = bn
                        while cc is not None:
                            if cc == cls:
                                return True
                            cc = BUILTIN_EXC_BASES.get(cc)
        return False


def acc(t):
    """accessor(constructor(args)) -> arg, syntactically (z3.simplify is not used on terms that flow
    into formulas: it introduces internal symbols and its sequence rewriter is unreliable)."""
    try:
        if z3.is_app(t) and t.num_args() == 1:
            a = t.arg(0)
            if z3.is_app(a) and a.sort().kind() == z3.Z3_DATATYPE_SORT and a.decl().kind() == z3.Z3_OP_DT_CONSTRUCTOR and t.decl().kind() == z3.Z3_OP_DT_ACCESSOR:
                dt = a.sort()
                for ci in range(dt.num_constructors()):
                    if dt.constructor(ci).name() == a.decl().name():
                        for ai in range(dt.constructor(ci).arity()):
                            if dt.accessor(ci, ai).name() == t.decl().name():
                                return a.arg(ai)
    except z3.Z3Exception:
        pass
    return t


def _has_quant(t) -> bool:
    seen = set()
    stack = [t]
    while stack:
        x = stack.pop()
        i = x.get_id()
        if i in seen:
            continue
        seen.add(i)
        if z3.is_quantifier(x):
            return True
        if z3.is_app(x):
            stack.extend(x.children())
    return False


def _has_seq(t) -> bool:
    seen = set()
    stack = [t]
    while stack:
        x = stack.pop()
        i = x.get_id()
        if i in seen:
            continue
        seen.add(i)
        if z3.is_seq(x) or (z3.is_app(x) and x.decl().kind() in (z3.Z3_OP_SEQ_NTH, z3.Z3_OP_SEQ_LENGTH, z3.Z3_OP_SEQ_AT, z3.Z3_OP_SEQ_CONTAINS)):
            return True
        if z3.is_app(x):
            stack.extend(x.children())
        elif z3.is_quantifier(x):
            stack.append(x.body())
    return False


def seq_concat(*parts):
    """n-ary, flattened concatenation (z3 5.1.0 mis-rewrites nth over left-nested concats)."""
    flat = []
    for p in parts:
        if z3.is_app(p) and p.decl().kind() == z3.Z3_OP_SEQ_CONCAT:
            stack = list(p.children())
            sub = []
            while stack:
                c = stack.pop(0)
                if z3.is_app(c) and c.decl().kind() == z3.Z3_OP_SEQ_CONCAT:
                    stack = list(c.children()) + stack
                else:
                    sub.append(c)
            flat += sub
        else:
            flat.append(p)
    flat = [p for p in flat if not (z3.is_app(p) and p.decl().kind() == z3.Z3_OP_SEQ_EMPTY)] or flat[:1]
    if len(flat) == 1:
        return flat[0]
    return z3.Concat(*flat)


def _m(s: str) -> str:
    return "".join(ch if ch.isalnum() else "_" for ch in s)
