"""Types derived from the real annotations, class instantiation, equality of instances."""
from __future__ import annotations

import ast
from typing import Optional

import z3

from .front import ClassInfo, World
from .interp import Frame, RaiseSig, Unsupported
from .tys import (NONE, SV, PyList, PyTuple, Ref, TAbs, TAny, TBool, TDict, TEnum, TInt, TNone, TObj, TOpt, TRec,
                  TSeq, TSet, TSlice, TStr, TTuple, TUnion, Ty, VBuiltin, VClass, VExc, VGen)

SEQ_NAMES = {"list", "List", "Sequence", "Iterable", "Iterator", "Collection", "MutableSequence"}
MAP_NAMES = {"dict", "Dict", "Mapping", "MutableMapping"}
SET_NAMES = {"set", "Set", "frozenset", "AbstractSet"}


class TypeDB:
    def __init__(self, world: World, cdb):
        self.w = world
        self.cdb = cdb
        self.value_classes: set[str] = set()
        self.field_overrides: dict[tuple[str, str], str] = {}
        self.extra_fields: dict[tuple[str, str], str] = {}  # (cls, field) -> type string for non-annotated fields
        self.ordered_dict_fields: set[tuple[str, str]] = set()
        self._field_cache: dict = {}
        self._enum_cache: dict = {}
        self._rec_cache: dict = {}
        self._rec_building: set = set()

    # ------------------------------------------------------------------ type strings (contract side)
    def parse_ty(self, s: str, module: str = "") -> Ty:
        node = ast.parse(s, mode="eval").body
        return self.spec_ty(node, module)

    def spec_ty(self, node, module: str) -> Ty:
        """Type expressions of the contract language."""
        if isinstance(node, ast.Constant) and isinstance(node.value, str):
            return self.parse_ty(node.value, module)
        if isinstance(node, ast.Name):
            n = node.id
            if n == "int":
                return TInt
            if n == "bool":
                return TBool
            if n == "str":
                return TStr
            if n == "Any":
                return TAny
            if n == "Bytes":
                return TSeq(TInt, bytes_=True)
            if n == "NoneT":
                return TNone
            if n == "Slice":
                return TSlice
            q = self.cdb.class_alias(n)
            if q is not None:
                return self.class_ty(q)
            if n in self.cdb.type_aliases:
                mod, _, nm = self.cdb.type_aliases[n].rpartition(".")
                return self.ann_to_ty(mod, ast.Name(id=nm))
            if n in self.cdb.typevar_bindings:
                return self.parse_ty(self.cdb.typevar_bindings[n])
            return TAbs(n)
        if isinstance(node, ast.Attribute):
            q = ast.unparse(node)
            if self.w.get_class(q) is not None:
                return self.class_ty(q)
            raise Unsupported(f"type {q}")
        if isinstance(node, ast.Subscript):
            head = node.value.id if isinstance(node.value, ast.Name) else ast.unparse(node.value)
            args = node.slice.elts if isinstance(node.slice, ast.Tuple) else [node.slice]
            if head == "Opt":
                return TOpt(self.spec_ty(args[0], module))
            if head == "Seq":
                return TSeq(self.spec_ty(args[0], module))
            if head == "TupSeq":
                return TSeq(self.spec_ty(args[0], module), tuple_=True)
            if head == "Dict":
                return TDict(self.spec_ty(args[0], module), self.spec_ty(args[1], module))
            if head == "ODict":
                return TDict(self.spec_ty(args[0], module), self.spec_ty(args[1], module), ordered=True)
            if head == "Set":
                return TSet(self.spec_ty(args[0], module))
            if head == "Tup":
                return TTuple([self.spec_ty(a, module) for a in args])
            if head == "Union":
                return TUnion([self.spec_ty(a, module) for a in args])
            if head == "Exact":
                t = self.spec_ty(args[0], module)
                return TObj(t.cls, exact=True)
        raise Unsupported(f"type expression {ast.unparse(node)}")

    # ------------------------------------------------------------------ annotations of the real code
    def ann_to_ty(self, module: str, ann) -> Ty:
        if ann is None:
            raise Unsupported("missing annotation")
        if isinstance(ann, ast.Constant):
            if ann.value is None:
                return TNone
            if isinstance(ann.value, str):
                return self.ann_to_ty(module, ast.parse(ann.value, mode="eval").body)
            raise Unsupported(f"annotation constant {ann.value!r}")
        if isinstance(ann, ast.BinOp) and isinstance(ann.op, ast.BitOr):
            alts = self._flatten_union(ann)
            tys = [self.ann_to_ty(module, a) for a in alts]
            return self.mk_union(tys)
        if isinstance(ann, ast.Name) or isinstance(ann, ast.Attribute):
            nm = ann.id if isinstance(ann, ast.Name) else None
            if nm == "int":
                return TInt
            if nm == "bool":
                return TBool
            if nm == "str":
                return TStr
            if nm == "bytes" or nm == "bytearray":
                return TSeq(TInt, bytes_=True)
            if nm in ("object", "Any"):
                return TAny
            if nm == "float":
                return TAbs("float")
            if nm == "None":
                return TNone
            if nm == "slice":
                return TSlice
            if nm == "Self":
                raise Unsupported("Self annotation")
            r = self.w.resolve_expr(module, ann)
            if r is None:
                if nm in SEQ_NAMES:
                    return TSeq(TAny)
                raise Unsupported(f"annotation {ast.unparse(ann)} in {module}")
            if r[0] == "const":
                return self.ann_to_ty(r[1], r[2])
            if r[0] == "class":
                return self.class_ty(r[1].qname)
            if r[0] == "typevar":
                if r[1] in self.cdb.typevar_bindings:
                    return self.parse_ty(self.cdb.typevar_bindings[r[1]])
                return TAbs(r[1])
            if r[0] == "external":
                tail = r[1].rsplit(".", 1)[-1]
                if tail in ("Any", "object", "Hashable"):
                    return TAny
                if tail == "Self":
                    raise Unsupported("Self annotation")
                raise Unsupported(f"external annotation {r[1]}")
            raise Unsupported(f"annotation {ast.unparse(ann)} -> {r[0]}")
        if isinstance(ann, ast.Subscript):
            head = ann.value
            hn = head.id if isinstance(head, ast.Name) else (head.attr if isinstance(head, ast.Attribute) else "")
            args = ann.slice.elts if isinstance(ann.slice, ast.Tuple) else [ann.slice]
            if hn in SEQ_NAMES:
                return TSeq(self.ann_to_ty(module, args[0]))
            if hn in MAP_NAMES:
                return TDict(self.ann_to_ty(module, args[0]), self.ann_to_ty(module, args[1]))
            if hn in SET_NAMES:
                return TSet(self.ann_to_ty(module, args[0]))
            if hn in ("tuple", "Tuple") and isinstance(head, ast.Name):
                if len(args) == 2 and isinstance(args[1], ast.Constant) and args[1].value is Ellipsis:
                    return TSeq(self.ann_to_ty(module, args[0]), tuple_=True)
                return TTuple([self.ann_to_ty(module, a) for a in args])
            if hn == "Optional":
                return self.mk_union([self.ann_to_ty(module, args[0]), TNone])
            if hn in ("ClassVar", "Final", "Annotated"):
                return self.ann_to_ty(module, args[0])
            if hn == "Literal":
                v = args[0]
                if isinstance(v, ast.Constant) and isinstance(v.value, str):
                    return TStr
                if isinstance(v, ast.Constant) and isinstance(v.value, int):
                    return TInt
            if hn == "type":
                raise Unsupported("type[...] annotation")
            # generic repo class: parameters are dropped
            r = self.w.deref_const(self.w.resolve_expr(module, head))
            if r is not None and r[0] == "class":
                return self.class_ty(r[1].qname)
            if r is not None and r[0] == "const":
                return self.ann_to_ty(r[1], r[2])
        raise Unsupported(f"annotation {ast.unparse(ann)} in {module}")

    def _flatten_union(self, ann):
        if isinstance(ann, ast.BinOp) and isinstance(ann.op, ast.BitOr):
            return self._flatten_union(ann.left) + self._flatten_union(ann.right)
        return [ann]

    def mk_union(self, tys: list[Ty]) -> Ty:
        flat = []
        for t in tys:
            if isinstance(t, TOpt):
                flat += [t.inner, TNone]
            elif isinstance(t, TUnion):
                flat += t.alts
            else:
                flat.append(t)
        uniq = []
        for t in flat:
            if t not in uniq:
                uniq.append(t)
        non_none = [t for t in uniq if t is not TNone]
        has_none = len(non_none) != len(uniq)
        # several repo classes -> their common base
        if len(non_none) > 1 and all(isinstance(t, TObj) for t in non_none):
            cb = non_none[0].cls
            try:
                for t in non_none[1:]:
                    cb = self.common_base(cb, t.cls)
            except Unsupported:
                # unrelated classes: a reference discriminated by the class tag, restricted to these classes
                cb = "*{" + "|".join(t.cls for t in non_none) + "}"
            non_none = [TObj(cb)]
        if len(non_none) == 1:
            return TOpt(non_none[0]) if has_none else non_none[0]
        if not non_none:
            return TNone
        return TUnion(non_none + ([TNone] if has_none else []))

    def owner_module(self, owner: str) -> str:
        """module of a (possibly nested) class given by its qualified name"""
        ci = self.w.get_class(owner)
        return ci.module if ci is not None else owner.rsplit(".", 1)[0]

    def common_base(self, a: str, b: str) -> str:
        if a.startswith("*") or b.startswith("*"):
            return "*"
        ma = self.w.mro(a)
        mb = self.w.mro(b)
        for c in ma:
            if c in mb:
                return c
        raise Unsupported(f"no common base of {a} and {b}")

    def class_ty(self, qname: str) -> Ty:
        ci = self.w.get_class(qname)
        if ci is None:
            raise Unsupported(f"unknown class {qname}")
        if ci.is_enum:
            return self.enum_ty(qname)
        if qname in self.value_classes:
            return self.rec_ty(qname)
        return TObj(qname)

    def rec_ty(self, qname: str) -> TRec:
        if qname in self._rec_cache:
            return self._rec_cache[qname]
        if qname in self._rec_building:
            raise Unsupported(f"recursive value class {qname}")
        self._rec_building.add(qname)
        try:
            fields = []
            for f in self.w.all_fields(qname):
                fields.append((f.name, self.field_ty(f.owner, f.name, for_cls=qname)))
            t = TRec(qname, fields)
        finally:
            self._rec_building.discard(qname)
        self._rec_cache[qname] = t
        return t

    def rec_eq_structural(self, t: TRec) -> bool:
        if self.w.find_method(t.cls, "__eq__") is not None:
            return False
        for f in self.w.all_fields(t.cls):
            if not f.compare:
                return False
        return all(self._structural(ft) for _, ft in t.fields)

    def _structural(self, t: Ty) -> bool:
        if t in (TInt, TBool, TStr, TAny) or isinstance(t, (TAbs, TEnum)):
            return True
        if isinstance(t, (TSeq,)):
            return self._structural(t.elem)
        if isinstance(t, TOpt):
            return self._structural(t.inner)
        if isinstance(t, TTuple):
            return all(self._structural(e) for e in t.elems)
        if isinstance(t, TRec):
            return self.rec_eq_structural(t)
        return False

    def enum_ty(self, qname: str) -> TEnum:
        if qname not in self._enum_cache:
            ci = self.w.get_class(qname)
            self._enum_cache[qname] = TEnum(qname, [m for m, _ in ci.enum_members])
        return self._enum_cache[qname]

    def enum_value(self, it, v: SV) -> SV:
        ci = self.w.get_class(v.ty.cls)
        vals = [(m, e) for m, e in ci.enum_members]
        first = vals[0][1]
        if isinstance(first, ast.Constant) and isinstance(first.value, int):
            t = z3.IntVal(vals[-1][1].value)
            for m, e in reversed(vals[:-1]):
                t = z3.If(v.term == v.ty.member(m), z3.IntVal(e.value), t)
            return SV(TInt, t)
        if isinstance(first, ast.Constant) and isinstance(first.value, str):
            t = z3.StringVal(vals[-1][1].value)
            for m, e in reversed(vals[:-1]):
                t = z3.If(v.term == v.ty.member(m), z3.StringVal(e.value), t)
            return SV(TStr, t)
        raise Unsupported("enum value kind")

    def enum_lookup(self, it, ci: ClassInfo, val, fr):
        ty = self.enum_ty(ci.qname)
        val = it.force(val, fr)
        for m, e in ci.enum_members:
            mv = it.eval(e, Frame(ci.module))
            if it.branch(it.py_eq(val, mv, fr)):
                return SV(ty, ty.member(m))
        it.raise_exc("ValueError")

    # ------------------------------------------------------------------ fields
    def field_ty(self, owner: str, fname: str, for_cls: Optional[str] = None) -> Ty:
        key = (owner, fname)
        if key in self._field_cache:
            return self._field_cache[key]
        if key in self.field_overrides:
            t = self.parse_ty(self.field_overrides[key])
        elif key in self.extra_fields:
            t = self.parse_ty(self.extra_fields[key])
        else:
            mod = self.owner_module(owner)
            f = None
            ci = self.w.get_class(owner)
            for x in ci.fields:
                if x.name == fname:
                    f = x
            if f is None:
                raise Unsupported(f"no field {owner}.{fname}")
            t = self.ann_to_ty(mod, f.ann)
        if isinstance(t, TDict) and key in self.ordered_dict_fields:
            t = TDict(t.k, t.v, ordered=True)
        self._field_cache[key] = t
        return t

    def extra_field_owner(self, cls: str, fname: str) -> Optional[str]:
        for cq in self.w.mro(cls):
            if (cq, fname) in self.extra_fields:
                return cq
        return None

    # ------------------------------------------------------------------ instantiation
    def is_exception_class(self, ci: ClassInfo) -> bool:
        for q in self.w.mro(ci.qname):
            c = self.w.get_class(q)
            if c is None:
                continue
            for b in self.w.class_bases(c):
                if (b.startswith("ext:") or b.startswith("?")) and b.lstrip("?").rsplit(".", 1)[-1] in ("Exception", "ValueError", "KeyError", "IndexError", "BaseException", "TypeError", "RuntimeError"):
                    return True
        return False

    def instantiate(self, it, ci: ClassInfo, args, kwargs, fr):
        q = ci.qname
        if ci.is_enum:
            if len(args) != 1:
                raise Unsupported("enum call arity")
            return self.enum_lookup(it, ci, args[0], fr)
        if self.is_exception_class(ci):
            return VExc(q, args, ci)
        if ci.is_protocol:
            raise Unsupported(f"instantiating protocol {q}")
        if ci.is_model:
            # pydantic model instance: an immutable record of its declared fields, built from
            # keyword arguments (validation is not modelled: arguments inhabit the declared types)
            it.notes.add("pydantic models: construction stores the given field values (no validation modelled)")
            obj = it.alloc(q)
            if args:
                if len(args) == 1 and self.w.find_field(q, "root") is not None and not kwargs:
                    kwargs = {"root": args[0]}
                else:
                    raise Unsupported(f"positional arguments constructing pydantic model {q}")
            vals = self.bind_fields(it, q, [], kwargs, fr)
            for n, v in vals.items():
                it.write_field(obj, n, v, fr)
            return obj
        init = self.w.find_method(q, "__init__")
        is_dc = any((self.w.get_class(c) is not None and self.w.get_class(c).is_dataclass) for c in self.w.mro(q))
        if q in self.value_classes:
            if init is not None:
                raise Unsupported(f"value class {q} with __init__")
            ty = self.rec_ty(q)
            vals = self.bind_fields(it, q, args, kwargs, fr)
            rec = SV(ty, ty.mk(*[it.coerce(vals[n], t).term for n, t in ty.fields]))
            return rec
        obj = it.alloc(q)
        if init is not None:
            it.call_function(init, [obj] + list(args), kwargs, fr, recv_cls=q)
            return obj
        if not is_dc:
            if args or kwargs:
                raise Unsupported(f"constructor arguments for plain class {q}")
            return obj
        vals = self.bind_fields(it, q, args, kwargs, fr)
        for n, v in vals.items():
            it.write_field(obj, n, v, fr)
        post = self.w.find_method(q, "__post_init__")
        if post is not None:
            it.call_function(post, [obj], {}, fr, recv_cls=q)
        return obj

    def bind_fields(self, it, q: str, args, kwargs, fr) -> dict:
        fields = [f for f in self.w.all_fields(q)]
        vals = {}
        pos = list(args)
        kwargs = dict(kwargs)
        for f in fields:
            if not f.init:
                if f.default is not None:
                    vals[f.name] = it.eval(f.default, Frame(self.owner_module(f.owner)))
                elif f.default_factory is not None:
                    vals[f.name] = self.call_factory(it, f, fr)
                continue
            if pos:
                vals[f.name] = pos.pop(0)
            elif f.name in kwargs:
                vals[f.name] = kwargs.pop(f.name)
            elif f.default is not None:
                vals[f.name] = it.eval(f.default, Frame(self.owner_module(f.owner)))
            elif f.default_factory is not None:
                vals[f.name] = self.call_factory(it, f, fr)
            else:
                raise Unsupported(f"missing field {f.name} constructing {q}")
        if pos or kwargs:
            raise Unsupported(f"extra constructor arguments for {q}: {len(pos)} {list(kwargs)}")
        # fix literal containers to the field type
        out = {}
        for f in fields:
            if f.name in vals:
                v = vals[f.name]
                ty = self.field_ty(f.owner, f.name)
                out[f.name] = it.cdb.builtins.literal_as(it, v, ty, fr)
        return out

    def call_factory(self, it, f, fr):
        e = f.default_factory
        ty = self.field_ty(f.owner, f.name)
        if isinstance(e, ast.Name) and e.id == "dict":
            if ty is TAny:
                return SV(TAny, it.fresh("newdict", TAny.sort()))
            return it.empty_dict(ty)
        if isinstance(e, ast.Name) and e.id == "list":
            return it.mk_seq(ty, [])
        if isinstance(e, ast.Name) and e.id == "set":
            return SV(ty, z3.K(ty.k.sort(), z3.BoolVal(False)))
        fn = it.eval(e, Frame(self.owner_module(f.owner)))
        return it.call_value(fn, [], {}, fr)

    # ------------------------------------------------------------------ equality of heap objects
    def obj_eq(self, it, a: SV, b: SV, fr):
        """Python == on two references."""
        ca, cb = a.ty.cls, b.ty.cls
        eqm = self.w.find_method(ca, "__eq__")
        if eqm is not None:
            con = self.cdb.contract_for(eqm, ca)
            if con is not None:
                return it.truthy(self.cdb.apply_contract(it, con, eqm, [a, b], {}, fr), fr)
            # user-defined __eq__ is opaque unless the contracts say otherwise
            f = z3.Function("py_eq_" + eqm.qname.replace(".", "_"), Ref, Ref, z3.BoolSort())
            return f(a.term, b.term)
        cia = self.w.get_class(ca)
        is_dc_eq = False
        for q in self.w.mro(ca):
            c = self.w.get_class(q)
            if c is not None and c.is_dataclass and c.eq:
                is_dc_eq = True
                break
        if not is_dc_eq:
            return a.term == b.term
        # generated dataclass __eq__: same class and compare-fields equal.  For recursive data
        # (types, values) an uninterpreted relation with the unfolding left to the contracts.
        f = z3.Function("dc_eq", Ref, Ref, z3.BoolSort())
        it.notes.add("dataclass == on heap objects is the uninterpreted relation dc_eq (reflexive; unfolded by contracts)")
        it.assume(f(a.term, a.term))
        it.assume(f(b.term, b.term))
        return f(a.term, b.term)
