"""Front end: parse the real sources under <repo>/hugr-py/src/hugr (no import, no exec).

Builds a World: modules, classes (fields, dataclass flags, bases, MRO, methods),
module level functions and constants, import aliases, source hashes.
"""
from __future__ import annotations

import ast
import hashlib
import os
from dataclasses import dataclass, field
from typing import Optional


def repo_src() -> str:
    return os.environ.get("VERIF_REPO_SRC", "/repo/hugr-py/src")


@dataclass
class FieldInfo:
    name: str
    ann: Optional[ast.expr]
    default: Optional[ast.expr]  # default value expression (or default_factory call)
    default_factory: Optional[ast.expr]
    compare: bool = True
    init: bool = True
    classvar: bool = False
    owner: str = ""  # qualified class name declaring it


@dataclass
class ClassInfo:
    module: str
    name: str
    node: ast.ClassDef
    bases: list  # resolved qualified names (str) or raw names for externals
    is_dataclass: bool = False
    frozen: bool = False
    eq: bool = True
    order: bool = False
    is_protocol: bool = False
    is_enum: bool = False
    is_model: bool = False  # pydantic BaseModel / RootModel subclass
    runtime_checkable: bool = False
    fields: list = field(default_factory=list)  # own FieldInfo (declaration order)
    methods: dict = field(default_factory=dict)  # name -> FuncInfo
    enum_members: list = field(default_factory=list)  # (name, value expr)
    class_attrs: dict = field(default_factory=dict)  # name -> expr (non-field class level assigns)
    nested: dict = field(default_factory=dict)  # name -> ClassInfo of a class defined in this class body

    @property
    def qname(self) -> str:
        return f"{self.module}.{self.name}"


@dataclass
class FuncInfo:
    module: str
    cls: Optional[str]  # class name (unqualified) or None
    name: str
    node: ast.FunctionDef
    kind: str = "function"  # function | method | staticmethod | classmethod | property | cached_property
    is_stub: bool = False
    is_generator: bool = False

    @property
    def qname(self) -> str:
        if self.cls:
            return f"{self.module}.{self.cls}.{self.name}"
        return f"{self.module}.{self.name}"

    def source_hash(self) -> str:
        return hashlib.sha256(ast.dump(self.node, include_attributes=False).encode()).hexdigest()[:16]


@dataclass
class ModuleInfo:
    name: str
    path: str
    tree: ast.Module
    sha256: str
    imports: dict = field(default_factory=dict)  # local name -> ("module", modname) | ("name", modname, attr)
    classes: dict = field(default_factory=dict)
    functions: dict = field(default_factory=dict)
    constants: dict = field(default_factory=dict)  # name -> expr
    typevars: set = field(default_factory=set)


def _is_stub_body(body: list) -> bool:
    stmts = [s for s in body if not (isinstance(s, ast.Expr) and isinstance(s.value, ast.Constant) and isinstance(s.value.value, str))]
    if not stmts:
        return True
    if len(stmts) == 1 and isinstance(stmts[0], ast.Expr) and isinstance(stmts[0].value, ast.Constant) and stmts[0].value.value is Ellipsis:
        return True
    return False


class _YieldFinder(ast.NodeVisitor):
    def __init__(self):
        self.found = False

    def visit_Yield(self, node):
        self.found = True

    def visit_YieldFrom(self, node):
        self.found = True

    def visit_FunctionDef(self, node):  # do not descend into nested defs
        pass

    def visit_Lambda(self, node):
        pass


def _has_yield(fn: ast.FunctionDef) -> bool:
    f = _YieldFinder()
    for s in fn.body:
        f.visit(s)
    return f.found


def _deco_name(d: ast.expr) -> str:
    if isinstance(d, ast.Call):
        d = d.func
    if isinstance(d, ast.Attribute):
        return d.attr
    if isinstance(d, ast.Name):
        return d.id
    return ""


class World:
    def __init__(self, src_root: Optional[str] = None, package: str = "hugr"):
        self.src_root = src_root or repo_src()
        self.package = package
        self.modules: dict[str, ModuleInfo] = {}
        self._load()
        self._mro_cache: dict[str, list[str]] = {}

    # ------------------------------------------------------------------ loading
    def _load(self):
        base = os.path.join(self.src_root, self.package)
        for dirpath, _dirs, files in sorted(os.walk(base)):
            for fn in sorted(files):
                if not fn.endswith(".py"):
                    continue
                path = os.path.join(dirpath, fn)
                rel = os.path.relpath(path, self.src_root)[:-3].replace(os.sep, ".")
                if rel.endswith(".__init__"):
                    rel = rel[: -len(".__init__")]
                data = open(path, "rb").read()
                tree = ast.parse(data.decode("utf-8"), filename=path)
                mi = ModuleInfo(rel, path, tree, hashlib.sha256(data).hexdigest())
                self.modules[rel] = mi
        for mi in self.modules.values():
            self._scan_module(mi)

    def _scan_module(self, mi: ModuleInfo):
        def scan(stmts):
            for st in stmts:
                if isinstance(st, ast.Import):
                    for a in st.names:
                        if a.asname:
                            mi.imports[a.asname] = ("module", a.name)
                        else:
                            mi.imports[a.name.split(".")[0]] = ("module", a.name.split(".")[0])
                elif isinstance(st, ast.ImportFrom):
                    mod = st.module or ""
                    if st.level:
                        parts = mi.name.split(".")
                        is_pkg = mi.path.endswith("__init__.py")
                        up = st.level - (1 if is_pkg else 0)
                        basep = parts[: len(parts) - up] if not is_pkg else parts[: len(parts) - st.level + 1]
                        if not is_pkg:
                            basep = parts[: len(parts) - st.level]
                        mod = ".".join(basep + ([mod] if mod else []))
                    for a in st.names:
                        mi.imports[a.asname or a.name] = ("name", mod, a.name)
                elif isinstance(st, ast.If):
                    # `if TYPE_CHECKING:` imports are still useful for resolving annotations
                    scan(st.body)
                    scan(st.orelse)
                elif isinstance(st, ast.ClassDef):
                    self._scan_class(mi, st)
                elif isinstance(st, ast.FunctionDef):
                    decos = [_deco_name(d) for d in st.decorator_list]
                    if "overload" in decos:
                        continue
                    mi.functions[st.name] = FuncInfo(mi.name, None, st.name, st, "function", _is_stub_body(st.body), _has_yield(st))
                elif isinstance(st, ast.Assign) and len(st.targets) == 1 and isinstance(st.targets[0], ast.Name):
                    nm = st.targets[0].id
                    if isinstance(st.value, ast.Call) and _deco_name(st.value) == "TypeVar":
                        mi.typevars.add(nm)
                    mi.constants[nm] = st.value
                elif isinstance(st, ast.AnnAssign) and isinstance(st.target, ast.Name) and st.value is not None:
                    mi.constants[st.target.id] = st.value
                elif (isinstance(st, ast.Assign) and len(st.targets) == 1 and isinstance(st.targets[0], ast.Attribute)
                      and isinstance(st.targets[0].value, ast.Name) and st.targets[0].value.id in mi.classes):
                    # class variables initialised after the class body (EnvelopeConfig.TEXT = ...)
                    mi.classes[st.targets[0].value.id].class_attrs[st.targets[0].attr] = st.value

        scan(mi.tree.body)

    def _scan_class(self, mi: ModuleInfo, node: ast.ClassDef, outer: str = ""):
        cname = f"{outer}.{node.name}" if outer else node.name
        ci = ClassInfo(mi.name, cname, node, [])
        for d in node.decorator_list:
            dn = _deco_name(d)
            if dn == "dataclass":
                ci.is_dataclass = True
                if isinstance(d, ast.Call):
                    for kw in d.keywords:
                        if isinstance(kw.value, ast.Constant):
                            if kw.arg == "frozen":
                                ci.frozen = bool(kw.value.value)
                            elif kw.arg == "eq":
                                ci.eq = bool(kw.value.value)
                            elif kw.arg == "order":
                                ci.order = bool(kw.value.value)
            elif dn == "runtime_checkable":
                ci.runtime_checkable = True
        ci.raw_bases = node.bases
        for st in node.body:
            if isinstance(st, ast.FunctionDef):
                decos = [_deco_name(d) for d in st.decorator_list]
                if "overload" in decos:
                    continue
                kind = "method"
                if "staticmethod" in decos:
                    kind = "staticmethod"
                elif "classmethod" in decos:
                    kind = "classmethod"
                elif "cached_property" in decos:
                    kind = "cached_property"
                elif "property" in decos:
                    kind = "property"
                elif any(dn == "setter" for dn in decos):
                    continue
                ci.methods[st.name] = FuncInfo(mi.name, cname, st.name, st, kind, _is_stub_body(st.body), _has_yield(st))
            elif isinstance(st, ast.AnnAssign) and isinstance(st.target, ast.Name):
                fi = FieldInfo(st.target.id, st.annotation, None, None, owner=f"{mi.name}.{cname}")
                ann_src = ast.unparse(st.annotation)
                if ann_src.startswith("ClassVar") or ann_src.startswith("typing.ClassVar") or ann_src.startswith("'ClassVar"):
                    fi.classvar = True
                    if st.value is not None:
                        ci.class_attrs[fi.name] = st.value
                if st.value is not None and not fi.classvar:
                    v = st.value
                    if isinstance(v, ast.Call) and _deco_name(v) in ("field", "Field"):
                        for kw in v.keywords:
                            if kw.arg == "default":
                                fi.default = kw.value
                            elif kw.arg == "default_factory":
                                fi.default_factory = kw.value
                            elif kw.arg == "compare" and isinstance(kw.value, ast.Constant):
                                fi.compare = bool(kw.value.value)
                            elif kw.arg == "init" and isinstance(kw.value, ast.Constant):
                                fi.init = bool(kw.value.value)
                    else:
                        fi.default = v
                ci.fields.append(fi)
            elif isinstance(st, ast.Assign) and len(st.targets) == 1 and isinstance(st.targets[0], ast.Name):
                ci.class_attrs[st.targets[0].id] = st.value
            elif isinstance(st, ast.ClassDef):
                # a class defined in the class body (Extension.NotFound, ExtensionRegistry.ExtensionNotFound, ...)
                ci.nested[st.name] = self._scan_class(mi, st, cname)
        mi.classes[cname] = ci
        return ci

    # ------------------------------------------------------------------ resolution
    def resolve_name(self, modname: str, name: str, _depth=0):
        """Resolve a global name used in module `modname`.

        Returns ("class", ClassInfo) | ("func", FuncInfo) | ("const", modname, expr)
              | ("module", modname) | ("typevar", name) | ("external", dotted) | None
        """
        if _depth > 10:
            return None
        mi = self.modules.get(modname)
        if mi is None:
            return ("external", f"{modname}.{name}")
        if name in mi.classes:
            return ("class", mi.classes[name])
        if name in mi.functions:
            return ("func", mi.functions[name])
        if name in mi.typevars:
            return ("typevar", name)
        if name in mi.constants:
            return ("const", modname, mi.constants[name])
        if name in mi.imports:
            imp = mi.imports[name]
            if imp[0] == "module":
                return ("module", imp[1])
            _, mod, attr = imp
            if mod in self.modules:
                r = self.resolve_name(mod, attr, _depth + 1)
                if r is not None:
                    return r
                # may be a submodule
                if f"{mod}.{attr}" in self.modules:
                    return ("module", f"{mod}.{attr}")
                return None
            if f"{mod}.{attr}" in self.modules:
                return ("module", f"{mod}.{attr}")
            return ("external", f"{mod}.{attr}")
        return None

    def resolve_expr(self, modname: str, e: ast.expr):
        """Resolve a dotted Name/Attribute chain statically (classes, functions, modules)."""
        if isinstance(e, ast.Name):
            return self.resolve_name(modname, e.id)
        if isinstance(e, ast.Attribute):
            base = self.resolve_expr(modname, e.value)
            if base is None:
                return None
            if base[0] == "module":
                sub = f"{base[1]}.{e.attr}"
                if base[1] in self.modules:
                    r = self.resolve_name(base[1], e.attr)
                    if r is not None:
                        return r
                if sub in self.modules:
                    return ("module", sub)
                return ("external", sub)
            if base[0] == "class":
                ci = base[1]
                m = self.find_method(ci.qname, e.attr)
                if m is not None:
                    return ("func", m)
                for cq in self.mro(ci.qname):
                    c = self.get_class(cq)
                    if c is None:
                        continue
                    if c.is_enum:
                        for (mn, mv) in c.enum_members:
                            if mn == e.attr:
                                return ("enum_member", c, mn)
                    if e.attr in c.class_attrs:
                        return ("classattr", c, e.attr)
                return None
            if base[0] == "external":
                return ("external", f"{base[1]}.{e.attr}")
            if base[0] == "const":
                # alias like `TypeBound = stys.TypeBound`
                r = self.resolve_expr(base[1], base[2])
                if r is not None and r[0] in ("class", "module"):
                    return self.resolve_expr_on(r, e.attr)
        return None

    def resolve_expr_on(self, base, attr):
        fake = ast.Attribute(value=None, attr=attr)
        if base[0] == "module":
            if base[1] in self.modules:
                return self.resolve_name(base[1], attr)
            return ("external", f"{base[1]}.{attr}")
        if base[0] == "class":
            ci = base[1]
            m = self.find_method(ci.qname, attr)
            if m is not None:
                return ("func", m)
            for cq in self.mro(ci.qname):
                c = self.get_class(cq)
                if c is None:
                    continue
                if c.is_enum:
                    for (mn, mv) in c.enum_members:
                        if mn == attr:
                            return ("enum_member", c, mn)
                if attr in c.class_attrs:
                    return ("classattr", c, attr)
        return None

    def deref_const(self, r, _depth=0):
        """Follow const aliases (`X = other.Y`) to classes/functions where possible."""
        while r is not None and r[0] == "const" and _depth < 10:
            nr = self.resolve_expr(r[1], r[2]) if isinstance(r[2], (ast.Name, ast.Attribute)) else None
            if nr is None:
                return r
            r = nr
            _depth += 1
        return r

    def get_class(self, qname: str) -> Optional[ClassInfo]:
        mod, _, nm = qname.rpartition(".")
        mi = self.modules.get(mod)
        if mi is None:
            # a nested class: hugr.ext.Extension.TypeNotFound -> module hugr.ext, class "Extension.TypeNotFound"
            while "." in mod:
                mod, _, outer = mod.rpartition(".")
                nm = f"{outer}.{nm}"
                mi = self.modules.get(mod)
                if mi is not None:
                    return mi.classes.get(nm)
            return None
        return mi.classes.get(nm)

    def class_bases(self, ci: ClassInfo) -> list:
        if ci.bases:
            return ci.bases
        out = []
        for b in ci.raw_bases:
            bb = b
            if isinstance(bb, ast.Subscript):  # Generic[T], Protocol[S], BiMap[...]
                bb = bb.value
            r = self.deref_const(self.resolve_expr(ci.module, bb))
            if r is None and "." in ci.name and isinstance(bb, ast.Name):
                # a base named inside the enclosing class body (class OperationNotFound(NotFound))
                sib = self.modules[ci.module].classes.get(ci.name.rsplit(".", 1)[0] + "." + bb.id)
                if sib is not None:
                    r = ("class", sib)
            if r is None:
                out.append("?" + ast.unparse(bb))
            elif r[0] == "class":
                out.append(r[1].qname)
            elif r[0] == "external":
                out.append("ext:" + r[1])
                tail = r[1].rsplit(".", 1)[-1]
                if tail == "Protocol":
                    ci.is_protocol = True
                if tail in ("Enum", "IntEnum", "StrEnum"):
                    ci.is_enum = True
                if tail in ("BaseModel", "RootModel"):
                    ci.is_model = True
            else:
                out.append("?" + ast.unparse(bb))
        ci.bases = out
        if ci.is_enum and not ci.enum_members:
            for st in ci.node.body:
                if isinstance(st, ast.Assign) and len(st.targets) == 1 and isinstance(st.targets[0], ast.Name):
                    ci.enum_members.append((st.targets[0].id, st.value))
        return out

    def finalize(self):
        for mi in self.modules.values():
            for ci in mi.classes.values():
                self.class_bases(ci)
        # propagate enum-ness through repo bases
        changed = True
        while changed:
            changed = False
            for mi in self.modules.values():
                for ci in mi.classes.values():
                    for b in ci.bases:
                        bc = self.get_class(b) if not b.startswith(("ext:", "?")) else None
                        if bc is not None and bc.is_enum and not ci.is_enum:
                            ci.is_enum = True
                            changed = True
                        if bc is not None and bc.is_model and not ci.is_model:
                            ci.is_model = True
                            changed = True

    @staticmethod
    def union_members(qname: str):
        """'*{A|B}' names the union of unrelated classes A, B (a reference discriminated by its class tag)."""
        if qname.startswith("*{"):
            return qname[2:-1].split("|")
        return None

    def mro(self, qname: str) -> list[str]:
        if qname.startswith("*"):
            return [qname]
        if qname in self._mro_cache:
            return self._mro_cache[qname]
        ci = self.get_class(qname)
        if ci is None:
            return [qname]
        bases = [b for b in self.class_bases(ci) if not b.startswith(("ext:", "?"))]
        seqs = [self.mro(b)[:] for b in bases] + [bases[:]]
        res = [qname]
        while True:
            seqs = [s for s in seqs if s]
            if not seqs:
                break
            cand = None
            for s in seqs:
                c = s[0]
                if not any(c in t[1:] for t in seqs):
                    cand = c
                    break
            if cand is None:
                raise RuntimeError(f"inconsistent MRO for {qname}")
            res.append(cand)
            for s in seqs:
                if s and s[0] == cand:
                    del s[0]
        self._mro_cache[qname] = res
        return res

    def is_subclass(self, qname: str, base: str) -> bool:
        if base == "*":
            return True
        um = self.union_members(base)
        if um is not None:
            return any(m in self.mro(qname) for m in um)
        return base in self.mro(qname)

    def subclasses(self, base: str) -> list[str]:
        if base == "*":
            return [ci.qname for mi in self.modules.values() for ci in mi.classes.values() if not ci.is_enum]
        um = self.union_members(base)
        if um is not None:
            out = []
            for m in um:
                for q in self.subclasses(m):
                    if q not in out:
                        out.append(q)
            return out
        out = []
        for mi in self.modules.values():
            for ci in mi.classes.values():
                if base in self.mro(ci.qname):
                    out.append(ci.qname)
        return out

    def find_method(self, qname: str, name: str) -> Optional[FuncInfo]:
        for cq in self.mro(qname):
            ci = self.get_class(cq)
            if ci is not None and name in ci.methods:
                return ci.methods[name]
        return None

    def all_fields(self, qname: str) -> list[FieldInfo]:
        """Dataclass-style field list in definition order over the reversed MRO."""
        seen: dict[str, FieldInfo] = {}
        for cq in reversed(self.mro(qname)):
            ci = self.get_class(cq)
            if ci is None:
                continue
            for f in ci.fields:
                if f.classvar:
                    continue
                seen[f.name] = f  # later (more derived) overrides but keeps first position
        return list(seen.values())

    def find_field(self, qname: str, name: str) -> Optional[FieldInfo]:
        for cq in self.mro(qname):
            ci = self.get_class(cq)
            if ci is None:
                continue
            for f in ci.fields:
                if f.name == name:
                    return f
        return None

    def dataclass_params(self, qname: str):
        """(is_dataclass, frozen, eq) as inherited."""
        ci = self.get_class(qname)
        return ci.is_dataclass, ci.frozen, ci.eq

    def lookup_func(self, dotted: str) -> Optional[FuncInfo]:
        """'hugr.utils.BiMap.insert_left' or 'hugr.envelope.make_envelope'."""
        parts = dotted.split(".")
        for i in range(len(parts) - 1, 0, -1):
            mod = ".".join(parts[:i])
            if mod in self.modules:
                rest = parts[i:]
                mi = self.modules[mod]
                if len(rest) == 1:
                    return mi.functions.get(rest[0])
                if len(rest) == 2 and rest[0] in mi.classes:
                    return self.find_method(f"{mod}.{rest[0]}", rest[1])
        return None


def load_world(src_root: Optional[str] = None) -> World:
    w = World(src_root)
    w.finalize()
    return w
