"""Verification driver: one function under contract -> paths -> obligations -> solvers."""
from __future__ import annotations

import ast
import os
import subprocess
import tempfile
import time
import traceback
from typing import Optional

import z3

from .contracts import Contract, ContractDB
from .evalx import Evaluator
from .front import FuncInfo, World, load_world
from .interp import Frame, Obligation, PathAbort, RaiseSig, ReturnSig, Unsupported, BreakSig, ContinueSig
from .tys import NONE, SV, PyList, PyTuple, Ref, TNone, TObj, TOpt, VClass, VExc

MAX_PATHS = 4000


class FuncReport:
    def __init__(self, target):
        self.target = target
        self.obligations: list[dict] = []
        self.paths = 0
        self.exits = {"return": 0, "raise": 0, "loop-end": 0, "infeasible": 0}
        self.error: Optional[str] = None
        self.notes: list[str] = []
        self.canary = None
        self.wall = 0.0
        self.source_hash = ""
        self.contract_hash = ""
        self.location = ""
        self.props: list[str] = []

    def to_dict(self):
        return self.__dict__


def _solver_check(pc, goal, timeout_ms):
    s = z3.Solver()
    s.set("timeout", timeout_ms)
    s.set("max_memory", 6000)
    for f in pc:
        s.add(f)
    s.add(z3.Not(goal))
    t0 = time.time()
    r = s.check()
    ms = (time.time() - t0) * 1000
    return s, str(r), ms


from .solve import _cli_check


def discharge(ob: Obligation, tier: str):
    """Discharge with the tier's budget; a property obligation left undecided by the quick budget gets
    one more attempt with the thorough budget before it is reported as undecided."""
    _discharge(ob, tier)
    if ob.status == "unknown" and ob.kind != "prune" and tier == "quick" and not str(ob.backend).startswith("DISAGREE"):
        first = ob.ms
        _discharge(ob, "retry")
        ob.ms += first
        ob.backend = str(ob.backend) + " [after retry with a larger budget]"


def _discharge(ob: Obligation, tier: str):
    """Primary: z3 5.1.0 (API).  Every verdict is cross-checked on the SMT-LIB dump by /usr/bin/z3
    4.8.12 (and cvc5 where needed): z3 5.1.0's sequence rewriter is known to be unsound on some
    inputs (seq.nth over nested concatenations), so neither an `unsat` nor a `sat` of it is
    accepted on its own word."""
    timeout = {"quick": 10000, "retry": 30000}.get(tier, 60000)
    cli_t = {"quick": 10, "retry": 20}.get(tier, 40)
    cli_cache: dict = {}
    portfolio_ran = False
    pre_dump = None
    if ob.kind == "prune":
        # the in-process solver already answered `unsat` when the path was pruned; only the second
        # opinions are asked here (a `sat` from one of them is a disagreement = checker error)
        s = z3.Solver()
        for f in ob.pc:
            s.add(f)
        s.add(z3.Not(ob.goal))
        r, ms = "unsat", 0.0
    else:
        # the dump taken before the check and the one taken after it differ textually (sharing of
        # sub-terms); the command-line solvers' heuristics are sensitive to that, so both are offered
        s0 = z3.Solver()
        for f in ob.pc:
            s0.add(f)
        s0.add(z3.Not(ob.goal))
        pre_dump = s0.to_smt2()
        # a short first attempt; when it is not enough, the full-budget attempt runs while the two
        # command-line solvers work on the dump in parallel (portfolio): a hard obligation costs the
        # maximum of the budgets instead of their sum, and the in-process attempt is interrupted as
        # soon as a command-line solver has decided
        s, r, ms = _solver_check(ob.pc, ob.goal, min(2000, timeout))
        if r == "unknown":
            from concurrent.futures import ThreadPoolExecutor
            # the full-budget attempt runs in a context of its own: it is interrupted from another thread
            # when a command-line solver decides first, and an interrupt must never reach the context the
            # symbolic executor works in
            ctx2 = z3.Context()
            s = z3.Solver(ctx=ctx2)
            s.set("timeout", timeout)
            s.set("max_memory", 6000)
            for f in ob.pc:
                s.add(f.translate(ctx2))
            s.add(z3.Not(ob.goal).translate(ctx2))

            class _Cancel:
                deadline = None
            cancel = _Cancel()

            def run_cli(tool, dump, interrupt):
                try:
                    res, ms2 = _cli_check(dump, tool, cli_t, cancel)
                except Exception:
                    res, ms2 = "unknown", 0.0
                if res in ("sat", "unsat"):
                    # the other solver keeps a short grace period (its verdict is only the disagreement check)
                    if cancel.deadline is None:
                        cancel.deadline = time.time() + 1.5
                    if interrupt:
                        try:
                            s.ctx.interrupt()
                        except Exception:
                            pass
                return res, ms2
            with ThreadPoolExecutor(max_workers=2) as ex:
                futs = {tool: ex.submit(run_cli, tool, pre_dump, True) for tool in ("z3", "cvc5")}
                t0 = time.time()
                try:
                    r = str(s.check())
                except z3.Z3Exception:
                    r = "unknown"
                ms += (time.time() - t0) * 1000
                for tool, fu in futs.items():
                    res, ms2 = fu.result()
                    ms += ms2
                    cli_cache[tool] = res
            portfolio_ran = True
            if all(v == "unknown" for v in cli_cache.values()) and r == "unknown":
                post = s.to_smt2()
                if post != pre_dump:
                    cancel.deadline = None
                    with ThreadPoolExecutor(max_workers=2) as ex:
                        futs = {tool: ex.submit(run_cli, tool, post, False) for tool in ("z3", "cvc5")}
                        for tool, fu in futs.items():
                            res, ms2 = fu.result()
                            ms += ms2
                            cli_cache[tool] = res
    ob.ms = ms
    ob.backend = "z3-5.1.0(api)"
    ob.confirmed = None
    smt2 = s.to_smt2()
    dumps = [smt2] if ob.kind == "prune" or pre_dump == smt2 else [pre_dump, smt2]

    def second(tool):
        if tool in cli_cache:
            return cli_cache[tool]
        res = "unknown"
        for d in dumps:
            try:
                res, ms2 = _cli_check(d, tool, cli_t)
            except Exception:
                res, ms2 = "unknown", 0.0
            ob.ms += ms2
            if res in ("sat", "unsat"):
                break
        cli_cache[tool] = res
        return res
    if r == "unsat":
        r2 = second("z3")
        if r2 == "unsat":
            ob.status, ob.confirmed = "proved", "z3-4.8.12(cli)"
            ob.backend = "z3-5.1.0(api)+z3-4.8.12(cli)"
            return
        r3 = second("cvc5")
        if r3 == "unsat":
            ob.status, ob.confirmed = "proved", "cvc5-1.0.3(cli)"
            ob.backend = "z3-5.1.0(api)+cvc5-1.0.3(cli)"
            return
        if r2 == "sat" or r3 == "sat":
            ob.status = "unknown"
            ob.backend = f"DISAGREE z3-5.1.0=unsat z3-4.8.12={r2} cvc5={r3}"
            return
        # both second opinions ran out of budget: the primary verdict stands, marked unconfirmed
        ob.status, ob.confirmed = "proved", "unconfirmed"
        ob.backend = "z3-5.1.0(api) (second solvers: timeout)"
        return
    if r == "sat":
        r2 = second("z3")
        if r2 == "unsat":
            r3 = second("cvc5")
            if r3 == "unsat":
                ob.status, ob.confirmed = "proved", "z3-4.8.12+cvc5 (z3-5.1.0 `sat` discarded: rewriter bug)"
                ob.backend = "z3-4.8.12(cli)+cvc5-1.0.3(cli)"
                return
            ob.status = "unknown"
            ob.backend = f"DISAGREE z3-5.1.0=sat z3-4.8.12=unsat cvc5={r3}"
            return
        ob.status = "refuted"
        try:
            if s.ctx is not z3.main_ctx():
                # the model must live in the context of the symbolic values it is evaluated on
                s_main, r_main, ms_main = _solver_check(ob.pc, ob.goal, timeout)
                ob.ms += ms_main
                ob.model = s_main.model() if r_main == "sat" else None
            else:
                ob.model = s.model()
        except z3.Z3Exception:
            ob.model = None
        return
    # unknown: second opinions
    for tool, label in (("z3", "z3-4.8.12(cli)"), ("cvc5", "cvc5-1.0.3(cli)")):
        res = second(tool)
        if res == "unsat":
            other = second("z3" if tool == "cvc5" else "cvc5")
            if other == "sat":
                ob.status = "unknown"
                ob.backend = f"DISAGREE {label}=unsat other=sat"
                return
            ob.status = "proved"
            ob.backend = label
            ob.confirmed = "single back end" if other != "unsat" else "both CLIs"
            return
        if res == "sat":
            ob.status = "refuted"
            ob.backend = label
            return
    # still undecided: retry with fewer hypotheses (those connected to the goal through shared
    # uninterpreted symbols, 1 then 2 steps).  Dropping hypotheses is sound for `unsat`; a `sat`
    # of a sliced query means nothing and is ignored.
    for depth in (1, 2):
        pc2 = _slice(ob.pc, ob.goal, depth)
        if len(pc2) >= len(ob.pc):
            break
        s2, r2, ms2 = _solver_check(pc2, ob.goal, timeout)
        ob.ms += ms2
        if r2 != "unsat":
            continue
        dumps[:] = [s2.to_smt2()]
        cli_cache.clear()
        for tool, label in (("z3", "z3-4.8.12(cli)"), ("cvc5", "cvc5-1.0.3(cli)")):
            if second(tool) == "unsat":
                ob.status, ob.confirmed = "proved", label
                ob.backend = f"z3-5.1.0(api)+{label} [hypotheses sliced to {len(pc2)}/{len(ob.pc)}, depth {depth}]"
                return
        ob.status, ob.confirmed = "proved", "unconfirmed"
        ob.backend = f"z3-5.1.0(api) (second solvers: timeout) [hypotheses sliced to {len(pc2)}/{len(ob.pc)}, depth {depth}]"
        return
    ob.status = "unknown"
    dd = os.environ.get("PYVC_DUMP_UNKNOWN")
    if dd:      # debugging aid: keep the query of an undecided obligation
        os.makedirs(dd, exist_ok=True)
        import re as _re
        fname = _re.sub(r"[^A-Za-z0-9_.:-]", "_", ob.name + "@" + str(getattr(ob, "path", "")))[-150:] + ".smt2"
        with open(os.path.join(dd, fname), "w") as fh:
            fh.write(smt2)


def _symbols(f, cache={}):
    k = f.get_id()
    if k in cache:
        return cache[k]
    out = set()
    seen = set()
    stack = [f]
    while stack:
        t = stack.pop()
        i = t.get_id()
        if i in seen:
            continue
        seen.add(i)
        if z3.is_quantifier(t):
            stack.append(t.body())
        elif z3.is_app(t):
            d = t.decl()
            if d.kind() == z3.Z3_OP_UNINTERPRETED:
                out.add(d.name())
            stack.extend(t.children())
    cache[k] = out
    return out


def _slice(pc, goal, depth):
    syms = set(_symbols(goal))
    keep = [False] * len(pc)
    fs = [_symbols(f) for f in pc]
    for _ in range(depth):
        new = set()
        for i, f in enumerate(pc):
            if not keep[i] and fs[i] & syms:
                keep[i] = True
                new |= fs[i]
        if not new - syms:
            break
        syms |= new
    return [f for i, f in enumerate(pc) if keep[i]]


def _abs_name(t):
    return str(t)


def model_value(m, v, depth=0, ctx=None):
    """Concretise a symbolic value under a model into plain Python data (best effort).
    ctx = (interp, old_heap) lets object references be expanded into their pre-state fields."""
    from .tys import TBool, TDict, TEnum, TInt, TRec, TSeq, TStr, TTuple, TUnion, TAbs, TAny, TSet
    if m is None:
        return None
    if isinstance(v, PyTuple):
        return tuple(model_value(m, x, depth, ctx) for x in v.items)
    if isinstance(v, PyList):
        return [model_value(m, x, depth, ctx) for x in v.items]
    from .tys import VSlice
    if isinstance(v, VSlice):
        return {"slice": [model_value(m, v.start, depth, ctx), model_value(m, v.stop, depth, ctx), model_value(m, v.step, depth, ctx)]}
    if not isinstance(v, SV):
        return repr(v)
    if v.ty is TNone:
        return None
    t = m.eval(v.term, model_completion=True)
    ty = v.ty
    try:
        if ty is TInt:
            return t.as_long()
        if ty is TBool:
            return z3.is_true(t)
        if ty is TStr:
            return t.as_string()
        if isinstance(ty, TOpt):
            if z3.is_true(m.eval(ty.is_none(t), model_completion=True)):
                return None
            return model_value(m, SV(ty.inner, ty.val(t)), depth, ctx)
        if isinstance(ty, TEnum):
            return {"enum": ty.cls, "member": str(t)}
        if isinstance(ty, TSeq):
            n = m.eval(z3.Length(t), model_completion=True).as_long()
            n = min(n, 64)
            items = [model_value(m, SV(ty.elem, t[i]), depth + 1, ctx) for i in range(n)]
            if ty.bytes_:
                return {"bytes": items}
            return tuple(items) if ty.tuple_ else items
        if isinstance(ty, TTuple):
            return tuple(model_value(m, SV(e, ty.get(t, i)), depth + 1, ctx) for i, e in enumerate(ty.elems))
        if isinstance(ty, TRec):
            return {"rec": ty.cls, **{n: model_value(m, SV(ft, ty.get(t, n)), depth + 1, ctx) for n, ft in ty.fields}}
        if isinstance(ty, TUnion):
            for i, a in enumerate(ty.alts):
                if z3.is_true(m.eval(ty.is_alt(i, t), model_completion=True)):
                    if a is TNone:
                        return None
                    return model_value(m, SV(a, ty.proj(i, t)), depth + 1, ctx)
        if isinstance(ty, TAbs) or ty is TAny:
            out = {"sym": str(t)}
            if isinstance(ty, TAbs):
                f = z3.Function(f"truthy_{ty.nm}", ty.sort(), z3.BoolSort())
                out["truthy"] = z3.is_true(m.eval(f(t), model_completion=True))
            return out
        if isinstance(ty, TObj):
            out = {"ref": str(t), "cls": ty.cls}
            if ctx is not None and depth < 3:
                it, old_heap = ctx
                cid = m.eval(it.cls_of(t), model_completion=True)
                for q, i in it.cls_ids.items():
                    if cid.as_long() == i:
                        out["cls"] = q
                fields = {}
                for (owner, fname), arr in old_heap.items():
                    if owner == "__alive__":
                        continue
                    if it.w.is_subclass(out["cls"], owner) or it.w.is_subclass(ty.cls, owner):
                        fty = it.field_ty(owner, fname)
                        fields[fname] = model_value(m, SV(fty, z3.Select(arr, t)), depth + 1, ctx)
                out["fields"] = fields
            return out
        if isinstance(ty, TDict):
            ks = ty.k.sort()
            entries = []
            if ks.kind() == z3.Z3_UNINTERPRETED_SORT:
                for k in (m.get_universe(ks) or []):
                    if z3.is_true(m.eval(z3.Select(ty.dom(t), k), model_completion=True)):
                        entries.append((model_value(m, SV(ty.k, k), depth + 1, ctx), model_value(m, SV(ty.v, z3.Select(ty.val(t), k)), depth + 1, ctx)))
                return {"dict": entries}
            return {"dict_term": str(t)[:600]}
    except Exception as e:  # pragma: no cover - best effort only
        return {"term": str(t)[:200], "err": str(e)}
    return {"term": str(t)[:200]}


class _LemmaCtx:
    """Frame context of a code lemma: lets spec functions resolve by name inside its body."""

    def __init__(self, module):
        self.module = module
        self.loops = {}


class Verifier:
    def __init__(self, world: World, cdb: ContractDB, tier: str = "quick"):
        self.w = world
        self.cdb = cdb
        self.tier = tier

    def verify_lemma(self, name: str) -> FuncReport:
        rep = FuncReport("lemma:" + name)
        t0 = time.time()
        modname, node = self.cdb.lemmas[name]
        rep.location = f"{modname}:{node.lineno}"
        rep.contract_hash = __import__("hashlib").sha256(ast.dump(node).encode()).hexdigest()[:16]
        rep.props = []
        try:
            it = Evaluator(self.w, self.cdb, [])
            fr = Frame(modname, pure=True)
            inputs = {}
            for a in node.args.args:
                ty = self.cdb.types.spec_ty(a.annotation, modname)
                fr.env[a.arg] = it.assume_wf(it.fresh_sv("in_" + a.arg, ty))
                inputs[a.arg] = fr.env[a.arg]
            rep.paths = 1
            rep.canary = it.check(z3.BoolVal(True))
            for cname, term in self.cdb.eval_clauses_fn(it, node, fr):
                kind = "property" if cname.startswith("P_") else "supporting"
                it.oblige(f"lemma:{cname}", term, kind, site=("lemma", cname))
            for ob in it.obligations:
                discharge(ob, self.tier)
                d = {"name": f"lemma:{name}/{ob.name}", "kind": ob.kind, "status": ob.status, "backend": ob.backend, "ms": round(ob.ms, 1), "path": ""}
                if ob.status == "refuted" and ob.model is not None:
                    d["inputs"] = {k: model_value(ob.model, v) for k, v in inputs.items()}
                    d["model_text"] = str(ob.model)[:3000]
                rep.obligations.append(d)
            rep.notes = sorted(it.notes)
        except Unsupported as e:
            rep.error = f"unsupported: {e}"
        except Exception as e:
            rep.error = f"engine error: {type(e).__name__}: {e}\n{traceback.format_exc()[-1500:]}"
        rep.wall = time.time() - t0
        return rep

    def verify_code_lemma(self, name: str) -> FuncReport:
        """A lemma whose body *executes real functions* symbolically (e.g. decode(encode(x))) and
        ends in `return {clause: ...}`.  Parameters are symbolic inputs of the annotated types."""
        rep = FuncReport("code_lemma:" + name)
        t0 = time.time()
        modname, node = self.cdb.code_lemmas[name]
        rep.location = f"{modname}:{node.lineno}"
        rep.contract_hash = __import__("hashlib").sha256(ast.dump(node).encode()).hexdigest()[:16]
        rep.props = []
        try:
            work = [[]]
            seen = {}
            notes = set()
            first = True
            while work:
                dec = work.pop()
                rep.paths += 1
                if rep.paths > MAX_PATHS:
                    raise Unsupported("path explosion")
                it = Evaluator(self.w, self.cdb, dec)
                fr = Frame(modname)
                fr.contract = _LemmaCtx(modname)
                inputs = {}
                for a in node.args.args:
                    ty = self.cdb.types.spec_ty(a.annotation, modname)
                    fr.env[a.arg] = it.assume_wf(it.fresh_sv("in_" + a.arg, ty))
                    inputs[a.arg] = fr.env[a.arg]
                it.alive_pre = it.alive
                old_heap = it.snapshot()
                fr.ghost = {"__old_heap__": old_heap, "__old_env__": dict(fr.env)}
                try:
                    body = [st for st in node.body if not (isinstance(st, ast.Expr) and isinstance(st.value, ast.Constant))]
                    ret = body[-1] if body and isinstance(body[-1], ast.Return) else None
                    try:
                        it.exec_block(body[:-1] if ret is not None else body, fr)
                        rep.exits["return"] += 1
                        if first:
                            rep.canary = it.check(z3.BoolVal(True))
                        if ret is not None:
                            pfr = Frame(modname, pure=True)
                            pfr.env = fr.env
                            pfr.contract = fr.contract
                            pfr.ghost = fr.ghost
                            pfr.old_heap = old_heap
                            pfr.old_env = fr.ghost["__old_env__"]
                            for cname, term in self.cdb.clauses_of_expr(it, ret.value, pfr):
                                kind = "property" if cname.startswith("P_") else "supporting"
                                it.oblige(f"lemma:{cname}", term, kind, site=("clemma", cname))
                    except RaiseSig as rs:
                        rep.exits["raise"] += 1
                        it.oblige(f"unexpected-exception:{rs.exc.cls.rsplit('.', 1)[-1]}", z3.BoolVal(False), "property", site=("cunexp", rs.exc.cls))
                except PathAbort:
                    rep.exits["infeasible"] += 1
                first = False
                work.extend(it.alternatives)
                notes |= it.notes
                for ob in it.obligations:
                    key = (ob.name, ob.site)
                    if key in seen:
                        continue
                    seen[key] = ob
                    discharge(ob, self.tier)
                    d = {"name": f"code_lemma:{name}/{ob.name}", "kind": ob.kind, "status": ob.status, "backend": ob.backend, "ms": round(ob.ms, 1),
                         "path": "".join("T" if x else "F" for x in ob.site[1])}
                    if ob.status == "refuted" and ob.model is not None:
                        d["inputs"] = {k: model_value(ob.model, v, 0, (it, it.snapshots[0])) for k, v in inputs.items()}
                        d["model_text"] = str(ob.model)[:3000]
                    rep.obligations.append(d)
            rep.notes = sorted(notes)
        except Unsupported as e:
            rep.error = f"unsupported: {e}"
        except Exception as e:
            rep.error = f"engine error: {type(e).__name__}: {e}\n{traceback.format_exc()[-1500:]}"
        rep.wall = time.time() - t0
        return rep

    def verify(self, target: str) -> FuncReport:
        if target.startswith("code_lemma:"):
            return self.verify_code_lemma(target[11:])
        if target.startswith("lemma:"):
            return self.verify_lemma(target[6:])
        rep = FuncReport(target)
        t0 = time.time()
        con = self.cdb.all_contracts[target]
        rep.props = list(con.props)
        rep.contract_hash = con.text_hash()
        try:
            fi, recv = self.lookup(target)
            rep.source_hash = fi.source_hash()
            rep.location = f"{self.w.modules[fi.module].path}:{fi.node.lineno}"
            if con.trusted:
                rep.notes.append("TRUSTED: contract assumed, body not verified")
                rep.wall = time.time() - t0
                return rep
            self.explore(con, fi, recv, rep)
        except Unsupported as e:
            rep.error = f"unsupported: {e}"
        except Exception as e:  # engine error
            rep.error = f"engine error: {type(e).__name__}: {e}\n{traceback.format_exc()[-1500:]}"
        rep.wall = time.time() - t0
        return rep

    def lookup(self, target: str):
        target = target.split("#")[0]
        fi = self.w.lookup_func(target)
        if fi is None:
            raise Unsupported(f"function {target} not found in the sources")
        recv = None
        if fi.cls is not None:
            # target may name a subclass inheriting the function
            parts = target.rsplit(".", 1)[0]
            if self.w.get_class(parts) is not None:
                recv = parts
        return fi, recv

    def explore(self, con: Contract, fi: FuncInfo, recv, rep: FuncReport):
        work = [[]]
        seen_obl: dict = {}
        notes = set()
        first = True
        while work:
            dec = work.pop()
            rep.paths += 1
            if rep.paths > MAX_PATHS:
                raise Unsupported("path explosion")
            it = Evaluator(self.w, self.cdb, dec)
            inputs = {}
            try:
                self.scenario(it, con, fi, recv, rep, first, inputs)
            except PathAbort as pa:
                if "infeasible" in str(pa):
                    rep.exits["infeasible"] += 1
                else:
                    rep.exits["loop-end"] += 1
            first = False
            work.extend(it.alternatives)
            notes |= it.notes
            for ob in it.obligations:
                key = (ob.name, ob.site)
                if key in seen_obl:
                    continue
                seen_obl[key] = ob
                discharge(ob, self.tier)
                d = {"name": f"{con.target}/{ob.name}", "kind": ob.kind, "status": ob.status, "backend": ob.backend,
                     "ms": round(ob.ms, 1), "path": "".join("T" if x else "F" for x in ob.site[1])}
                if ob.status == "refuted" and ob.model is not None:
                    d["inputs"] = {k: model_value(ob.model, v, 0, (it, it.snapshots[0])) for k, v in inputs.items()}
                    d["model_text"] = str(ob.model)[:3000]
                rep.obligations.append(d)
        rep.notes = sorted(notes)

    def scenario(self, it: Evaluator, con: Contract, fi: FuncInfo, recv, rep: FuncReport, first: bool, inputs: dict):
        cls_q = f"{fi.module}.{fi.cls}" if fi.cls else None
        fr = Frame(fi.module, cls_q, fi)
        fr.contract = con
        ptys = self.cdb.param_types(it, con, fi, recv)
        for n, t in ptys.items():
            if t is None:
                fr.env[n] = VClass(self.w.get_class(recv or cls_q))
            else:
                fr.env[n] = it.assume_wf(it.fresh_sv("in_" + n, t))
        inputs.update(fr.env)
        old_env = dict(fr.env)
        old_heap = it.snapshot()
        it.alive_pre = it.alive
        fr.ghost = {"__old_heap__": old_heap, "__old_env__": old_env}
        if con.requires is not None:
            nfr = self.cdb.contract_frame(it, con, self.cdb.fn_env(con.requires, old_env), None)
            for name, term in self.cdb.eval_clauses_fn(it, con.requires, nfr):
                it.assume(term)
        if first:
            r = it.check(z3.BoolVal(True))
            rep.canary = r
            if r == "unsat":
                raise Unsupported("vacuous contract: requires is unsatisfiable")
        # raise conditions and modifies are evaluated in the pre-state
        raise_clauses = []
        if con.raises is not None:
            nfr = self.cdb.contract_frame(it, con, self.cdb.fn_env(con.raises, old_env), None)
            raise_clauses = self.cdb.raise_clauses(it, con, nfr)
        mods = self.cdb.modifies_list(it, con, old_env, fr) if con.modifies is not None else []
        outcome = None
        result = NONE
        try:
            try:
                if fi.is_generator:
                    it.init_generator_frame(fi, fr, con)
                it.exec_block(fi.node.body, fr)
                if fi.is_generator:
                    result = fr.env["_yielded"]
            except ReturnSig as r:
                result = fr.env["_yielded"] if fi.is_generator else r.val
            except (BreakSig, ContinueSig):
                raise Unsupported("break/continue outside loop")
            outcome = "return"
        except RaiseSig as rs:
            outcome = rs.exc
        kindp = "property" if con.props else "supporting"
        if outcome == "return":
            rep.exits["return"] += 1
            for exc_name, cond in raise_clauses:
                it.oblige(f"must-raise:{exc_name}", z3.Not(cond), kindp, site=("mustraise", exc_name))
            if con.ensures is not None:
                e2 = dict(old_env)
                try:
                    rty = self.cdb.return_type(it, con, fi)
                except Unsupported:
                    rty = None
                from .tys import TOpt as _TOpt
                from .builtins import is_none as _is_none
                if (isinstance(result, (PyList, PyTuple)) or (_is_none(result) and isinstance(rty, _TOpt)) or (isinstance(result, SV) and isinstance(rty, _TOpt) and result.ty != rty)) and rty is not None and rty is not TNone:
                    try:
                        result = it.coerce(result, rty)
                    except Unsupported:
                        pass
                e2["result"] = result
                if con.fresh_result and isinstance(result, SV) and isinstance(result.ty, TObj):
                    it.oblige("ensures:result_is_a_new_object", z3.Not(z3.Select(it.alive_pre, result.term)), "supporting", site=("ens", "fresh_result"))
                nfr = self.cdb.contract_frame(it, con, self.cdb.fn_env(con.ensures, e2), None, old_heap=old_heap, old_env=old_env)
                for name, term in self.cdb.eval_clauses_fn(it, con.ensures, nfr):
                    if name.startswith("D_"):
                        # instance of the definition of an opaque ghost predicate (g(args) == its defining formula at
                        # these arguments): assumed here, so that the clauses stated with g can be proved; not exported
                        it.notes.add(f"opaque definition unfolded at the return point: {name} (contract {con.name})")
                        it.assume(term)
                        continue
                    if name.startswith("A_"):
                        # ghost definition ("the result is named g(args)"): nothing to prove here; callers assume it
                        it.notes.add(f"ghost definition in ensures assumed at call sites, not an obligation: {name} (contract {con.name})")
                        continue
                    kind = "property" if name.startswith("P_") else "supporting"
                    it.oblige(f"ensures:{name}", term, kind, site=("ens", name))
            self.frame_check(it, con, old_heap, mods)
        else:
            rep.exits["raise"] += 1
            exc: VExc = outcome
            matching = [c for (n, c) in raise_clauses if self.cdb.exc_name_matches(it, exc, n)]
            ename = exc.cls.rsplit(".", 1)[-1]
            if any(self.cdb.exc_name_matches(it, exc, n) for n in con.may_raise):
                it.notes.add(f"{con.name}: {ename} is allowed under a condition the contract leaves open (outside its stated domain)")
            elif matching:
                it.oblige(f"raise-licensed:{ename}", z3.Or(matching), kindp, site=("lic", ename))
            else:
                it.oblige(f"unexpected-exception:{ename}", z3.BoolVal(False), kindp, site=("unexp", ename))
            if con.raises_ensures is not None:
                nfr = self.cdb.contract_frame(it, con, self.cdb.fn_env(con.raises_ensures, old_env), None, old_heap=old_heap, old_env=old_env)
                for name, term in self.cdb.eval_clauses_fn(it, con.raises_ensures, nfr):
                    kind = "property" if name.startswith("P_") else "supporting"
                    it.oblige(f"raises_ensures:{name}", term, kind, site=("rens", name))

    def frame_check(self, it, con, old_heap, mods):
        if con.modifies is None:
            return  # no frame claimed
        for key, cur in it.heap.items():
            old = old_heap.get(key)
            if key[0] == "__alive__" or old is None or cur.eq(old):
                continue
            owner, f = key
            allowed = [o for (o, ow, ff) in mods if ow == owner and ff == f]
            if any(o is None for o in allowed):
                continue
            r = z3.Const("fr_r", Ref)
            cond = z3.And([z3.Select(it.alive_pre, r)] + [r != o for o in allowed])
            it.oblige(f"frame:{owner.rsplit('.', 1)[-1]}.{f}", z3.ForAll([r], z3.Implies(cond, z3.Select(cur, r) == z3.Select(old, r))), "supporting", site=("frame", owner, f))


def load_contracts(world: World, files: list[str]) -> ContractDB:
    cdb = ContractDB(world)
    for f in files:
        cdb.load_file(f)
    return cdb


def verify_targets(files: list[str], targets: Optional[list[str]], tier: str, src_root: Optional[str] = None, jobs: int = 1):
    world = load_world(src_root)
    cdb = load_contracts(world, files)
    v = Verifier(world, cdb, tier)
    tg = targets or list(cdb.all_contracts.keys())
    return [v.verify(t) for t in tg], world, cdb
