"""Loops: cut at invariants (init / preservation / use), or unrolled when the iterable is concrete."""
from __future__ import annotations

import ast

import z3

from .evalx import _POISON
from .interp import BreakSig, ContinueSig, Frame, PathAbort, RaiseSig, ReturnSig, Unsupported
from .tys import (NONE, SV, PyList, PyTuple, TBool, TDict, TInt, TNone, TObj, TOpt, TSeq, TSet, TStr, VGen, VRange)


class _Assigned(ast.NodeVisitor):
    """Names assigned and attribute names stored/mutated in a block (syntactic over-approximation)."""

    MUTATORS = {"append", "extend", "pop", "remove", "insert", "add", "update", "setdefault", "clear", "discard", "sort"}

    def __init__(self):
        self.names: set[str] = set()
        self.fields: set[str] = set()
        self.calls: list[ast.Call] = []
        self.recv: dict[str, set] = {}   # field -> receiver local names (None: not a plain local)
        self.recv_expr: dict[str, list] = {}   # field -> receiver expressions of its stores
        self.direct: set[str] = set()    # names rebound or mutated directly (not only through a field of theirs)

    def _field(self, attr_node):
        self.fields.add(attr_node.attr)
        r = attr_node.value.id if isinstance(attr_node.value, ast.Name) else None
        self.recv.setdefault(attr_node.attr, set()).add(r)
        self.recv_expr.setdefault(attr_node.attr, []).append(attr_node.value)

    def _target(self, t):
        if isinstance(t, ast.Name):
            self.names.add(t.id)
            self.direct.add(t.id)
        elif isinstance(t, (ast.Tuple, ast.List)):
            for e in t.elts:
                self._target(e)
        elif isinstance(t, ast.Starred):
            self._target(t.value)
        elif isinstance(t, ast.Attribute):
            self._field(t)
        elif isinstance(t, ast.Subscript):
            self._root(t.value)

    def _root(self, e, via_field=False):
        # x.f[k] = v / x[k] = v : mutation of container rooted at a name or a field
        if isinstance(e, ast.Name):
            self.names.add(e.id)
            if not via_field:
                self.direct.add(e.id)
        elif isinstance(e, ast.Attribute):
            self._field(e)
            self._root(e.value, True)
        elif isinstance(e, ast.Subscript):
            self._root(e.value, via_field)

    def visit_Assign(self, n):
        for t in n.targets:
            self._target(t)
        self.generic_visit(n)

    def visit_AugAssign(self, n):
        self._target(n.target)
        self._root(n.target)
        self.generic_visit(n)

    def visit_AnnAssign(self, n):
        self._target(n.target)
        self.generic_visit(n)

    def visit_NamedExpr(self, n):
        self.names.add(n.target.id)
        self.direct.add(n.target.id)
        self.generic_visit(n)

    def visit_For(self, n):
        self._target(n.target)
        self.generic_visit(n)

    def visit_Delete(self, n):
        for t in n.targets:
            if isinstance(t, ast.Subscript):
                self._root(t.value)
        self.generic_visit(n)

    def visit_Call(self, n):
        self.calls.append(n)
        if isinstance(n.func, ast.Attribute) and n.func.attr in self.MUTATORS:
            self._root(n.func.value)
        self.generic_visit(n)

    def visit_Yield(self, n):
        self.names.add("_yielded")
        self.direct.add("_yielded")
        self.generic_visit(n)

    def visit_YieldFrom(self, n):
        self.names.add("_yielded")
        self.direct.add("_yielded")
        self.generic_visit(n)

    def visit_MatchAs(self, n):
        if n.name:
            self.names.add(n.name)
            self.direct.add(n.name)
        self.generic_visit(n)

    def visit_comprehension(self, n):
        # comprehension targets are local to the comprehension
        self.visit(n.iter)
        for i in n.ifs:
            self.visit(i)


def assigned_in(stmts):
    a = _Assigned()
    for s in stmts:
        a.visit(s)
    return a


class Loops:
    def __init__(self, cdb):
        self.cdb = cdb

    def _invariant(self, it, fr, ordinal):
        con = fr.contract
        if con is None:
            return None
        cands = con.loops.get(ordinal)
        if not cands:
            return None
        for inv in cands:
            names = [a.arg for a in inv.args.args if a.arg != "old"]
            if all(n in fr.env or n in fr.ghost or n.startswith("_i") or n.startswith("_seq") or n.startswith("_done") for n in names):
                return inv
        return cands[0]

    # ------------------------------------------------------------------ for
    def for_loop(self, it, st: ast.For, fr: Frame):
        fr.loop_ord += 1
        ordinal = fr.loop_ord
        src = it.force(it.eval(st.iter, fr), fr)
        inv = self._invariant(it, fr, ordinal)
        if inv is None:
            if isinstance(src, (PyList, PyTuple)):
                return self.unrolled(it, st, fr, src.items)
            if isinstance(src, VGen) and src.kind == "setlit":
                return self.unrolled(it, st, fr, src.items)
            raise Unsupported(f"loop #{ordinal} at line {st.lineno} of {fr.fi.qname if fr.fi else '?'} needs an invariant")
        return self.cut_for(it, st, fr, src, inv, ordinal)

    def unrolled(self, it, st, fr, items):
        broke = False
        for x in items:
            it.assign(st.target, x, fr)
            try:
                it.exec_block(st.body, fr)
            except BreakSig:
                broke = True
                break
            except ContinueSig:
                continue
        if not broke:
            it.exec_block(st.orelse, fr)

    def cut_for(self, it, st, fr, src, inv, ordinal):
        # view the iterable as (length, element-at)
        if isinstance(src, VRange):
            step = z3.simplify(src.step)
            if not (z3.is_int_value(step) and step.as_long() == 1):
                raise Unsupported("for over range with step")
            n = z3.If(src.stop > src.start, src.stop - src.start, z3.IntVal(0))

            def elem_at(i):
                return SV(TInt, src.start + i)
        elif isinstance(src, VGen) and src.kind == "dictitems":
            keys = it.iter_to_seq(VGen("dictkeys", d=src.d), fr)
            d = src.d
            n = z3.Length(keys.term)
            fr.ghost_iter = keys

            def elem_at(i):
                k = SV(d.ty.k, keys.term[i])
                return PyTuple([k, it.assume_wf(SV(d.ty.v, z3.Select(d.ty.val(d.term), k.term)))])
        elif isinstance(src, VGen) and src.kind == "enumerate":
            base = it.iter_to_seq(src.src, fr)
            n = z3.Length(base.term)
            st0 = it.coerce(src.start, TInt).term if src.start is not None else z3.IntVal(0)

            def elem_at(i):
                return PyTuple([SV(TInt, i + st0), it.assume_wf(SV(base.ty.elem, base.term[i]))])
        else:
            base = it.iter_to_seq(src, fr)
            n = z3.Length(base.term)

            def elem_at(i):
                return it.assume_wf(SV(base.ty.elem, base.term[i]))
        cursor = f"_i{ordinal}"
        seqname = f"_seq{ordinal}"
        a = assigned_in(st.body + [ast.Assign(targets=[st.target], value=ast.Constant(None))])
        if not isinstance(src, (VRange,)) and not (isinstance(src, VGen) and src.kind in ("dictitems", "enumerate")):
            fr.env[seqname] = base
        elif isinstance(src, VGen) and src.kind == "dictitems":
            fr.env[seqname] = keys
        # ghost: the set of keys already processed, for iteration over a dict (`_done<ordinal>` in invariants).
        # Only consequences of its definition {keys[m] | m < cursor} are supplied (keys are distinct and
        # cover the domain): it is a subset of the domain, does not hold the current key, is the whole
        # domain at exit; it starts empty and gains the current key at the end of the body.
        donename = f"_done{ordinal}"
        dict_iter = isinstance(src, VGen) and src.kind == "dictitems"
        if dict_iter:
            kt = src.d.ty.k
            dset_ty = TSet(kt)
            dom = src.d.ty.dom(src.d.term)
            fr.env[donename] = SV(dset_ty, z3.K(kt.sort(), z3.BoolVal(False)))
        # init
        fr.env[cursor] = SV(TInt, z3.IntVal(0))
        self.check_inv(it, fr, inv, "init", ordinal, st.lineno)
        # havoc
        self.havoc(it, fr, a, st.body)
        i = it.fresh(cursor, z3.IntSort())
        it.assume(z3.And(i >= 0, i <= n))
        fr.env[cursor] = SV(TInt, i)
        if dict_iter:
            D = it.fresh(donename, dset_ty.sort())
            kq = it.bound("dk", kt.sort())
            it.assume(z3.ForAll([kq], z3.Implies(z3.Select(D, kq), z3.Select(dom, kq))))
            it.assume(z3.Implies(i < n, z3.Not(z3.Select(D, keys.term[i]))))
            it.assume(z3.Implies(i >= n, D == dom))
            fr.env[donename] = SV(dset_ty, D)
            it.notes.add("loops: ghost set of processed keys for dict iteration (subset of the domain, excludes the current key, equals the domain at exit)")
        self.assume_inv(it, fr, inv)
        if it.branch(i < n, site=("for", st.lineno)):
            it.assign(st.target, elem_at(i), fr)
            try:
                it.exec_block(st.body, fr)
            except ContinueSig:
                pass
            except BreakSig:
                # leaving through break: continue after the loop (no else)
                fr.write_guards = fr.write_guards[:-1]
                return
            fr.env[cursor] = SV(TInt, i + 1)
            if dict_iter:
                fr.env[donename] = SV(dset_ty, z3.Store(D, keys.term[i], z3.BoolVal(True)))
            self.check_inv(it, fr, inv, "preserved", ordinal, st.lineno)
            raise PathAbort("loop body end")
        fr.write_guards = fr.write_guards[:-1]
        it.exec_block(st.orelse, fr)

    # ------------------------------------------------------------------ while
    def while_loop(self, it, st: ast.While, fr: Frame):
        fr.loop_ord += 1
        ordinal = fr.loop_ord
        inv = self._invariant(it, fr, ordinal)
        if inv is None:
            raise Unsupported(f"while loop #{ordinal} at line {st.lineno} needs an invariant")
        a = assigned_in(st.body)
        self.check_inv(it, fr, inv, "init", ordinal, st.lineno)
        self.havoc(it, fr, a, st.body)
        self.assume_inv(it, fr, inv)
        dec0 = self.variant(it, fr, inv)
        c = it.truthy(it.eval(st.test, fr), fr)
        if it.branch(c, site=("while", st.lineno)):
            try:
                it.exec_block(st.body, fr)
            except ContinueSig:
                pass
            except BreakSig:
                fr.write_guards = fr.write_guards[:-1]
                return
            self.check_inv(it, fr, inv, "preserved", ordinal, st.lineno)
            if dec0 is not None:
                dec1 = self.variant(it, fr, inv)
                it.oblige(f"loop{ordinal}/decreases", z3.And(dec0 >= 0, dec1 < dec0), "supporting", site=("dec", st.lineno))
            raise PathAbort("loop body end")
        fr.write_guards = fr.write_guards[:-1]
        it.exec_block(st.orelse, fr)

    # ------------------------------------------------------------------ helpers
    def inv_frame(self, it, fr: Frame, inv) -> Frame:
        con = fr.contract
        nfr = Frame(con.module, pure=True)
        nfr.contract = con
        nfr.ghost = fr.ghost
        params = [a.arg for a in inv.args.args]
        for p in params:
            if p == "old":
                continue
            if p in fr.env:
                nfr.env[p] = fr.env[p]
            elif p in fr.ghost:
                nfr.env[p] = fr.ghost[p]
            else:
                raise Unsupported(f"loop invariant parameter {p} is not a local at the loop head")
        nfr.old_heap = fr.ghost.get("__old_heap__")
        nfr.old_env = fr.ghost.get("__old_env__")
        return nfr

    def eval_inv(self, it, fr, inv, raw=False):
        nfr = self.inv_frame(it, fr, inv)
        return self.cdb.eval_clauses_fn(it, inv, nfr, raw=raw)

    def check_inv(self, it, fr, inv, phase, ordinal, lineno):
        for name, term in self.eval_inv(it, fr, inv):
            if name == "decreases":
                continue
            if name.startswith("A_") or name.startswith("D_"):
                # instance of the defining equation of a ghost function at the cursor: assumed
                it.notes.add(f"ghost definition instance assumed at loop cursor: {name}")
                it.assume(term)
                continue
            kind = "property" if name.startswith("P_") else "supporting"
            it.oblige(f"loop{ordinal}/{phase}:{name}", term, kind, site=("inv", lineno, phase, name))

    def assume_inv(self, it, fr, inv):
        facts = [term for name, term in self.eval_inv(it, fr, inv) if name != "decreases"]
        it.assume_all_checked(facts, f"the loop invariant {inv.name} of contract {fr.contract.name if fr.contract else '?'}")

    def variant(self, it, fr, inv):
        for name, term in self.eval_inv(it, fr, inv, raw=True):
            if name == "decreases":
                return term
        return None

    def havoc(self, it, fr, a, body):
        for n in sorted(a.names):
            if n in fr.env:
                v = fr.env[n]
                if n not in a.direct and isinstance(v, SV) and isinstance(v.ty, TObj):
                    # only a field of the object this local refers to is stored: the local itself is
                    # not rebound (the field is havocked below)
                    continue
                if isinstance(v, SV):
                    if v.ty is TNone:
                        raise Unsupported(f"loop-modified variable {n} is None at loop head (needs a typed value)")
                    fr.env[n] = it.assume_wf(it.fresh_sv("hv_" + n, v.ty))
                elif isinstance(v, (PyList, PyTuple)):
                    s = it.seq_of(v) if v.items else None
                    if s is None:
                        raise Unsupported(f"loop-modified empty literal list {n}: annotate its type")
                    fr.env[n] = it.fresh_sv("hv_" + n, s.ty)
                elif v is _POISON:
                    pass  # not bound at this loop head either (poisoned by an enclosing loop's havoc)
                else:
                    raise Unsupported(f"cannot havoc local {n} = {v}")
            else:
                fr.env[n] = _POISON
        fields = set(a.fields)
        call_fields = self.cdb.call_effects(it, a.calls, fr)
        fields |= call_fields
        # a field stored only through receivers whose static type is a class is havocked for the class that
        # declares it, not for every class that happens to have a field of that name; the stores executed in
        # the body are checked against this set (write guard), so the narrowing cannot hide a write
        narrow: dict = {}
        for fname in a.fields:
            exprs = a.recv_expr.get(fname, [])
            owners = set()
            ok = bool(exprs) and fname not in call_fields
            for e in exprs:
                t = self.cdb.static_type(it, e, fr) if ok else None
                if isinstance(t, TOpt):
                    t = t.inner
                o = it.field_owner(t.cls, fname) if isinstance(t, TObj) else None
                if o is None:
                    ok = False
                    break
                owners.add(o)
            narrow[fname] = owners if ok else None
        fr.write_guards = list(getattr(fr, "write_guards", [])) + [dict(narrow)]
        for fname in fields:
            for owner in it.owners_of_field(fname):
                it.heap_map(owner, fname)
        for (owner, fname) in list(it.heap.keys()):
            if fname in fields:
                if narrow.get(fname) is not None and owner not in narrow[fname]:
                    it.notes.add("loops: a field stored only through receivers of a known class is havocked for the declaring class only (stores are checked against it)")
                    continue
                ty = it.field_ty(owner, fname)
                recv = a.recv.get(fname, {None})
                objs = [fr.env.get(r) for r in recv] if (fname not in call_fields and None not in recv and not (recv & a.direct)) else []
                if objs and all(isinstance(o, SV) and isinstance(o.ty, TObj) for o in objs):
                    # every store to this field in the body goes through a local that the body does not
                    # rebind: only those objects' fields change
                    m = it.heap[(owner, fname)]
                    for o in objs:
                        m = z3.Store(m, o.term, it.fresh("hvF_" + fname, ty.sort()))
                    it.heap[(owner, fname)] = m
                    it.notes.add("loops: a field stored only through locals the body does not rebind is havocked for those objects only")
                    continue
                it.heap[(owner, fname)] = it.fresh("hvH_" + fname, z3.ArraySort(it.heap[(owner, fname)].sort().domain(), ty.sort()))
        it.notes.add("loops: locals assigned and fields stored (by name, incl. callee effects) are havocked at the head")
        if fields:
            fr.havoc_fields = getattr(fr, "havoc_fields", set()) | fields
