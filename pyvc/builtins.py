"""Models of Python builtins, container methods, comprehensions and `match`."""
from __future__ import annotations

import ast

import z3

from .interp import seq_concat, Frame, RaiseSig, Unsupported, _m, BUILTIN_EXC_BASES
from .tys import (NONE, SV, PyList, PyTuple, Ref, TAbs, TAny, TBool, TDict, TEnum, TInt, TNone, TObj, TOpt, TRec,
                  TSeq, TSet, TStr, TTuple, TUnion, Ty, VBuiltin, VClass, VExc, VFunc, VGen, VLambda, VModule,
                  VRange, VSlice)


def is_none(v):
    return isinstance(v, SV) and v.ty is TNone


class Builtins:
    def __init__(self, cdb):
        self.cdb = cdb

    # ------------------------------------------------------------------ dispatcher
    def call(self, it, fn: VBuiltin, args, kwargs, fr, node=None):
        name = fn.name
        if name.startswith("exc:"):
            return VExc(name[4:], args)
        if name.startswith("method:"):
            return self.method(it, fn.bound, name[7:], args, kwargs, fr, node)
        if name == "dcinit":
            # dataclass-generated __init__ of a base class, reached through super().__init__(...)
            q, selfv = fn.bound
            vals = self.cdb.types.bind_fields(it, q, args, kwargs, fr)
            for n, v in vals.items():
                it.write_field(selfv, n, v, fr)
            return NONE
        if name.startswith("ext:"):
            if fn.bound is not None:
                args = [fn.bound] + list(args)
            return self.cdb.externals.call(it, name[4:], args, kwargs, fr, node)
        h = getattr(self, "b_" + name.replace(".", "_"), None)
        if h is None:
            raise Unsupported(f"builtin {name}")
        return h(it, args, kwargs, fr)

    # ------------------------------------------------------------------ simple builtins
    def b_dcinit(self, it, args, kwargs, fr):
        raise Unsupported("dcinit")

    def b_len(self, it, args, kwargs, fr):
        v = it.force(args[0], fr)
        if isinstance(v, (PyList, PyTuple)):
            return SV(TInt, z3.IntVal(len(v.items)))
        if isinstance(v, SV):
            if isinstance(v.ty, TSeq) or v.ty is TStr:
                return SV(TInt, z3.Length(v.term))
            if isinstance(v.ty, TDict):
                return SV(TInt, it.dict_len(v))
            if isinstance(v.ty, TSet):
                return SV(TInt, it.set_card(v))
            if isinstance(v.ty, (TObj, TRec)):
                return it.call_method(v, "__len__", [], {}, fr)
            if isinstance(v.ty, TTuple):
                return SV(TInt, z3.IntVal(len(v.ty.elems)))
        if isinstance(v, VGen) and v.kind in ("emptydict", "emptyset"):
            return SV(TInt, z3.IntVal(0))
        raise Unsupported(f"len of {v}")

    def b_range(self, it, args, kwargs, fr):
        xs = [it.coerce(it.force(a, fr), TInt).term for a in args]
        if len(xs) == 1:
            return VRange(z3.IntVal(0), xs[0], z3.IntVal(1))
        if len(xs) == 2:
            return VRange(xs[0], xs[1], z3.IntVal(1))
        if not fr.pure and it.branch(xs[2] == 0):
            it.raise_exc("ValueError")
        return VRange(xs[0], xs[1], xs[2])

    def b_min(self, it, args, kwargs, fr):
        if len(args) == 2:
            a, b = [it.coerce(it.force(x, fr), TInt).term for x in args]
            return SV(TInt, z3.If(a <= b, a, b))
        raise Unsupported("min arity")

    def b_max(self, it, args, kwargs, fr):
        if len(args) == 2:
            a, b = [it.coerce(it.force(x, fr), TInt).term for x in args]
            return SV(TInt, z3.If(a >= b, a, b))
        raise Unsupported("max arity")

    def b_abs(self, it, args, kwargs, fr):
        a = it.coerce(it.force(args[0], fr), TInt).term
        return SV(TInt, z3.If(a >= 0, a, -a))

    def b_cast(self, it, args, kwargs, fr):
        return args[1]

    def b_id(self, it, args, kwargs, fr):
        return args[0]

    def b_bool(self, it, args, kwargs, fr):
        if not args:
            return SV(TBool, z3.BoolVal(False))
        return SV(TBool, it.truthy(args[0], fr))

    def b_int(self, it, args, kwargs, fr):
        v = it.force(args[0], fr)
        if isinstance(v, SV) and v.ty in (TInt, TBool):
            return it.coerce(v, TInt)
        if isinstance(v, SV) and v.ty is TStr:
            return self.cdb.externals.str_to_int(it, v, fr)
        raise Unsupported(f"int() of {v}")

    def b_str(self, it, args, kwargs, fr):
        if not args:
            return SV(TStr, z3.StringVal(""))
        v = it.force(args[0], fr)
        if isinstance(v, SV):
            if v.ty is TStr:
                return v
            if v.ty is TBool:
                return SV(TStr, z3.If(v.term, z3.StringVal("True"), z3.StringVal("False")))
            if v.ty is TInt:
                return SV(TStr, z3.If(v.term >= 0, z3.IntToStr(v.term), seq_concat(z3.StringVal("-"), z3.IntToStr(-v.term))))
            if isinstance(v.ty, (TObj, TRec)):
                m = it.w.find_method(v.ty.cls, "__str__") or it.w.find_method(v.ty.cls, "__repr__")
                if m is not None:
                    con = self.cdb.contract_for(m, v.ty.cls)
                    if con is not None:
                        return it.call_function(m, [v], {}, fr, recv_cls=v.ty.cls)
                f = z3.Function("str_of_obj", v.ty.sort(), z3.StringSort())
                return SV(TStr, f(v.term))
        f = None
        raise Unsupported(f"str() of {v}")

    def b_repr(self, it, args, kwargs, fr):
        return SV(TStr, it.fresh("repr", z3.StringSort()))

    def b_isinstance(self, it, args, kwargs, fr):
        v, c = args
        return SV(TBool, self.isinstance_cond(it, v, c, fr))

    def isinstance_cond(self, it, v, c, fr):
        if isinstance(c, PyTuple):
            return z3.Or([self.isinstance_cond(it, v, x, fr) for x in c.items])
        if isinstance(v, SV) and isinstance(v.ty, TOpt):
            inner = SV(v.ty.inner, v.ty.val(v.term))
            return z3.And(z3.Not(v.ty.is_none(v.term)), self.isinstance_cond(it, inner, c, fr))
        if isinstance(v, SV) and isinstance(v.ty, TUnion):
            return z3.Or([z3.And(v.ty.is_alt(i, v.term), z3.BoolVal(False) if a is TNone else self.isinstance_cond(it, SV(a, v.ty.proj(i, v.term)), c, fr))
                          for i, a in enumerate(v.ty.alts)])
        if isinstance(c, VBuiltin):
            n = c.name
            if is_none(v):
                return z3.BoolVal(False)
            if isinstance(v, PyList):
                return z3.BoolVal(n == "list")
            if isinstance(v, PyTuple):
                return z3.BoolVal(n == "tuple")
            t = v.ty
            if n == "int":
                return z3.BoolVal(t in (TInt, TBool))
            if n == "bool":
                return z3.BoolVal(t is TBool)
            if n == "str":
                return z3.BoolVal(t is TStr)
            if n == "float":
                return z3.BoolVal(isinstance(t, TAbs) and t.nm == "float")
            if n == "list":
                return z3.BoolVal(isinstance(t, TSeq) and not t.tuple_ and not t.bytes_)
            if n == "tuple":
                return z3.BoolVal(isinstance(t, TTuple) or (isinstance(t, TSeq) and t.tuple_))
            if n == "dict":
                return z3.BoolVal(isinstance(t, TDict))
            if n == "slice":
                return z3.BoolVal(False)
            raise Unsupported(f"isinstance against {n}")
        if isinstance(c, VClass):
            if isinstance(v, VSlice) or not isinstance(v, SV):
                return z3.BoolVal(False)
            t = v.ty
            if isinstance(t, TRec):
                return z3.BoolVal(it.w.is_subclass(t.cls, c.ci.qname) or self.structural_protocol(it, t.cls, c.ci))
            if isinstance(t, TEnum):
                return z3.BoolVal(t.cls == c.ci.qname)
            if isinstance(t, TObj):
                if c.ci.is_protocol:
                    subs = [s for s in it.w.subclasses(t.cls) if not it.w.get_class(s).is_protocol]
                    ok = [s for s in subs if it.w.is_subclass(s, c.ci.qname) or self.structural_protocol(it, s, c.ci)]
                else:
                    subs = it.w.subclasses(t.cls)
                    ok = [s for s in subs if it.w.is_subclass(s, c.ci.qname)]
                if t.exact:
                    return z3.BoolVal(t.cls in ok)
                if len(ok) == len(subs):
                    return z3.BoolVal(True)
                if not ok:
                    return z3.BoolVal(False)
                return z3.Or([it.cls_of(v.term) == it.cls_id(s) for s in ok])
            return z3.BoolVal(False)
        raise Unsupported(f"isinstance against {c}")

    def structural_protocol(self, it, cls: str, proto) -> bool:
        """runtime_checkable Protocol isinstance: all protocol members present."""
        if not proto.runtime_checkable:
            return False
        members = set()
        for q in it.w.mro(proto.qname):
            c = it.w.get_class(q)
            if c is None or not c.is_protocol:
                continue
            members |= set(c.methods.keys())
            members |= {f.name for f in c.fields}
        members -= {"__init__", "__repr__", "__str__", "__eq__", "__hash__", "__subclasshook__", "__class_getitem__"}
        for mname in members:
            if it.w.find_method(cls, mname) is None and it.w.find_field(cls, mname) is None:
                found = False
                for q in it.w.mro(cls):
                    c = it.w.get_class(q)
                    if c is not None and mname in c.class_attrs:
                        found = True
                if not found:
                    return False
        return True

    def b_replace(self, it, args, kwargs, fr):
        obj = it.force(args[0], fr)
        if isinstance(obj, SV) and isinstance(obj.ty, TRec):
            ty = obj.ty
            terms = []
            for n, t in ty.fields:
                if n in kwargs:
                    terms.append(it.coerce(kwargs[n], t).term)
                else:
                    terms.append(ty.get(obj.term, n))
            return SV(ty, ty.mk(*terms))
        if isinstance(obj, SV) and isinstance(obj.ty, TObj):
            cls = it.dyn_exact_class(obj, fr)
            vals = {}
            for f in it.w.all_fields(cls):
                vals[f.name] = kwargs[f.name] if f.name in kwargs else it.read_field(SV(TObj(cls, True), obj.term), f.name, fr)
            ci = it.w.get_class(cls)
            return it.instantiate(ci, [], {k: v for k, v in vals.items() if it.w.find_field(cls, k).init}, fr)
        raise Unsupported(f"dataclasses.replace on {obj}")

    def b_list(self, it, args, kwargs, fr):
        if not args:
            return PyList([])
        v = it.force(args[0], fr)
        if is_none(v):
            it.raise_exc("TypeError")
        if isinstance(v, (PyList, PyTuple)):
            return PyList(list(v.items))
        s = it.iter_to_seq(v, fr)
        return SV(TSeq(s.ty.elem), s.term)

    def b_dict_fromkeys(self, it, args, kwargs, fr):
        """dict.fromkeys(seq) used for order-preserving de-duplication: represented by its key sequence
        (iteration, len, `in` and list() of the dict are those of the key sequence).  r = first
        occurrences of seq, in order: a strictly increasing position function, no duplicates, same members."""
        if len(args) != 1:
            raise Unsupported("dict.fromkeys with a value")
        s = it.iter_to_seq(it.force(args[0], fr), fr)
        r = it.fresh("dedup", s.term.sort())
        pos = z3.Function(f"dedup_pos!{next(it.counter)}", z3.IntSort(), z3.IntSort())
        k, k2, j = it.bound("dk", z3.IntSort()), it.bound("dk2", z3.IntSort()), it.bound("dj", z3.IntSort())
        n, m = z3.Length(s.term), z3.Length(r)
        it.assume(z3.And(m >= 0, m <= n))
        it.assume(z3.ForAll([k], z3.Implies(z3.And(k >= 0, k < m), z3.And(pos(k) >= 0, pos(k) < n, r[k] == s.term[pos(k)]))))
        it.assume(z3.ForAll([k, k2], z3.Implies(z3.And(k >= 0, k < k2, k2 < m), z3.And(pos(k) < pos(k2), r[k] != r[k2]))))
        it.assume(z3.ForAll([k, j], z3.Implies(z3.And(k >= 0, k < m, j >= 0, j < pos(k)), s.term[j] != r[k])))
        it.assume(z3.ForAll([j], z3.Implies(z3.And(j >= 0, j < n), z3.Exists([k], z3.And(k >= 0, k < m, pos(k) <= j, r[k] == s.term[j])))))
        # the same membership fact per part of a concatenation (clean triggers: nth over a concatenation is
        # rewritten by the solver and does not serve as a pattern)
        def parts(t):
            if z3.is_app_of(t, z3.Z3_OP_SEQ_CONCAT):
                for c in t.children():
                    yield from parts(c)
            else:
                yield t
        ps = list(parts(s.term))
        if len(ps) > 1:
            for pt in ps:
                if z3.is_app_of(pt, z3.Z3_OP_SEQ_UNIT):
                    it.assume(z3.Exists([k], z3.And(k >= 0, k < m, r[k] == pt.arg(0))))
                else:
                    it.assume(z3.ForAll([j], z3.Implies(z3.And(j >= 0, j < z3.Length(pt)), z3.Exists([k], z3.And(k >= 0, k < m, r[k] == pt[j])))))
        it.notes.add("dict.fromkeys(seq) is represented by its key sequence (first occurrences in order)")
        return SV(TSeq(s.ty.elem), r)

    def b_tuple(self, it, args, kwargs, fr):
        if not args:
            return PyTuple([])
        v = it.force(args[0], fr)
        if isinstance(v, (PyList, PyTuple)):
            return PyTuple(v.items)
        s = it.iter_to_seq(v, fr)
        return SV(TSeq(s.ty.elem, tuple_=True), s.term)

    def b_bytes(self, it, args, kwargs, fr):
        v = it.force(args[0], fr)
        if isinstance(v, SV) and isinstance(v.ty, TSeq) and v.ty.bytes_:
            return v
        if isinstance(v, SV) and isinstance(v.ty, (TObj, TRec)):
            return it.call_method(v, "__bytes__", [], {}, fr)
        raise Unsupported(f"bytes() of {v}")

    b_bytearray = b_bytes

    def b_dict(self, it, args, kwargs, fr):
        if not args:
            return VGen("emptydict")
        v = it.force(args[0], fr)
        if isinstance(v, VGen) and v.kind == "emptydict":
            return v
        if isinstance(v, SV) and isinstance(v.ty, TDict):
            if v.ty.default_list:
                return SV(TDict(v.ty.k, v.ty.v, v.ty.ordered), v.term)
            return SV(v.ty, v.term)  # a copy: value semantics
        return self.cdb.externals.dict_from_pairs(it, v, fr)

    def b_objnew(self, it, args, kwargs, fr):
        """object.__new__(cls): a fresh object of that class, no field initialised (fields read before being written are
        unconstrained).  In a classmethod verified for its defining class `cls` is that class."""
        if len(args) != 1 or not isinstance(args[0], VClass):
            raise Unsupported("__new__ shape")
        it.notes.add("cls.__new__(cls): fresh uninitialised instance; in a classmethod the class is the one the method is verified for")
        v = it.alloc(args[0].ci.qname)
        return SV(TObj(args[0].ci.qname, exact=False), v.term)

    def b_Counter(self, it, args, kwargs, fr):
        """collections.Counter(seq) as an uninterpreted function of the sequence (assumed library function):
        a dict from element to int; nothing else is known about it."""
        if len(args) != 1 or kwargs:
            raise Unsupported("Counter() shape")
        v = it.force(args[0], fr) if not fr.pure else args[0]
        if isinstance(v, (PyList, PyTuple)):
            v = it.seq_of(v)
        if not (isinstance(v, SV) and isinstance(v.ty, TSeq)):
            raise Unsupported("Counter() of a non-sequence")
        rt = TDict(v.ty.elem, TInt)
        f = z3.Function("counter_of_" + str(v.ty.elem.sort()).replace(" ", "_"), v.ty.sort(), rt.sort())
        it.notes.add("collections.Counter: uninterpreted function of the sequence (assumed library function)")
        return SV(rt, f(v.term))

    def b_defaultdict(self, it, args, kwargs, fr):
        if len(args) == 1 and isinstance(args[0], VBuiltin) and args[0].name == "list":
            return VGen("emptydefaultdict")
        raise Unsupported("defaultdict with a factory other than list")

    def b_set(self, it, args, kwargs, fr):
        if not args:
            return VGen("emptyset")
        v = args[0]
        if isinstance(v, PyList) and not v.items:
            return VGen("emptyset")
        if isinstance(v, VGen) and v.kind == "dictvalues":
            d = v.d
            ty = TSet(d.ty.v)
            x = it.bound("sv", d.ty.v.sort())
            k = it.bound("sk", d.ty.k.sort())
            img = z3.Lambda([x], z3.Exists([k], z3.And(z3.Select(d.ty.dom(d.term), k), z3.Select(d.ty.val(d.term), k) == x)))
            s = SV(ty, img)
            # pigeonhole: |dom d| = |image d|  <=>  d injective   (Finset.card_image_iff; Lean-checked, thorough tier)
            it.notes.add("lemma card_image (|dom m| = |image m| <=> m injective) assumed by the prover; checked in Lean (thorough tier)")
            k1, k2 = it.bound("pk1", d.ty.k.sort()), it.bound("pk2", d.ty.k.sort())
            dom, val = d.ty.dom(d.term), d.ty.val(d.term)
            inj = z3.ForAll([k1, k2], z3.Implies(z3.And(z3.Select(dom, k1), z3.Select(dom, k2), z3.Select(val, k1) == z3.Select(val, k2)), k1 == k2))
            it.assume((it.dict_len(d) == it.set_card(s)) == inj)
            return s
        v = it.force(v, fr)
        if isinstance(v, SV) and isinstance(v.ty, TSet):
            return v
        if isinstance(v, (PyList, PyTuple)):
            if not v.items:
                return VGen("emptyset")
            v = it.seq_of(v)
        if isinstance(v, SV) and isinstance(v.ty, TSeq):
            x = it.bound("sx", v.ty.elem.sort())
            return SV(TSet(v.ty.elem), z3.Lambda([x], z3.Contains(v.term, z3.Unit(x))))
        raise Unsupported(f"set() of {v}")

    def b_iter(self, it, args, kwargs, fr):
        v = it.force(args[0], fr)
        if isinstance(v, SV) and isinstance(v.ty, TDict):
            return VGen("dictkeys", d=v)
        if isinstance(v, VGen):
            return v
        s = it.iter_to_seq(v, fr)
        return VGen("seqiter", seq=s, pos=z3.IntVal(0))

    def next_filtered(self, it, g, args, fr):
        """next(e(x) for x in src if P(x)) : e at the first position satisfying P, StopIteration if none."""
        node, gfr = g.node, g.frame
        gen = node.generators[0]
        srcv = it.force(it.eval(gen.iter, gfr), gfr)
        if isinstance(srcv, VGen) and srcv.kind == "enumerate":
            base = it.iter_to_seq(srcv.src, gfr)
            n = z3.Length(base.term)

            def elem_at(i):
                return PyTuple([SV(TInt, i), it.assume_wf(SV(base.ty.elem, base.term[i]))])
        else:
            base = it.iter_to_seq(srcv, gfr)
            n = z3.Length(base.term)

            def elem_at(i):
                return it.assume_wf(SV(base.ty.elem, base.term[i]))

        def pred_and_elt(i):
            nfr = self._child_frame(gfr, pure=True)
            it.assign(gen.target, elem_at(i), nfr)
            c = z3.And([it.truthy(it.eval(cnd, nfr), nfr) for cnd in gen.ifs])
            return c, nfr
        j = it.bound("nfj", z3.IntSort())
        cj, _ = pred_and_elt(j)
        some = z3.Exists([j], z3.And(j >= 0, j < n, cj))
        if not it.branch(some):
            if len(args) > 1:
                return args[1]
            it.raise_exc("StopIteration")
        k = it.fresh("first", z3.IntSort())
        ck, nfrk = pred_and_elt(k)
        it.assume(z3.And(k >= 0, k < n, ck))
        it.assume(z3.ForAll([j], z3.Implies(z3.And(j >= 0, j < k), z3.Not(cj))))
        return it.eval(node.elt, nfrk)

    def b_next(self, it, args, kwargs, fr):
        g = args[0]
        if isinstance(g, VGen) and g.kind == "genexp" and len(g.node.generators) == 1 and g.node.generators[0].ifs and not g.consumed:
            g.consumed = True
            return self.next_filtered(it, g, args, fr)
        if isinstance(g, VGen) and g.kind == "seqiter":
            ln = z3.Length(g.seq.term)
            if not it.branch(g.pos < ln):
                if len(args) > 1:
                    return args[1]
                it.raise_exc("StopIteration")
            v = SV(g.seq.ty.elem, g.seq.term[g.pos])
            g.pos = g.pos + 1
            return it.assume_wf(v)
        if isinstance(g, VGen):
            s = it.iter_to_seq(g, fr)
            ng = VGen("seqiter", seq=s, pos=z3.IntVal(0))
            g.kind = "seqiter"
            g.seq = s
            g.pos = z3.IntVal(0)
            return self.b_next(it, [g] + list(args[1:]), kwargs, fr)
        raise Unsupported(f"next of {g}")

    def b_enumerate(self, it, args, kwargs, fr):
        return VGen("enumerate", src=args[0], start=(args[1] if len(args) > 1 else kwargs.get("start")))

    def b_zip(self, it, args, kwargs, fr):
        return VGen("zip", srcs=list(args), strict=kwargs.get("strict"))

    def b_map(self, it, args, kwargs, fr):
        if len(args) != 2:
            raise Unsupported("map with several iterables")
        return VGen("map", fn=args[0], src=args[1], frame=fr)

    def b_super(self, it, args, kwargs, fr):
        if args:
            raise Unsupported("super with arguments")
        return VBuiltin("superobj", bound=(fr.cls, fr.env.get("self")))

    def b_type(self, it, args, kwargs, fr):
        v = it.force(args[0], fr)
        if isinstance(v, SV) and isinstance(v.ty, (TObj, TRec)):
            cls = it.dyn_exact_class(v, fr) if isinstance(v.ty, TObj) else v.ty.cls
            return VClass(it.w.get_class(cls))
        raise Unsupported("type()")

    def b_all(self, it, args, kwargs, fr):
        return self.quant(it, args[0], fr, True)

    def b_any(self, it, args, kwargs, fr):
        return self.quant(it, args[0], fr, False)

    def quant(self, it, src, fr, universal):
        if isinstance(src, VGen) and src.kind == "genexp":
            s = self.list_comp(it, src.node, src.frame, want_bool=True)
        else:
            s = it.iter_to_seq(src, fr)
        i = it.bound("qi", z3.IntSort())
        e = it.truthy(SV(s.ty.elem, s.term[i]), fr)
        rng = z3.And(i >= 0, i < z3.Length(s.term))
        if universal:
            return SV(TBool, z3.ForAll([i], z3.Implies(rng, e)))
        return SV(TBool, z3.Exists([i], z3.And(rng, e)))

    def b_sum(self, it, args, kwargs, fr):
        raise Unsupported("sum()")

    def b_print(self, it, args, kwargs, fr):
        return NONE

    def b_field(self, it, args, kwargs, fr):
        raise Unsupported("dataclasses.field at run time")

    def b_slice(self, it, args, kwargs, fr):
        a = list(args) + [NONE] * (3 - len(args))
        if len(args) == 1:
            return VSlice(NONE, a[0], NONE)
        return VSlice(a[0], a[1], a[2])

    # ------------------------------------------------------------------ container methods
    def method(self, it, recv, name, args, kwargs, fr, node=None):
        recv = it.force(recv, fr)
        if isinstance(recv, SV):
            t = recv.ty
            if isinstance(t, TDict):
                return self.dict_method(it, recv, name, args, kwargs, fr, node)
            if isinstance(t, TSeq):
                return self.seq_method(it, recv, name, args, kwargs, fr, node)
            if t is TStr:
                if name == "match" and len(args) == 1:
                    # a compiled pattern is carried as its source string (str has no method `match`):
                    # PATTERN.match(s) is re.match(PATTERN, s)
                    return self.cdb.externals.x_re_match(it, [recv, args[0]], kwargs, fr)
                return self.cdb.externals.str_method(it, recv, name, args, kwargs, fr)
            if isinstance(t, TSet):
                return self.set_method(it, recv, name, args, kwargs, fr, node)
        if isinstance(recv, VGen) and recv.kind == "rematch":
            if name == "groups":
                return PyTuple(recv.groups)
            if name == "group":
                i = z3.simplify(args[0].term).as_long()
                return recv.groups[i - 1]
        if isinstance(recv, VGen) and recv.kind == "emptydict":
            if name in ("items", "keys", "values"):
                return PyList([])
            if name == "get":
                return args[1] if len(args) > 1 else NONE
            if name == "copy":
                return recv
        if isinstance(recv, (PyList, PyTuple)):
            if name in ("append", "extend", "pop", "remove", "insert", "index", "count", "copy"):
                return self.seq_method(it, it.seq_of(recv), name, args, kwargs, fr, node)
        raise Unsupported(f"method {name} on {recv}")

    def writeback(self, it, node, new, fr):
        """Store the updated container back into the receiver expression of a mutating call."""
        if node is None or not isinstance(node.func, ast.Attribute):
            raise Unsupported("mutating call without receiver expression")
        tgt = node.func.value
        if isinstance(tgt, (ast.Name, ast.Attribute, ast.Subscript)):
            it.assign(tgt, new, fr, None, mutate=True)
        else:
            raise Unsupported("mutating call on a temporary")

    def dict_method(self, it, d, name, args, kwargs, fr, node):
        t = d.ty
        if args and name in ("get", "pop", "setdefault") and not isinstance(t.k, TOpt) and not fr.pure:
            args = [it.force(args[0], fr)] + list(args[1:])
        if name == "get":
            k = it.key_of(args[0], t.k)
            present = z3.Select(t.dom(d.term), k)
            val = z3.Select(t.val(d.term), k)
            if len(args) > 1 and not is_none(args[1]):
                dflt = it.coerce(args[1], t.v)
                return it.assume_wf(SV(t.v, z3.If(present, val, dflt.term)))
            if isinstance(t.v, TOpt):
                return SV(t.v, z3.If(present, val, t.v.none()))
            ot = TOpt(t.v)
            return SV(ot, z3.If(present, ot.some(val), ot.none()))
        if name == "items":
            return VGen("dictitems", d=d)
        if name == "keys":
            return VGen("dictkeys", d=d)
        if name == "values":
            return VGen("dictvalues", d=d)
        if name == "copy":
            return SV(t, d.term)
        if name == "pop":
            k = it.key_of(args[0], t.k)
            present = z3.Select(t.dom(d.term), k)
            if not it.branch(present):
                if len(args) > 1:
                    return args[1]
                it.raise_exc("KeyError", args[0])
            v = SV(t.v, z3.Select(t.val(d.term), k))
            self.writeback(it, node, it.dict_del(d, args[0]), fr)
            return it.assume_wf(v)
        if name == "setdefault":
            k = it.key_of(args[0], t.k)
            present = z3.Select(t.dom(d.term), k)
            if it.branch(present):
                return it.assume_wf(SV(t.v, z3.Select(t.val(d.term), k)))
            dflt = it.coerce(args[1], t.v) if len(args) > 1 else NONE      # the default takes the dict's value type ([] -> empty list of it)
            self.writeback(it, node, it.dict_store(d, args[0], dflt), fr)
            return dflt
        raise Unsupported(f"dict method {name}")

    def seq_method(self, it, s, name, args, kwargs, fr, node):
        t = s.ty
        if name == "append":
            e = it.coerce(args[0], t.elem).term
            self.writeback(it, node, it.seq_append(s, e), fr)
            return NONE
        if name == "extend":
            o = it.coerce(it.iter_to_seq(args[0], fr), t)
            self.writeback(it, node, SV(t, seq_concat(s.term, o.term)), fr)
            return NONE
        if name == "pop":
            ln = z3.Length(s.term)
            if args:
                # pop(i) with Python index meaning: IndexError outside -len..len-1
                i0 = it.coerce(it.force(args[0], fr), TInt).term
                if not it.branch(z3.And(i0 >= -ln, i0 < ln)):
                    it.raise_exc("IndexError")
                i = z3.If(i0 >= 0, i0, i0 + ln)
                v = SV(t.elem, s.term[i])
                new = seq_concat(z3.SubSeq(s.term, 0, i), z3.SubSeq(s.term, i + 1, ln - i - 1))
                self.writeback(it, node, SV(t, new), fr)
                return it.assume_wf(v)
            if not it.branch(ln > 0):
                it.raise_exc("IndexError")
            v = SV(t.elem, s.term[ln - 1])
            self.writeback(it, node, SV(t, z3.SubSeq(s.term, 0, ln - 1)), fr)
            return it.assume_wf(v)
        if name == "copy":
            return SV(t, s.term)
        if name == "index":
            return self.cdb.externals.seq_index(it, s, args[0], fr)
        if name == "remove":
            i = self.cdb.externals.seq_index(it, s, args[0], fr)
            ln = z3.Length(s.term)
            new = seq_concat(z3.SubSeq(s.term, 0, i.term), z3.SubSeq(s.term, i.term + 1, ln - i.term - 1))
            self.writeback(it, node, SV(t, new), fr)
            return NONE
        if name == "decode" and t.bytes_:
            return self.cdb.externals.bytes_decode(it, s, args, fr)
        raise Unsupported(f"list method {name}")

    def set_method(self, it, s, name, args, kwargs, fr, node):
        t = s.ty
        if name == "add":
            k = it.key_of(args[0], t.k)
            self.writeback(it, node, SV(t, z3.Store(s.term, k, z3.BoolVal(True))), fr)
            return NONE
        if name == "union":
            o = args[0]
            if not (isinstance(o, SV) and isinstance(o.ty, TSet)):
                o = self.b_set(it, [o], {}, fr)
                if isinstance(o, VGen) and o.kind == "emptyset":
                    return s
            o = it.coerce(o, t)
            k = it.bound("uk", t.k.sort())
            return SV(t, z3.Lambda([k], z3.Or(z3.Select(s.term, k), z3.Select(o.term, k))))
        raise Unsupported(f"set method {name}")

    # ------------------------------------------------------------------ literals fixed to a declared type
    def literal_as(self, it, v, ty: Ty, fr):
        if isinstance(v, VGen) and v.kind == "emptydefaultdict":
            t = ty.inner if isinstance(ty, TOpt) else ty
            if isinstance(t, TDict) and isinstance(t.v, TSeq):
                return it.empty_dict(TDict(t.k, t.v, t.ordered, default_list=True))
            raise Unsupported("defaultdict(list) needs a dict[..., list[...]] annotation")
        if isinstance(v, VGen) and v.kind == "emptydict":
            t = ty.inner if isinstance(ty, TOpt) else ty
            if isinstance(t, TDict):
                return it.empty_dict(t)
            if t is TAny:
                return SV(TAny, it.fresh("newdict", TAny.sort()))
        if isinstance(v, VGen) and v.kind == "emptyset":
            t = ty.inner if isinstance(ty, TOpt) else ty
            if isinstance(t, TSet):
                return SV(t, z3.K(t.k.sort(), z3.BoolVal(False)))
        if isinstance(v, PyList):
            t = ty.inner if isinstance(ty, TOpt) else ty
            if isinstance(t, TSeq):
                return it.mk_seq(t, v.items)
        return v

    # ------------------------------------------------------------------ generators -> sequences
    def range_to_seq(self, it, r: VRange, fr) -> SV:
        s = it.fresh("rng", z3.SeqSort(z3.IntSort()))
        step = z3.simplify(r.step)
        if not (z3.is_int_value(step) and step.as_long() == 1):
            raise Unsupported("materialising a range with step != 1")
        n = z3.If(r.stop > r.start, r.stop - r.start, z3.IntVal(0))
        i = it.bound("ri", z3.IntSort())
        it.assume(z3.Length(s) == n)
        it.assume(z3.ForAll([i], z3.Implies(z3.And(i >= 0, i < n), s[i] == r.start + i)))
        return SV(TSeq(TInt), s)

    def gen_to_seq(self, it, g: VGen, fr) -> SV:
        if g.consumed:
            # a consumed generator yields nothing more
            if g.kind == "genexp":
                raise Unsupported("re-iteration of a consumed generator expression")
        if g.kind == "genexp":
            g.consumed = True
            return self.list_comp(it, g.node, g.frame)
        if g.kind == "dictkeys":
            d = g.d
            if d.ty.ordered:
                return SV(TSeq(d.ty.k), d.ty.keys(d.term))
            return self.some_order(it, d)
        if g.kind == "seqiter":
            ln = z3.Length(g.seq.term)
            r = SV(g.seq.ty, z3.SubSeq(g.seq.term, g.pos, ln - g.pos))
            g.pos = ln
            return r
        if g.kind == "setlit":
            return it.seq_of(PyList(g.items))
        if g.kind == "map":
            g.consumed = True
            base = it.iter_to_seq(it.force(g.src, fr), fr)
            n = z3.Length(base.term)
            i = it.bound("mi", z3.IntSort())
            nfr = self._child_frame(g.frame, pure=True)
            nfr.pure_code = True
            guard = z3.And(i >= 0, i < n)
            it.pure_ctx.append(([i], guard))
            it.binder_stack.append([])
            try:
                ev = it.call_value(g.fn, [it.assume_wf(SV(base.ty.elem, base.term[i]))], {}, nfr)
            finally:
                it.pure_ctx.pop()
                facts = it.binder_stack.pop()
            if facts:
                it.assume(z3.ForAll([i], z3.Implies(guard, z3.And(facts))))
            if isinstance(ev, (PyTuple, PyList)):
                ev = it.coerce(ev, it.val_ty(ev))
            res = it.fresh("mapped", z3.SeqSort(ev.ty.sort()))
            it.assume(z3.Length(res) == n)
            it.assume(z3.ForAll([i], z3.Implies(guard, res[i] == ev.term)))
            return SV(TSeq(ev.ty), res)
        raise Unsupported(f"materialise generator {g.kind}")

    def some_order(self, it, d: SV) -> SV:
        """Keys of an unordered dict model in *some* order: a duplicate-free sequence covering dom."""
        ks = it.fresh("keys", z3.SeqSort(d.ty.k.sort()))
        i, j = it.bound("ki", z3.IntSort()), it.bound("kj", z3.IntSort())
        k = it.bound("kk", d.ty.k.sort())
        ln = z3.Length(ks)
        it.assume(z3.ForAll([i], z3.Implies(z3.And(i >= 0, i < ln), z3.Select(d.ty.dom(d.term), ks[i]))))
        it.assume(z3.ForAll([i, j], z3.Implies(z3.And(i >= 0, i < j, j < ln), ks[i] != ks[j])))
        it.assume(z3.ForAll([k], z3.Implies(z3.Select(d.ty.dom(d.term), k), z3.Contains(ks, z3.Unit(k)))))
        it.assume(ln == it.dict_len(d))
        # the same coverage fact with an explicit position function (no appeal to seq.contains)
        pos = z3.Function(f"keypos!{next(it.counter)}", d.ty.k.sort(), z3.IntSort())
        it.assume(z3.ForAll([k], z3.Implies(z3.Select(d.ty.dom(d.term), k), z3.And(pos(k) >= 0, pos(k) < ln, ks[pos(k)] == k))))
        return SV(TSeq(d.ty.k), ks)

    # ------------------------------------------------------------------ comprehensions
    def list_comp(self, it, node, fr, want_bool=False, spec_mode=False) -> SV:
        if len(node.generators) == 2:
            return self.nested_comp(it, node, fr, spec_mode)
        if len(node.generators) != 1:
            raise Unsupported("comprehension with more than two generators")
        gen = node.generators[0]
        if gen.is_async:
            raise Unsupported("async comprehension")
        srcv = it.eval(gen.iter, fr)
        srcv = it.force(srcv, fr)
        if isinstance(srcv, (PyList, PyTuple)) and not gen.ifs:
            # concrete length: evaluate element-wise (full semantics, may fork / raise)
            out = []
            for x in srcv.items:
                nfr = self._child_frame(fr)
                it.assign(gen.target, x, nfr)
                out.append(it.eval(node.elt, nfr))
            if not out:
                return PyList([])
            return it.seq_of(PyList(out))
        if isinstance(srcv, VGen) and srcv.kind == "dictitems":
            keys = it.iter_to_seq(VGen("dictkeys", d=srcv.d), fr)
            d = srcv.d

            def elem_at(i):
                k = SV(d.ty.k, keys.term[i])
                return PyTuple([k, it.assume_wf(SV(d.ty.v, z3.Select(d.ty.val(d.term), k.term)))])
            n = z3.Length(keys.term)
        elif isinstance(srcv, VGen) and srcv.kind == "enumerate":
            base = it.iter_to_seq(srcv.src, fr)
            st = it.coerce(srcv.start, TInt).term if srcv.start is not None else z3.IntVal(0)

            def elem_at(i):
                return PyTuple([SV(TInt, i + st), it.assume_wf(SV(base.ty.elem, base.term[i]))])
            n = z3.Length(base.term)
        elif isinstance(srcv, VGen) and srcv.kind == "zip":
            bases = [it.iter_to_seq(s, fr) for s in srcv.srcs]
            n = z3.Length(bases[0].term)
            for b in bases[1:]:
                n = z3.If(z3.Length(b.term) < n, z3.Length(b.term), n)

            def elem_at(i):
                return PyTuple([it.assume_wf(SV(b.ty.elem, b.term[i])) for b in bases])
        elif isinstance(srcv, VRange):
            step = z3.simplify(srcv.step)
            if z3.is_int_value(step) and step.as_long() == 1:
                n = z3.If(srcv.stop > srcv.start, srcv.stop - srcv.start, z3.IntVal(0))

                def elem_at(i):
                    return SV(TInt, srcv.start + i)
            else:
                # positive symbolic step: n = ceil((stop-start)/step) characterised without division
                nn = it.fresh("rlen", z3.IntSort())
                st, lo, hi = srcv.step, srcv.start, srcv.stop
                it.assume(z3.Implies(st > 0, z3.And(nn >= 0, z3.Implies(hi <= lo, nn == 0),
                                                    z3.Implies(hi > lo, z3.And(lo + (nn - 1) * st < hi, lo + nn * st >= hi)))))
                if not fr.pure:
                    it.oblige("range-step-positive", st > 0, "safety", site=("rstep", getattr(node, "lineno", 0)))
                n = nn

                def elem_at(i):
                    return SV(TInt, lo + i * st)
        else:
            base = it.iter_to_seq(srcv, fr)
            n = z3.Length(base.term)

            def elem_at(i):
                return it.assume_wf(SV(base.ty.elem, base.term[i]))
        if gen.ifs:
            return self.filter_comp(it, node, gen, fr, n, elem_at)
        # pointwise map: result[i] = elt(src[i]); the element expression is evaluated once on a
        # generic index (pure evaluation: no forks, exceptions are obligations)
        i = it.bound("ci", z3.IntSort())
        nfr = self._child_frame(fr, pure=True)
        nfr.pure_code = True
        guard = z3.And(i >= 0, i < n)
        it.pure_ctx.append(([i], guard))
        it.binder_stack.append([])
        collect = [] if not (fr.pure or spec_mode) else None
        saved_collect = getattr(it, "raise_collect", None)
        it.raise_collect = collect
        heap_before = dict(it.heap)
        alive_before = it.alive
        saved_log = it.alloc_log
        it.alloc_log = []
        try:
            it.assign(gen.target, elem_at(i), nfr)
            ev = it.eval(node.elt, nfr)
        finally:
            it.pure_ctx.pop()
            facts = it.binder_stack.pop()
            it.raise_collect = saved_collect
            allocs = it.alloc_log
            it.alloc_log = saved_log
        if allocs:
            self.generalize_allocs(it, i, guard, allocs, heap_before, alive_before)
        elif any(not it.heap[k].eq(heap_before.get(k, it.heap[k])) for k in it.heap):
            raise Unsupported("comprehension element with side effects on existing objects")
        if collect:
            # an element whose evaluation raises makes the whole comprehension raise (first one)
            for (exc_name, cond, con) in collect:
                some = z3.Exists([i], z3.And(guard, cond))
                if it.branch(some):
                    from .interp import RaiseSig
                    raise RaiseSig(self.cdb.mk_exc(it, exc_name, con))
        if facts:
            # facts established about the generic element hold for every index in range
            it.assume(z3.ForAll([i], z3.Implies(guard, z3.And(facts))))
        if isinstance(ev, (PyTuple, PyList)):
            ety = it.val_ty(ev)
            ev = it.coerce(ev, ety)
        if want_bool:
            ev = SV(TBool, it.truthy(ev, fr))
        if is_none(ev):
            raise Unsupported("comprehension of None")
        res = it.fresh("comp", z3.SeqSort(ev.ty.sort()))
        it.assume(z3.Length(res) == n)
        it.assume(z3.ForAll([i], z3.Implies(z3.And(i >= 0, i < n), res[i] == ev.term)))
        it.notes.add("map comprehensions: element expression evaluated purely on a generic index")
        return SV(TSeq(ev.ty), res)

    def generalize_allocs(self, it, i, guard, allocs, heap_before, alive_before):
        """The element expression allocated objects (one family per generic index i).  The state
        after the whole comprehension: every family member is allocated and initialised as in its
        own iteration, members of different iterations are distinct, nothing else changed."""
        j = it.bound("gaj", z3.IntSort())
        x = it.bound("gax", Ref)

        def is_alloc(t):
            return any(t.eq(a) for a in allocs)
        for key, cur in list(it.heap.items()):
            old = heap_before.get(key)
            if old is not None and cur.eq(old):
                continue
            # the map must be the old map with stores at allocated references only
            t = cur
            stores = []
            while z3.is_app(t) and t.decl().kind() == z3.Z3_OP_STORE:
                base, idx, val = t.children()
                if not is_alloc(idx):
                    raise Unsupported("comprehension element writes a field of an object it did not allocate")
                stores.append((idx, val))
                t = base
            if old is not None and not t.eq(old):
                raise Unsupported("comprehension element replaces a heap map")
            base = old if old is not None else t
            fin = it.fresh_plain(f"Hc_{key[1]}", cur.sort())
            seen = []
            for idx, val in stores:  # outermost store first = last write wins
                if any(idx.eq(s) for s in seen):
                    continue
                seen.append(idx)
                it.assume(z3.ForAll([i], z3.Implies(guard, z3.Select(fin, idx) == val)))
            it.assume(z3.ForAll([x], z3.Implies(z3.Select(alive_before, x), z3.Select(fin, x) == z3.Select(base, x))))
            it.heap[key] = fin
        alive_fin = it.fresh_plain("alive_c", alive_before.sort())
        it.assume(z3.ForAll([x], z3.Implies(z3.Select(alive_before, x), z3.Select(alive_fin, x))))
        for a in allocs:
            it.assume(z3.ForAll([i], z3.Implies(guard, z3.And(z3.Select(alive_fin, a), z3.Not(z3.Select(alive_before, a))))))
        # distinctness across iterations and families
        for ai, a in enumerate(allocs):
            for bi, b in enumerate(allocs):
                bj = z3.substitute(b, (i, j))
                gj = z3.substitute(guard, (i, j))
                if ai == bi:
                    it.assume(z3.ForAll([i, j], z3.Implies(z3.And(guard, gj, i != j), a != bj)))
                elif ai < bi:
                    it.assume(z3.ForAll([i, j], z3.Implies(z3.And(guard, gj), a != bj)))
        it.alive = alive_fin
        it.notes.add("comprehensions that allocate: the objects of iteration i are Skolem functions of i; final heap = old heap + per-iteration initialisations")

    def nested_comp(self, it, node, fr, spec_mode=False):
        """[e for r in rows for t in r]: abstracted by membership (the multiset / order of the
        flattened sequence is not modelled): x in result  <=>  exists i, j. x == e(rows[i][j])."""
        g1, g2 = node.generators
        if g1.ifs or g2.ifs:
            raise Unsupported("filtered nested comprehension")
        rows = it.iter_to_seq(it.force(it.eval(g1.iter, fr), fr), fr)
        if not isinstance(rows.ty.elem, TSeq):
            raise Unsupported("nested comprehension over a non-sequence of sequences")
        i = it.bound("nci", z3.IntSort())
        j = it.bound("ncj", z3.IntSort())
        nfr = self._child_frame(fr, pure=True)
        nfr.pure_code = True
        row = SV(rows.ty.elem, rows.term[i])
        it.assign(g1.target, row, nfr)
        inner_src = it.eval(g2.iter, nfr)
        if not (isinstance(inner_src, SV) and inner_src.term.eq(row.term)):
            raise Unsupported("nested comprehension whose inner iterable is not the outer element")
        guard = z3.And(i >= 0, i < z3.Length(rows.term), j >= 0, j < z3.Length(row.term))
        it.pure_ctx.append(([i, j], guard))
        it.binder_stack.append([])
        saved_collect = getattr(it, "raise_collect", None)
        it.raise_collect = None
        try:
            it.assign(g2.target, it.assume_wf(SV(row.ty.elem, row.term[j])), nfr)
            ev = it.eval(node.elt, nfr)
        finally:
            it.pure_ctx.pop()
            facts = it.binder_stack.pop()
            it.raise_collect = saved_collect
        if facts:
            it.assume(z3.ForAll([i, j], z3.Implies(guard, z3.And(facts))))
        if not it.eq_is_structural(ev.ty):
            raise Unsupported("nested comprehension over elements without structural equality")
        res = it.fresh("flat", z3.SeqSort(ev.ty.sort()))
        x = it.bound("ncx", ev.ty.sort())
        k = it.bound("nck", z3.IntSort())
        it.assume(z3.ForAll([i, j], z3.Implies(guard, z3.Exists([k], z3.And(k >= 0, k < z3.Length(res), res[k] == ev.term)))))
        it.assume(z3.ForAll([k], z3.Implies(z3.And(k >= 0, k < z3.Length(res)), z3.Exists([i, j], z3.And(guard, res[k] == ev.term)))))
        it.notes.add("two-level comprehensions are abstracted by membership: every produced element comes from some (row, position) and vice versa; order and multiplicity are not modelled")
        return SV(TSeq(ev.ty), res)

    def filter_comp(self, it, node, gen, fr, n, elem_at):
        """[e(x) for x in src if P(x)]: exact order-preserving filter, encoded with a ghost position
        function pos: result index -> source index (strictly increasing, onto the positions satisfying P)."""
        def pred_elt(i):
            nfr = self._child_frame(fr, pure=True)
            nfr.pure_code = True
            it.assign(gen.target, elem_at(i), nfr)
            c = z3.And([it.truthy(it.eval(cnd, nfr), nfr) for cnd in gen.ifs])
            self_narrow = getattr(it, "narrow", None)
            for cnd in gen.ifs:
                it.narrow(cnd, nfr)
            ev = it.eval(node.elt, nfr)
            if isinstance(ev, (PyTuple, PyList)):
                ev = it.coerce(ev, it.val_ty(ev))
            return c, ev
        i = it.bound("fi", z3.IntSort())
        k = it.bound("fk", z3.IntSort())
        k2 = it.bound("fk2", z3.IntSort())
        it.binder_stack.append([])
        it.pure_ctx.append(([i], z3.And(i >= 0, i < n)))
        try:
            ci, evi = pred_elt(i)
        finally:
            it.pure_ctx.pop()
            facts = it.binder_stack.pop()
        if facts:
            it.assume(z3.ForAll([i], z3.Implies(z3.And(i >= 0, i < n, ci), z3.And(facts))))
        res = it.fresh("filt", z3.SeqSort(evi.ty.sort()))
        pos = z3.Function(f"pos!{next(it.counter)}", z3.IntSort(), z3.IntSort())
        ln = z3.Length(res)
        ck = z3.substitute(ci, (i, pos(k)))
        ek = z3.substitute(evi.term, (i, pos(k)))
        it.assume(z3.ForAll([k], z3.Implies(z3.And(k >= 0, k < ln), z3.And(pos(k) >= 0, pos(k) < n, ck, res[k] == ek))))
        it.assume(z3.ForAll([k, k2], z3.Implies(z3.And(k >= 0, k < k2, k2 < ln), pos(k) < pos(k2))))
        it.assume(z3.ForAll([i], z3.Implies(z3.And(i >= 0, i < n, ci), z3.Exists([k], z3.And(k >= 0, k < ln, pos(k) == i)))))
        it.assume(ln <= n)
        it.notes.add("filtered comprehensions: exact order-preserving filter via a ghost position function")
        return SV(TSeq(evi.ty), res)

    def _child_frame(self, fr, pure=None):
        nfr = Frame(fr.module, fr.cls, fr.fi, pure=fr.pure if pure is None else pure)
        nfr.env = dict(fr.env)
        nfr.heap_override = fr.heap_override
        nfr.ghost = fr.ghost
        nfr.contract = fr.contract
        nfr.pure_code = getattr(fr, "pure_code", False)
        for a in ("old_heap", "old_env"):
            if hasattr(fr, a):
                setattr(nfr, a, getattr(fr, a))
        return nfr

    def dict_comp(self, it, node, fr):
        if len(node.generators) != 1 or node.generators[0].ifs:
            raise Unsupported("dict comprehension shape")
        gen = node.generators[0]
        srcv = it.force(it.eval(gen.iter, fr), fr)
        if isinstance(srcv, PyList) and not srcv.items:
            return VGen("emptydict")
        if not (isinstance(srcv, VGen) and srcv.kind == "dictitems"):
            raise Unsupported("dict comprehension source")
        d = srcv.d
        dom = d.ty.dom(d.term)

        def elem(kc):
            """key / value expressions on a generic source key (pure); facts are returned separately"""
            nfr = self._child_frame(fr, pure=True)
            nfr.pure_code = True
            guard = z3.Select(dom, kc)
            it.pure_ctx.append(([kc], guard))
            it.binder_stack.append([])
            try:
                it.assign(gen.target, PyTuple([SV(d.ty.k, kc), it.assume_wf(SV(d.ty.v, z3.Select(d.ty.val(d.term), kc)))]), nfr)
                ke = it.eval(node.key, nfr)
                ve = it.eval(node.value, nfr)
            finally:
                it.pure_ctx.pop()
                facts = it.binder_stack.pop()
            return ke, ve, facts
        k = it.bound("dk", d.ty.k.sort())
        ke, ve, facts = elem(k)
        if facts:
            it.assume(z3.ForAll([k], z3.Implies(z3.Select(dom, k), z3.And(facts))))
        rt = TDict(ke.ty, ve.ty)
        r = it.fresh("dcomp", rt.sort())
        x = it.bound("dx", ke.ty.sort())
        # every source item contributes its key; the stored value comes from *some* source item
        # with that key (Python: the last one in iteration order)
        k2 = it.bound("dk2", d.ty.k.sort())
        ke2, ve2, facts2 = elem(k2)
        it.assume(z3.ForAll([k], z3.Implies(z3.Select(dom, k), z3.Select(rt.dom(r), ke.term))))
        it.assume(z3.ForAll([x], z3.Implies(z3.Select(rt.dom(r), x),
                                            z3.Exists([k2], z3.And(z3.Select(dom, k2), ke2.term == x, z3.Select(rt.val(r), x) == ve2.term, *facts2)))))
        return SV(rt, r)

    # ------------------------------------------------------------------ match statement
    def match_stmt(self, it, st, fr):
        subj = it.eval(st.subject, fr)
        for case in st.cases:
            nfr = fr  # bindings are function-scoped in Python
            saved = dict(fr.env)
            if self.match_pattern(it, case.pattern, subj, fr):
                if case.guard is not None:
                    if not it.branch(it.truthy(it.eval(case.guard, fr), fr)):
                        continue
                it.exec_block(case.body, fr)
                return
        return

    def match_pattern(self, it, pat, subj, fr) -> bool:
        if isinstance(pat, ast.MatchAs):
            if pat.pattern is not None:
                self._narrowed = None
                if not self.match_pattern(it, pat.pattern, subj, fr):
                    return False
                if isinstance(pat.pattern, ast.MatchClass) and getattr(self, "_narrowed", None) is not None:
                    subj = self._narrowed      # `case C() as x`: x has the narrower static type
                self._narrowed = None
            if pat.name is not None:
                fr.env[pat.name] = subj
            return True
        if isinstance(pat, ast.MatchValue):
            v = it.eval(pat.value, fr)
            return it.branch(it.py_eq(subj, v, fr))
        if isinstance(pat, ast.MatchSingleton):
            v = it.e_Constant(ast.Constant(pat.value), fr)
            return it.branch(it.py_is(subj, v, fr))
        if isinstance(pat, ast.MatchOr):
            for p in pat.patterns:
                if self.match_pattern(it, p, subj, fr):
                    return True
            return False
        if isinstance(pat, ast.MatchClass):
            cls = it.eval(pat.cls, fr)
            if isinstance(cls, SV) and cls.ty is TInt:
                raise Unsupported("match class on value")
            subj = it.force(subj, fr) if not isinstance(subj, VSlice) else subj
            # builtin classes: int(x) / list(x) / tuple(x) / slice()
            if isinstance(cls, VBuiltin):
                n = cls.name
                if n == "slice":
                    ok = isinstance(subj, VSlice)
                    if ok and (pat.patterns or pat.kwd_patterns):
                        raise Unsupported("slice sub-patterns")
                    return ok
                if isinstance(subj, VSlice):
                    return False
                cond = self.isinstance_cond(it, subj, cls, fr)
                if not it.branch(cond):
                    return False
                if pat.patterns:
                    if len(pat.patterns) != 1:
                        raise Unsupported("builtin class pattern arity")
                    return self.match_pattern(it, pat.patterns[0], subj, fr)
                return True
            if isinstance(cls, VClass):
                if isinstance(subj, VSlice):
                    return False
                cond = self.isinstance_cond(it, subj, cls, fr)
                if not it.branch(cond):
                    return False
                # narrow the static type
                if isinstance(subj, SV) and isinstance(subj.ty, TObj) and it.w.is_subclass(cls.ci.qname, subj.ty.cls):
                    subj = SV(TObj(cls.ci.qname, exact=len(it.w.subclasses(cls.ci.qname)) == 1), subj.term)
                names = [f.name for f in it.w.all_fields(cls.ci.qname) if f.init]
                narrowed_here = subj
                for i, p in enumerate(pat.patterns):
                    if i >= len(names):
                        raise Unsupported("too many positional sub-patterns")
                    sub = it.getattr(subj, names[i], fr)
                    if not self.match_pattern(it, p, sub, fr):
                        return False
                for kw, p in zip(pat.kwd_attrs, pat.kwd_patterns):
                    sub = it.getattr(subj, kw, fr)
                    if not self.match_pattern(it, p, sub, fr):
                        return False
                self._narrowed = narrowed_here
                return True
            raise Unsupported(f"class pattern {cls}")
        if isinstance(pat, ast.MatchSequence):
            subj = it.force(subj, fr)
            if isinstance(subj, VSlice):
                return False
            if any(isinstance(p, ast.MatchStar) for p in pat.patterns):
                raise Unsupported("star pattern")
            n = len(pat.patterns)
            if isinstance(subj, (PyList, PyTuple)):
                if len(subj.items) != n:
                    return False
                items = subj.items
            elif isinstance(subj, SV) and isinstance(subj.ty, TSeq) and not subj.ty.bytes_:
                if not it.branch(z3.Length(subj.term) == n):
                    return False
                items = [it.assume_wf(SV(subj.ty.elem, subj.term[i])) for i in range(n)]
            else:
                return False
            for p, x in zip(pat.patterns, items):
                if not self.match_pattern(it, p, x, fr):
                    return False
            return True
        raise Unsupported(f"pattern {type(pat).__name__}")
