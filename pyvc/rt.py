"""Concrete (run-time) semantics of the contract language.

The same sidecar contract text the prover turns into formulas is evaluated here on real
Python objects: replays of counterexamples and the bounded stand-ins run the *real* functions
of /repo under these monitors.  Runs under any Python (no z3 needed).
"""
from __future__ import annotations

import ast
import copy
import os
import sys
from typing import Any, Callable, Optional


class NotEvaluable(Exception):
    """A clause uses a construct that has no run-time meaning (e.g. the dict behind an iterator)."""


class PreconditionFailed(Exception):
    pass


class ContractViolation(Exception):
    def __init__(self, target, clause, detail):
        super().__init__(f"{target}: clause {clause} violated: {detail}")
        self.target = target
        self.clause = clause
        self.detail = detail


class RtContract:
    def __init__(self, target, node: ast.ClassDef, props, module):
        self.target = target
        self.node = node
        self.props = props
        self.module = module
        self.fns = {st.name: st for st in node.body if isinstance(st, ast.FunctionDef)}
        self.trusted = False


class RtDB:
    def __init__(self):
        self.contracts: dict[str, RtContract] = {}
        self.specs: dict[str, ast.FunctionDef] = {}
        self.aliases: dict[str, str] = {}
        self.universes: dict[str, Callable[[], list]] = {}
        self.ghost_impls: dict[str, Callable] = {}
        self.pyfuncs: dict[str, Callable] = {}

    def load_file(self, path):
        tree = ast.parse(open(path).read(), filename=path)
        mod = "contracts." + os.path.basename(path)[:-3]
        for st in tree.body:
            if isinstance(st, ast.Assign) and len(st.targets) == 1 and isinstance(st.targets[0], ast.Name):
                if st.targets[0].id == "class_aliases":
                    self.aliases.update(ast.literal_eval(st.value))
            elif isinstance(st, ast.FunctionDef):
                decos = [ast.unparse(d) for d in st.decorator_list]
                if any(d.startswith("spec") for d in decos):
                    self.specs[st.name] = st
            elif isinstance(st, ast.ClassDef):
                for d in st.decorator_list:
                    if isinstance(d, ast.Call) and getattr(d.func, "id", "") == "contract":
                        target = ast.literal_eval(d.args[0])
                        props = []
                        for kw in d.keywords:
                            if kw.arg == "props":
                                props = ast.literal_eval(kw.value)
                        self.contracts[target] = RtContract(target, st, props, mod)


def _resolve_dotted(q: str):
    import importlib
    parts = q.split(".")
    for i in range(len(parts), 0, -1):
        try:
            m = importlib.import_module(".".join(parts[:i]))
        except ImportError:
            continue
        obj = m
        for p in parts[i:]:
            obj = getattr(obj, p)
        return obj
    raise ImportError(q)


class Thunk:
    def __init__(self, node, env):
        self.node, self.env, self.done, self.val = node, env, False, None


class Env:
    def __init__(self, db: RtDB, vars: dict, old_vars: Optional[dict] = None, universes: Optional[dict] = None):
        self.db = db
        self.vars = vars
        self.old_vars = old_vars
        self.universes = universes or {}

    def child(self, extra: dict):
        e = Env(self.db, {**self.vars, **extra}, self.old_vars, self.universes)
        return e


class Evaluator:
    def __init__(self, db: RtDB):
        self.db = db

    # -------------------------------------------------------------- entry points
    def run_fn(self, fn: ast.FunctionDef, env: Env):
        """Evaluate a contract function; returns the raw return AST evaluated clause-wise."""
        env = env.child({})
        for st in fn.body:
            if isinstance(st, ast.Expr) and isinstance(st.value, ast.Constant):
                continue
            if isinstance(st, ast.Assign):
                # lazy: a local of a contract function is only evaluated where a clause uses it
                env.vars[st.targets[0].id] = Thunk(st.value, Env(self.db, dict(env.vars), env.old_vars, env.universes))
            elif isinstance(st, ast.Return):
                return st.value, env
            elif isinstance(st, ast.If):
                raise NotEvaluable("if in contract function")
        return None, env

    def clauses(self, fn: ast.FunctionDef, env: Env):
        ret, env = self.run_fn(fn, env)
        out = []
        if ret is None:
            return out
        if isinstance(ret, ast.Dict):
            for k, v in zip(ret.keys, ret.values):
                name = str(k.value) if isinstance(k, ast.Constant) else ast.unparse(k)
                out.append((name, v, env))
        elif isinstance(ret, (ast.List, ast.Tuple)):
            for i, v in enumerate(ret.elts):
                out.append((f"c{i}", v, env))
        else:
            out.append(("c0", ret, env))
        return out

    # -------------------------------------------------------------- expressions
    def ev(self, n, env: Env):
        m = getattr(self, "e_" + type(n).__name__, None)
        if m is None:
            raise NotEvaluable(type(n).__name__)
        return m(n, env)

    def e_Constant(self, n, env):
        return n.value

    def e_Name(self, n, env):
        if n.id in env.vars:
            v = env.vars[n.id]
            if isinstance(v, Thunk):
                if not v.done:
                    v.val = self.ev(v.node, v.env)
                    v.done = True
                return v.val
            return v
        if n.id in self.db.specs:
            return ("spec", self.db.specs[n.id])
        if n.id in self.db.aliases:
            return _resolve_dotted(self.db.aliases[n.id])
        if n.id in self.db.pyfuncs:
            return self.db.pyfuncs[n.id]
        import builtins
        if hasattr(builtins, n.id):
            return getattr(builtins, n.id)
        return ("typename", n.id)

    def e_Attribute(self, n, env):
        b = self.ev(n.value, env)
        return getattr(b, n.attr)

    def e_BoolOp(self, n, env):
        if isinstance(n.op, ast.And):
            r = True
            for v in n.values:
                r = self.ev(v, env)
                if not r:
                    return r
            return r
        r = False
        for v in n.values:
            r = self.ev(v, env)
            if r:
                return r
        return r

    def e_UnaryOp(self, n, env):
        v = self.ev(n.operand, env)
        if isinstance(n.op, ast.Not):
            return not v
        if isinstance(n.op, ast.USub):
            return -v
        raise NotEvaluable("unary")

    def e_BinOp(self, n, env):
        a, b = self.ev(n.left, env), self.ev(n.right, env)
        op = n.op
        if isinstance(op, ast.Add):
            if isinstance(a, (list, tuple)) and isinstance(b, (list, tuple)):
                return list(a) + list(b)
            return a + b
        if isinstance(op, ast.Sub):
            return a - b
        if isinstance(op, ast.Mult):
            return a * b
        if isinstance(op, ast.FloorDiv):
            return a // b
        if isinstance(op, ast.Mod):
            return a % b
        if isinstance(op, ast.BitAnd):
            return a & b
        if isinstance(op, ast.BitOr):
            return a | b
        raise NotEvaluable("binop")

    def e_Compare(self, n, env):
        left = self.ev(n.left, env)
        for op, r in zip(n.ops, n.comparators):
            right = self.ev(r, env)
            if isinstance(op, ast.Eq):
                ok = self.py_eq(left, right)
            elif isinstance(op, ast.NotEq):
                ok = not self.py_eq(left, right)
            elif isinstance(op, ast.Lt):
                ok = left < right
            elif isinstance(op, ast.LtE):
                ok = left <= right
            elif isinstance(op, ast.Gt):
                ok = left > right
            elif isinstance(op, ast.GtE):
                ok = left >= right
            elif isinstance(op, ast.Is):
                ok = left is right
            elif isinstance(op, ast.IsNot):
                ok = left is not right
            elif isinstance(op, ast.In):
                ok = left in right
            elif isinstance(op, ast.NotIn):
                ok = left not in right
            else:
                raise NotEvaluable("cmp")
            if not ok:
                return False
            left = right
        return True

    def py_eq(self, a, b):
        if isinstance(a, (bytes, bytearray)) and isinstance(b, (list, tuple, bytes, bytearray)):
            a = list(a)
        if isinstance(b, (bytes, bytearray)) and isinstance(a, (list, tuple)):
            b = list(b)
        if isinstance(a, _ListIter):
            a = a.items
        if isinstance(b, _ListIter):
            b = b.items
        if isinstance(a, (list, tuple)) and isinstance(b, (list, tuple)):
            # the prover's sequences do not distinguish list/tuple in specifications
            return len(a) == len(b) and all(self.py_eq(x, y) for x, y in zip(a, b))
        return a == b

    def e_IfExp(self, n, env):
        return self.ev(n.body, env) if self.ev(n.test, env) else self.ev(n.orelse, env)

    def e_Tuple(self, n, env):
        return tuple(self.ev(e, env) for e in n.elts)

    def e_List(self, n, env):
        return [self.ev(e, env) for e in n.elts]

    def e_Subscript(self, n, env):
        b = self.ev(n.value, env)
        if isinstance(n.slice, ast.Slice):
            lo = self.ev(n.slice.lower, env) if n.slice.lower else None
            hi = self.ev(n.slice.upper, env) if n.slice.upper else None
            return b[lo:hi]
        return b[self.ev(n.slice, env)]

    def e_Lambda(self, n, env):
        return ("lambda", n, env)

    def e_JoinedStr(self, n, env):
        raise NotEvaluable("fstring")

    def e_Call(self, n, env):
        f = n.func
        if isinstance(f, ast.Name):
            h = getattr(self, "c_" + f.id, None)
            if h is not None and f.id not in env.vars:
                return h(n, env)
        fv = self.ev(f, env)
        args = [self.ev(a, env) for a in n.args]
        kwargs = {k.arg: self.ev(k.value, env) for k in n.keywords}
        return self.apply(fv, args, env, kwargs)

    def apply(self, fv, args, env, kwargs=None):
        kwargs = kwargs or {}
        if isinstance(fv, tuple) and fv and fv[0] == "spec":
            fn = fv[1]
            names = [a.arg for a in fn.args.args]
            e2 = Env(self.db, dict(zip(names, args)), env.old_vars, env.universes)
            e2.vars.update(kwargs)
            e2.in_old = getattr(env, "in_old", False)
            return self.run_spec(fn, e2)
        if isinstance(fv, tuple) and fv and fv[0] == "lambda":
            _, lam, lenv = fv
            names = [a.arg for a in lam.args.args]
            return self.ev(lam.body, lenv.child(dict(zip(names, args))))
        if callable(fv):
            return fv(*args, **kwargs)
        raise NotEvaluable(f"call of {fv}")

    def run_spec(self, fn, env):
        for i, st in enumerate(fn.body):
            if isinstance(st, ast.Expr) and isinstance(st.value, ast.Constant):
                continue
            if isinstance(st, ast.Assign):
                env.vars[st.targets[0].id] = self.ev(st.value, env)
            elif isinstance(st, ast.Return):
                return self.ev(st.value, env)
            elif isinstance(st, ast.If):
                rest = fn.body[i + 1:]
                branch = st.body if self.ev(st.test, env) else st.orelse
                fake = ast.FunctionDef(name=fn.name, args=fn.args, body=branch + rest, decorator_list=[])
                return self.run_spec(fake, env)
            else:
                raise NotEvaluable("statement in spec")
        return None

    # -------------------------------------------------------------- spec builtins
    def universe(self, tnode, env):
        name = ast.unparse(tnode)
        if name in env.universes:
            u = env.universes[name]
            return list(u() if callable(u) else u)
        if name == "bool":
            return [False, True]
        raise NotEvaluable(f"no universe for {name}")

    def _quant(self, n, env, universal):
        tn, lam = n.args[0], n.args[1]
        tns = tn.elts if isinstance(tn, ast.Tuple) else [tn]
        names = [a.arg for a in lam.args.args]
        import itertools
        doms = [self.universe(t, env) for t in tns]
        for combo in itertools.product(*doms):
            r = self.ev(lam.body, env.child(dict(zip(names, combo))))
            if universal and not r:
                env.last_witness = dict(zip(names, combo))
                return False
            if not universal and r:
                return True
        return universal

    def c_forall(self, n, env):
        return self._quant(n, env, True)

    def c_exists(self, n, env):
        return self._quant(n, env, False)

    def c_implies(self, n, env):
        return (not self.ev(n.args[0], env)) or bool(self.ev(n.args[1], env))

    def c_iff(self, n, env):
        return bool(self.ev(n.args[0], env)) == bool(self.ev(n.args[1], env))

    def c_ite(self, n, env):
        return self.ev(n.args[1], env) if self.ev(n.args[0], env) else self.ev(n.args[2], env)

    def c_eq(self, n, env):
        return self.py_eq(self.ev(n.args[0], env), self.ev(n.args[1], env))

    def c_old(self, n, env):
        if env.old_vars is None:
            raise NotEvaluable("old outside post")
        e2 = Env(self.db, {**env.vars, **env.old_vars}, env.old_vars, env.universes)
        return self.ev(n.args[0], e2)

    def c_has(self, n, env):
        d, k = self.ev(n.args[0], env), self.ev(n.args[1], env)
        try:
            return k in d
        except TypeError:
            return False

    def c_get(self, n, env):
        return self.ev(n.args[0], env)[self.ev(n.args[1], env)]

    def c_card(self, n, env):
        return len(self.ev(n.args[0], env))

    def c_isNone(self, n, env):
        return self.ev(n.args[0], env) is None

    def c_notNone(self, n, env):
        return self.ev(n.args[0], env) is not None

    c_is_some = c_notNone

    def c_the(self, n, env):
        return self.ev(n.args[0], env)

    def c_inj(self, n, env):
        d = self.ev(n.args[0], env)
        vals = list(d.values())
        for i in range(len(vals)):
            for j in range(i + 1, len(vals)):
                if vals[i] == vals[j]:
                    return False
        return True

    def c_nth(self, n, env):
        return self.ev(n.args[0], env)[self.ev(n.args[1], env)]

    def c_concat(self, n, env):
        out = []
        for a in n.args:
            out += list(self.ev(a, env))
        return out

    def c_sub(self, n, env):
        s, lo, k = [self.ev(a, env) for a in n.args]
        return list(s)[lo:lo + k] if k > 0 and lo >= 0 else []

    def c_contains(self, n, env):
        return self.ev(n.args[1], env) in list(self.ev(n.args[0], env))

    def c_Seq(self, n, env):
        return [self.ev(a, env) for a in n.args[1:]]

    def c_empty_seq(self, n, env):
        return []

    def c_cls_is(self, n, env):
        v = self.ev(n.args[0], env)
        c = self.ev(n.args[1], env)
        return type(v) is c

    def c_same_obj(self, n, env):
        return self.ev(n.args[0], env) is self.ev(n.args[1], env)

    def c_view_of(self, n, env):
        v = self.ev(n.args[0], env)
        import collections.abc as cabc
        if isinstance(v, cabc.ItemsView):
            return dict(v)
        if isinstance(v, cabc.KeysView):
            return {k: v._mapping[k] for k in v} if hasattr(v, "_mapping") else NotEvaluable
        raise NotEvaluable("view_of on an iterator")

    def c_kind_of(self, n, env):
        v = self.ev(n.args[0], env)
        import collections.abc as cabc
        if isinstance(v, cabc.ItemsView):
            return "dictitems"
        if isinstance(v, cabc.KeysView) or type(v).__name__ == "dict_keyiterator":
            return "dictkeys"
        return "value"

    def c_ghost(self, n, env):
        name = n.args[0].value
        impl = self.db.ghost_impls.get(name)
        if impl is None:
            raise NotEvaluable(f"ghost {name}")
        return impl(*[self.ev(a, env) for a in n.args[2:]])

    def c_fresh_in(self, n, env):
        raise NotEvaluable("fresh_in")

    def c_len(self, n, env):
        return len(self.ev(n.args[0], env))

    def c_elems(self, n, env):
        return list(self.ev(n.args[0], env))


class Monitor:
    """Wraps real functions with their contracts."""

    def __init__(self, db: RtDB, universes: Optional[dict] = None, check_pre=True):
        self.db = db
        self.ev = Evaluator(db)
        self.universes = universes or {}
        self.stats = {"calls": 0, "clauses": 0, "skipped": 0, "pre_failed": 0}
        self.installed = []
        self.check_pre = check_pre
        self.snapshot: Callable[[Any], Any] = copy.deepcopy

    def pick(self, target, vars):
        if target in self.db.contracts:
            return self.db.contracts[target]
        for k, c in self.db.contracts.items():
            if k.split("#")[0] != target:
                continue
            types = {}
            for st in c.node.body:
                if isinstance(st, ast.Assign) and st.targets[0].id == "types":
                    types = ast.literal_eval(st.value)
            ok = True
            for pn, ts in types.items():
                v = vars.get(pn)
                if ts == "int" and not (isinstance(v, int)):
                    ok = False
                if ts == "Slice" and not isinstance(v, slice):
                    ok = False
                if ts.startswith("TupSeq") and not isinstance(v, tuple):
                    ok = False
            if ok:
                return c
        return None

    def call(self, target: str, fn: Callable, args: tuple, kwargs: dict, bound_names: list[str]):
        con = self.pick(target, {**dict(zip(bound_names, args)), **kwargs})
        if con is None:
            return fn(*args, **kwargs)
        self.stats["calls"] += 1
        import inspect
        sig_names = bound_names
        vars = dict(zip(sig_names, args))
        vars.update(kwargs)
        try:
            old_vars = {k: self.snapshot(v) for k, v in vars.items()}
        except Exception:
            old_vars = dict(vars)
        env = Env(self.db, dict(vars), None, self.universes)
        if "requires" in con.fns and self.check_pre:
            for name, node, e2 in self.ev.clauses(con.fns["requires"], self._env_for(con.fns["requires"], env)):
                try:
                    if not self.ev.ev(node, e2):
                        self.stats["pre_failed"] += 1
                        raise PreconditionFailed(f"{target}: requires {name}")
                except NotEvaluable:
                    self.stats["skipped"] += 1
        raise_conds = []
        if "raises" in con.fns:
            for name, node, e2 in self.ev.clauses(con.fns["raises"], self._env_for(con.fns["raises"], env)):
                try:
                    raise_conds.append((name, bool(self.ev.ev(node, e2))))
                except NotEvaluable:
                    self.stats["skipped"] += 1
                    raise_conds.append((name, None))
        try:
            result = fn(*args, **kwargs)
            import types as _types
            if isinstance(result, _types.GeneratorType):
                # the contract talks about the sequence the generator yields: materialise it once
                # (exceptions raised lazily surface here) and hand an iterator over it to the caller
                result = _ListIter(list(result))
        except Exception as exc:
            if "raises" in con.fns:
                ok = False
                undecided = False
                for name, c in raise_conds:
                    cls = self._exc_class(name)
                    if cls is not None and isinstance(exc, cls):
                        if c is None:
                            undecided = True
                        elif c:
                            ok = True
                self.stats["clauses"] += 1
                if not ok and not undecided:
                    raise ContractViolation(target, f"raise-licensed:{type(exc).__name__}", f"raised {exc!r} but no raises-clause condition holds; args={_short(old_vars)}") from exc
            if "raises_ensures" in con.fns:
                penv = Env(self.db, dict(vars), old_vars, self.universes)
                self._check(con, "raises_ensures", penv, target, old_vars)
            raise
        for name, c in raise_conds:
            self.stats["clauses"] += 1
            if c:
                raise ContractViolation(target, f"must-raise:{name}", f"returned {result!r} although the {name} condition holds; args={_short(old_vars)}")
        if "ensures" in con.fns:
            penv = Env(self.db, {**vars, "result": result}, old_vars, self.universes)
            self._check(con, "ensures", penv, target, old_vars)
        return result

    def _env_for(self, fn, env):
        return env

    def _check(self, con, which, penv, target, old_vars):
        for name, node, e2 in self.ev.clauses(con.fns[which], penv):
            try:
                ok = self.ev.ev(node, e2)
            except NotEvaluable:
                self.stats["skipped"] += 1
                continue
            self.stats["clauses"] += 1
            if not ok:
                raise ContractViolation(target, f"{which}:{name}", f"args(before)={_short(old_vars)} after={_short(penv.vars)}")

    def _exc_class(self, name):
        import builtins
        if hasattr(builtins, name):
            return getattr(builtins, name)
        q = self.db.aliases.get(name, name)
        try:
            return _resolve_dotted(q)
        except Exception:
            return None

    # -------------------------------------------------------------- installation on the real classes
    def install(self, targets: Optional[list[str]] = None):
        import inspect
        seen = set()
        for target in (targets or list(self.db.contracts)):
            target = target.split("#")[0]
            if target in seen:
                continue
            seen.add(target)
            owner_q, fname = target.rsplit(".", 1)
            try:
                owner = _resolve_dotted(owner_q)
            except Exception:
                continue
            raw = inspect.getattr_static(owner, fname, None)
            if raw is None:
                continue
            kind = "function"
            fn = raw
            if isinstance(raw, staticmethod):
                kind, fn = "static", raw.__func__
            elif isinstance(raw, classmethod):
                kind, fn = "class", raw.__func__
            elif isinstance(raw, property):
                continue
            if not callable(fn):
                continue
            names = list(inspect.signature(fn).parameters)
            wrapper = self._wrap(target, fn, names)
            if kind == "static":
                wrapper = staticmethod(wrapper)
            elif kind == "class":
                wrapper = classmethod(wrapper)
            setattr(owner, fname, wrapper)
            self.installed.append((owner, fname, raw))

    def _wrap(self, target, fn, names):
        mon = self

        def wrapper(*args, **kwargs):
            if getattr(mon, "_busy", False):
                return fn(*args, **kwargs)
            mon._busy = True
            try:
                inner = fn

                def run(*a, **k):
                    mon._busy = False
                    try:
                        return inner(*a, **k)
                    finally:
                        mon._busy = True
                return mon.call(target, run, args, kwargs, names)
            finally:
                mon._busy = False
        wrapper.__wrapped__ = fn
        wrapper.__name__ = getattr(fn, "__name__", "wrapped")
        return wrapper

    def uninstall(self):
        for owner, fname, raw in reversed(self.installed):
            setattr(owner, fname, raw)
        self.installed = []


class _ListIter:
    """Iterator over a materialised generator result (re-iterable for the contract clauses)."""

    def __init__(self, items):
        self.items = items
        self.pos = 0

    def __iter__(self):
        return self if self.pos else _ListIter2(self)

    def __next__(self):
        if self.pos >= len(self.items):
            raise StopIteration
        self.pos += 1
        return self.items[self.pos - 1]

    def __len__(self):
        return len(self.items)


class _ListIter2:
    def __init__(self, parent):
        self.p = parent
        self.i = 0

    def __iter__(self):
        return self

    def __next__(self):
        if self.i >= len(self.p.items):
            raise StopIteration
        self.i += 1
        self.p.pos = max(self.p.pos, 0)
        return self.p.items[self.i - 1]


def _short(d, limit=400):
    try:
        s = repr(d)
    except Exception:
        s = "<unrepr>"
    return s if len(s) <= limit else s[:limit] + "..."


def load_db(files: list[str]) -> RtDB:
    db = RtDB()
    for f in files:
        db.load_file(f)
    return db
