"""Run-time stand-ins for the contract DSL, so contract files are importable Python.
(The prover parses the contract files; it never imports them.)"""


def contract(target, props=()):
    def deco(cls):
        cls.__contract_target__ = target
        cls.__contract_props__ = list(props)
        return cls
    return deco


def spec(f):
    return f


def lemma(f):
    return f


def code_lemma(f):
    return f
