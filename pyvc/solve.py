"""Second-opinion solvers on SMT-LIB dumps (/usr/bin/z3 4.8.12, /usr/bin/cvc5 1.0.3)."""
import os
import subprocess
import tempfile
import time


def _cli_check(smt2: str, tool: str, timeout_s: int):
    with tempfile.NamedTemporaryFile("w", suffix=".smt2", delete=False) as f:
        f.write(smt2)
        path = f.name
    try:
        if tool == "cvc5":
            cmd = ["/usr/bin/cvc5", "--strings-exp", f"--tlimit={timeout_s * 1000}", path]
        else:
            cmd = ["/usr/bin/z3", f"-T:{timeout_s}", path]
        t0 = time.time()
        try:
            p = subprocess.run(cmd, capture_output=True, text=True, timeout=timeout_s + 5)
            out = p.stdout.strip().splitlines()
            res = out[0].strip() if out else "unknown"
        except subprocess.TimeoutExpired:
            res = "unknown"
        ms = (time.time() - t0) * 1000
        if res not in ("sat", "unsat"):
            res = "unknown"
        return res, ms
    finally:
        os.unlink(path)


